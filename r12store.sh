#!/bin/bash
# usage: r11store.sh <Cxx> : verifies and stores the two seeded changes of a round-11 worktree, keeps its findings
p="$1"; wt=/tmp/r12/wt-$p
n=$(ls /verif/seeded | grep -c "^$p-")
for i in 1 2; do
  [ -f $wt/_seed/patch$i.diff ] || continue
  n=$((n+1))
  while [ -d /verif/seeded/$p-$n ]; do n=$((n+1)); done
  /verif/seedverify.sh $wt $i $p-$n 2>&1 | tail -1
done
mkdir -p /verif/findings12
for f in $wt/_seed/finding*; do [ -f "$f" ] && cp "$f" /verif/findings12/$p-$(basename $f); done
ls /verif/findings12 | grep -c "^$p-"
