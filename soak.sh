#!/bin/bash
# usage: soak.sh <tier> <seed...> : runs every check (or those in SOAK_CHECKS) at the given seeds, prints only non-clean results
tier="$1"; shift
cd "$(dirname "$0")"
for seed in "$@"; do
  for c in ${SOAK_CHECKS:-C01 C02 C03 C04 C05 C06 C07 C08 C09 C10 C11 C12 C13 C14 C15 C16 C17 C18 C19 C20}; do
    out=$(VERIF_SEED=$seed ./check $c --tier $tier --no-evidence 2>&1); rc=$?
    echo "seed=$seed $c rc=$rc $(echo "$out" | grep 'tier=' | sed 's/.*evaluations/evaluations/')"
    if [ $rc -ne 0 ]; then echo "$out" | grep -v '^KNOWN' | head -12; fi
  done
done
