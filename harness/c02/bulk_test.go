package c02

import (
	"fmt"
	"testing"
	"time"

	"github.com/google/uuid"
	"github.com/semafind/semadb/models"
	"github.com/semafind/semadb/shard/cache"
	"pgregory.net/rapid"
	"verif/drive"
	"verif/gen"
	"verif/model"
	"verif/run"
	"verif/vt"
)

// BulkCase: batches far larger than the ones of the main job (the API takes up to 10000 points per
// insert): one insert of N points that gives every indexed field many distinct values, optionally a bulk
// update that moves a slice of them to other values and a bulk delete, each followed by filter queries.
type BulkCase struct {
	Schema    models.IndexSchema `json:"schema"`
	N         int                `json:"n"`
	Distinct  int                `json:"distinct"` // number of distinct values per field among the N points
	UpdateLo  int                `json:"updateLo"`
	UpdateN   int                `json:"updateN"`
	DeleteLo  int                `json:"deleteLo"`
	DeleteN   int                `json:"deleteN"`
	CacheSize int64              `json:"cacheLimit"`
	Queries   [][]models.Query   `json:"queries"` // after insert / update / delete
}

func bulkId(i int) uuid.UUID {
	var u uuid.UUID
	u[0], u[1], u[2], u[6], u[8] = byte(i*37), byte(i>>8), byte(i), 0x40, 0x80
	return u
}

// bulkDoc gives point i (value class v) a value for every filter property of the schema.
func bulkDoc(schema models.IndexSchema, v int) model.Doc {
	d := model.Doc{}
	for _, p := range gen.SortedProps(schema) {
		var val any
		switch schema[p].Type {
		case models.IndexTypeInteger:
			val = int64(v - 700)
		case models.IndexTypeFloat:
			val = float64(v)/4 - 100
		case models.IndexTypeString:
			val = fmt.Sprintf("V%04d", v)
		case models.IndexTypeStringArray:
			val = []string{fmt.Sprintf("t%d", v), fmt.Sprintf("U%d", v%7)}
		default:
			continue
		}
		model.SetPath(d, p, val)
	}
	return d
}

func genBulk(t *rapid.T) BulkCase {
	schema := gen.Schema(t, gen.SchemaOpts{Filters: true, MinProps: 2})
	c := BulkCase{Schema: schema, N: rapid.SampledFrom([]int{1000, 1024, 1025, 1030, 1500, 2050, 3000, 4097, 4100, 8193, 8200, 10000}).Draw(t, "n"), CacheSize: rapid.SampledFrom([]int64{-1, 0, 2000}).Draw(t, "cacheLimit")}
	c.Distinct = rapid.SampledFrom([]int{c.N, c.N, c.N / 2, 1025, 40}).Draw(t, "distinct")
	if c.Distinct > c.N {
		c.Distinct = c.N
	}
	if rapid.Bool().Draw(t, "hasUpdate") {
		c.UpdateN = rapid.SampledFrom([]int{5, 1025, 1100}).Draw(t, "updateN")
		c.UpdateLo = rapid.IntRange(0, c.N-1).Draw(t, "updateLo")
	}
	if rapid.Bool().Draw(t, "hasDelete") {
		c.DeleteN = rapid.SampledFrom([]int{5, 1025, 1100}).Draw(t, "deleteN")
		c.DeleteLo = rapid.IntRange(0, c.N-1).Draw(t, "deleteLo")
	}
	// queries are drawn against the model after each phase
	m := model.NewCollection(schema, 1<<20)
	pool := []uuid.UUID{}
	for i := 0; i < c.N; i++ {
		pool = append(pool, bulkId(i))
	}
	for phase, st := range c.steps() {
		switch st.Kind {
		case "insert":
			m.Insert(st.Points)
		case "update":
			m.Update(st.Points)
		case "delete":
			m.Delete(st.Ids)
		}
		var qs []models.Query
		for j := 0; j < 6; j++ {
			q := gen.FilterTree(t, fmt.Sprintf("q%d.%d", phase, j), m, pool[:min(len(pool), 60)], 2)
			gen.MustValid(q, schema)
			qs = append(qs, q)
		}
		c.Queries = append(c.Queries, qs)
	}
	return c
}

func (c BulkCase) steps() []gen.Step {
	ins := gen.Step{Kind: "insert"}
	for i := 0; i < c.N; i++ {
		ins.Points = append(ins.Points, model.Point{Id: bulkId(i), Doc: bulkDoc(c.Schema, i%c.Distinct)})
	}
	out := []gen.Step{ins}
	if c.UpdateN > 0 {
		up := gen.Step{Kind: "update"}
		for k := 0; k < c.UpdateN; k++ {
			i := (c.UpdateLo + k) % c.N
			up.Points = append(up.Points, model.Point{Id: bulkId(i), Doc: bulkDoc(c.Schema, (i%c.Distinct)+5000)})
		}
		out = append(out, up)
	}
	if c.DeleteN > 0 {
		del := gen.Step{Kind: "delete"}
		for k := 0; k < c.DeleteN; k++ {
			del.Ids = append(del.Ids, bulkId((c.DeleteLo+k)%c.N))
		}
		out = append(out, del)
	}
	return out
}

func execBulk(c BulkCase) (res vt.Result) {
	rec := vt.R()
	r, err := run.New(gen.History{Schema: c.Schema, MaxPointSize: 1 << 20, CacheLimit: c.CacheSize})
	if err != nil {
		return vt.Result{Err: err}
	}
	defer r.Close()
	touched := map[string]bool{}
	for p := range c.Schema {
		touched[p] = true
	}
	nt := 0
	for phase, st := range c.steps() {
		if _, err := r.Apply(st); err != nil {
			res.Err = fmt.Errorf("bulk %s of %d points: %v", st.Kind, len(st.Points)+len(st.Ids), err)
			return res
		}
		// every value class is found by an equals / containsAll query on each field (sampled)
		var probes []models.Query
		for _, v := range []int{0, 1, 1023, 1024, 1025, c.Distinct - 1, c.Distinct / 2, 5000, 5000 + c.Distinct - 1} {
			if v < 0 {
				continue
			}
			for _, p := range gen.SortedProps(c.Schema) {
				switch c.Schema[p].Type {
				case models.IndexTypeInteger:
					probes = append(probes, models.Query{Property: p, Integer: &models.SearchIntegerOptions{Value: int64(v - 700), Operator: models.OperatorEquals}})
				case models.IndexTypeFloat:
					probes = append(probes, models.Query{Property: p, Float: &models.SearchFloatOptions{Value: float64(v)/4 - 100, Operator: models.OperatorEquals}})
				case models.IndexTypeString:
					probes = append(probes, models.Query{Property: p, String: &models.SearchStringOptions{Value: fmt.Sprintf("V%04d", v), Operator: models.OperatorEquals}})
				case models.IndexTypeStringArray:
					probes = append(probes, models.Query{Property: p, StringArray: &models.SearchStringArrayOptions{Value: []string{fmt.Sprintf("t%d", v)}, Operator: models.OperatorContainsAll}})
				}
			}
		}
		// scans over exactly K distinct values (K around multiples of 4096: sets collected by a scan may be
		// merged in blocks), from below, from above, and everything but one value
		for _, k := range []int{4095, 4096, 4097, 8191, 8192, 8193} {
			if k > c.Distinct {
				continue
			}
			for _, p := range gen.SortedProps(c.Schema) {
				switch c.Schema[p].Type {
				case models.IndexTypeInteger:
					probes = append(probes, models.Query{Property: p, Integer: &models.SearchIntegerOptions{Value: int64(k - 700), Operator: models.OperatorLessThan}},
						models.Query{Property: p, Integer: &models.SearchIntegerOptions{Value: int64(c.Distinct - k - 700), Operator: models.OperatorGreaterOrEq}},
						models.Query{Property: p, Integer: &models.SearchIntegerOptions{Value: int64(10 - 700), EndValue: int64(10 + k - 1 - 700), Operator: models.OperatorInRange}})
				case models.IndexTypeFloat:
					probes = append(probes, models.Query{Property: p, Float: &models.SearchFloatOptions{Value: float64(k)/4 - 100, Operator: models.OperatorLessThan}},
						models.Query{Property: p, Float: &models.SearchFloatOptions{Value: float64(c.Distinct-k)/4 - 100, Operator: models.OperatorGreaterOrEq}})
				case models.IndexTypeString:
					probes = append(probes, models.Query{Property: p, String: &models.SearchStringOptions{Value: fmt.Sprintf("V%04d", k), Operator: models.OperatorLessThan}},
						models.Query{Property: p, String: &models.SearchStringOptions{Value: fmt.Sprintf("V%04d", c.Distinct-k), Operator: models.OperatorGreaterOrEq}})
				}
			}
			if k+1 == c.Distinct {
				for _, p := range gen.SortedProps(c.Schema) {
					switch c.Schema[p].Type {
					case models.IndexTypeInteger:
						probes = append(probes, models.Query{Property: p, Integer: &models.SearchIntegerOptions{Value: int64(3 - 700), Operator: models.OperatorNotEquals}})
					case models.IndexTypeString:
						probes = append(probes, models.Query{Property: p, String: &models.SearchStringOptions{Value: "V0003", Operator: models.OperatorNotEquals}},
							models.Query{Property: p, String: &models.SearchStringOptions{Value: "V", Operator: models.OperatorStartsWith}})
					}
				}
			}
		}
		if c.Distinct >= 4097 {
			rec.Count("bulk_cases_with_scans_over_thousands_of_values", 1)
		}
		qs := append(append([]models.Query{}, c.Queries[phase]...), probes...)
		where := fmt.Sprintf("after the bulk %s (%d points), running instance", st.Kind, len(st.Points)+len(st.Ids))
		n, err := runQueries(r.S, r.M, qs, where, touched)
		if err != nil {
			res.Err = err
			return res
		}
		nt += n
		cold, err := r.Copy(cache.NewManager(-1))
		if err != nil {
			res.Err = err
			return res
		}
		_, err = runQueries(cold, r.M, qs, fmt.Sprintf("after the bulk %s, cold copy", st.Kind), touched)
		cold.Close()
		if err != nil {
			res.Err = err
			return res
		}
		// a composite search one of whose sub-queries fails at the shard (a property without an index; the
		// HTTP layer would not let it through) beside scans over thousands of values: whatever the search
		// answers, none of its sub-queries may still be reading when it returns - the storage transaction
		// ends with the call, and a read after that is what the detector in the storage proxy records
		for _, p := range gen.SortedProps(c.Schema) {
			var scan models.Query
			switch c.Schema[p].Type {
			case models.IndexTypeInteger:
				scan = models.Query{Property: p, Integer: &models.SearchIntegerOptions{Value: int64(-100000), Operator: models.OperatorGreaterThan}}
			case models.IndexTypeString:
				scan = models.Query{Property: p, String: &models.SearchStringOptions{Value: "A", Operator: models.OperatorGreaterThan}}
			default:
				continue
			}
			bad := models.Query{Property: "no-such-index", Integer: &models.SearchIntegerOptions{Value: 1, Operator: models.OperatorEquals}}
			for _, q := range []models.Query{{Property: "_or", Or: []models.Query{bad, scan, scan}}, {Property: "_and", And: []models.Query{scan, bad}}} {
				if _, err := r.S.Search(models.SearchRequest{Query: q}); err != nil {
					rec.Count("bulk_composite_searches_with_a_failing_sub_query", 1)
				}
				time.Sleep(2 * time.Millisecond) // (a straggler would be reading now)
				if err := drive.StrayVerdict(r.S); err != nil {
					res.Err = fmt.Errorf("after a composite search with a failing sub-query on %s: %v", p, err)
					return res
				}
			}
		}
		rec.Count("bulk_batches", 1)
		rec.Max("bulk_batch_points", int64(len(st.Points)+len(st.Ids)))
	}
	res.NonTrivial = nt > 0 && c.Distinct > 1024
	return res
}

func TestPropBulk(t *testing.T)   { vt.Check(t, "bulk", genBulk, execBulk) }
func TestReplayBulk(t *testing.T) { vt.Replay(t, "bulk", execBulk) }
