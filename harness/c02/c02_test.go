package c02

import (
	"fmt"
	"path/filepath"
	"runtime"
	"sort"
	"strings"
	"testing"

	"github.com/google/uuid"
	"github.com/semafind/semadb/models"
	"github.com/semafind/semadb/shard/cache"
	"pgregory.net/rapid"
	"verif/drive"
	"verif/gen"
	"verif/model"
	"verif/vt"
)

func TestMain(m *testing.M) {
	vt.OnExit(drive.Cleanup)
	vt.Main(m, "C02")
}

// Case is a write history with a batch of filter queries after every step.
type Case struct {
	H       gen.History      `json:"history"`
	Queries [][]models.Query `json:"queries"`
}

func genCase(t *rapid.T) Case {
	so := gen.SchemaOpts{Filters: true, MinProps: 1}
	ho := gen.HistoryOpts{MaxSteps: 10, MaxBatch: 8, PoolSize: rapid.SampledFrom([]int{8, 16}).Draw(t, "pool"),
		AllowRejected: rapid.IntRange(0, 3).Draw(t, "allowRejected") == 0, Reopen: true, Evict: true, ExtraFields: false}
	// the same id more than once in one update batch (merged in order; the indices must see the net change)
	ho.AllowDupUpdate = rapid.IntRange(0, 3).Draw(t, "dupUpdate") == 0
	nq := 6
	if vt.Thorough() {
		ho.MaxSteps, ho.MaxBatch, nq = 25, 20, 10
	}
	schema := gen.Schema(t, so)
	c := Case{H: gen.History{Schema: schema, MaxPointSize: 1 << 20, CacheLimit: rapid.SampledFrom([]int64{-1, 0, 2000}).Draw(t, "cacheLimit")}}
	g := gen.NewHistoryGen(t, schema, c.H.MaxPointSize, ho)
	n := rapid.IntRange(1, ho.MaxSteps).Draw(t, "nsteps")
	for i := 0; i < n; i++ {
		c.H.Steps = append(c.H.Steps, g.Next())
		var qs []models.Query
		k := rapid.IntRange(1, nq).Draw(t, fmt.Sprintf("nq%d", i))
		for j := 0; j < k; j++ {
			q := gen.FilterTree(t, fmt.Sprintf("q%d.%d", i, j), g.M, g.Pool, 3)
			gen.MustValid(q, schema)
			qs = append(qs, q)
		}
		c.Queries = append(c.Queries, qs)
	}
	if rapid.IntRange(0, 5).Draw(t, "rename") == 0 {
		c.H.Rename = gen.GenRename(t, schema)
	}
	return c
}

func describe(q models.Query) string {
	switch {
	case q.Property == "_and":
		s := "and("
		for i, x := range q.And {
			if i > 0 {
				s += ", "
			}
			s += describe(x)
		}
		return s + ")"
	case q.Property == "_or":
		s := "or("
		for i, x := range q.Or {
			if i > 0 {
				s += ", "
			}
			s += describe(x)
		}
		return s + ")"
	case q.String != nil:
		return fmt.Sprintf("%s %s %q..%q", q.Property, q.String.Operator, q.String.Value, q.String.EndValue)
	case q.StringArray != nil:
		return fmt.Sprintf("%s %s %q", q.Property, q.StringArray.Operator, q.StringArray.Value)
	case q.Integer != nil:
		return fmt.Sprintf("%s %s %d..%d", q.Property, q.Integer.Operator, q.Integer.Value, q.Integer.EndValue)
	case q.Float != nil:
		return fmt.Sprintf("%s %s %v..%v", q.Property, q.Float.Operator, q.Float.Value, q.Float.EndValue)
	}
	return q.Property
}

func leafProps(q models.Query, into map[string]bool) {
	for _, x := range q.And {
		leafProps(x, into)
	}
	for _, x := range q.Or {
		leafProps(x, into)
	}
	if q.Property != "_and" && q.Property != "_or" {
		into[q.Property] = true
	}
}

func runQueries(s *drive.Shard, m *model.Collection, qs []models.Query, where string, touched map[string]bool) (nontrivial int, err error) {
	for qi, q := range qs {
		b, err := m.EvalFilter(q)
		if err != nil {
			return 0, fmt.Errorf("model cannot evaluate query %d: %v", qi, err)
		}
		rows, err := s.Search(models.SearchRequest{Query: q})
		if err != nil {
			return 0, fmt.Errorf("query %d [%s] on %s failed: %v", qi, describe(q), where, err)
		}
		got := model.IdSet{}
		for _, r := range rows {
			if got.Has(r.Id) {
				return 0, fmt.Errorf("query %d [%s] on %s returned %s twice", qi, describe(q), where, r.Id)
			}
			got.Add(r.Id)
		}
		if err := b.Check(got); err != nil {
			return 0, fmt.Errorf("query %d [%s] on %s: %v (stored values: %s)", qi, describe(q), where, err, storedSummary(m, q))
		}
		if len(b.Must) > 0 && len(b.May) < len(m.Docs) {
			props := map[string]bool{}
			leafProps(q, props)
			for p := range props {
				if touched[p] {
					nontrivial++
					break
				}
			}
		}
	}
	return nontrivial, nil
}

func storedSummary(m *model.Collection, q models.Query) string {
	props := map[string]bool{}
	leafProps(q, props)
	var names []string
	for p := range props {
		names = append(names, p)
	}
	sort.Strings(names)
	s := ""
	for _, id := range m.Ids() {
		s += id.String()[:8] + "{"
		for _, p := range names {
			if v, ok := model.Lookup(m.Docs[id], p); ok {
				s += p + "=" + model.Show(v) + " "
			}
		}
		s += "} "
		if len(s) > 1500 {
			return s + "…"
		}
	}
	return s
}

func execCase(c Case) (res vt.Result) {
	rec := vt.R()
	if len(c.H.Rename) > 0 {
		rec.Count("histories_with_renamed_properties", 1)
	}
	h := c.H
	dir, cleanup := drive.CaseDir()
	defer cleanup()
	path := filepath.Join(dir, "sharddb.bbolt")
	mgr := drive.Manager(h.CacheLimit)
	s, err := drive.OpenNamed(path, h.Schema, h.MaxPointSize, mgr, h.Rename)
	if err != nil {
		return vt.Result{Err: fmt.Errorf("open: %v", err)}
	}
	defer func() { s.Close() }()
	m := model.NewCollection(h.Schema, h.MaxPointSize)
	m.SizeNames = h.Rename
	touched := map[string]bool{}
	markTouched := func(ids []uuid.UUID, before *model.Collection) {
		for _, id := range ids {
			for p, sv := range h.Schema {
				if d, ok := before.Docs[id]; ok && model.HasIndexedField(d, p, sv.Type) {
					touched[p] = true
				}
			}
		}
	}
	base := runtime.NumGoroutine()
	nontrivial := 0
	fail := func(i int, f string, a ...any) vt.Result {
		res.Err = fmt.Errorf("step %d (%s): %s", i, h.Steps[i].Kind, fmt.Sprintf(f, a...))
		return res
	}
	for i, st := range h.Steps {
		before := m.Clone()
		switch st.Kind {
		case "insert":
			reason := m.Insert(st.Points)
			err := s.Insert(st.Points)
			if (err != nil) != (reason != "") {
				return fail(i, "insert returned %v, model says %q", err, reason)
			}
			if reason != "" {
				m = before
				drive.Quiesce(base)
			}
		case "update":
			ids, reason := m.Update(st.Points)
			_, err := s.Update(st.Points)
			if (err != nil) != (reason != "") {
				return fail(i, "update returned %v, model says %q", err, reason)
			}
			if reason != "" {
				m = before
				drive.Quiesce(base)
			} else {
				markTouched(ids, before)
			}
		case "delete":
			ids := m.Delete(st.Ids)
			if _, err := s.Delete(st.Ids); err != nil {
				return fail(i, "delete failed: %v", err)
			}
			markTouched(ids, before)
		case "reopen":
			if err := s.Close(); err != nil {
				return fail(i, "close: %v", err)
			}
			if s, err = drive.OpenNamed(path, h.Schema, h.MaxPointSize, mgr, h.Rename); err != nil {
				return fail(i, "reopen: %v", err)
			}
		case "evict":
			s.EvictCaches()
		}
		if err := drive.StrayVerdict(s); err != nil {
			return fail(i, "%v", err)
		}
		n, err := runQueries(s, m, c.Queries[i], "the running instance", touched)
		if err != nil {
			return fail(i, "%v", err)
		}
		nontrivial += n
		rec.Count("queries", int64(len(c.Queries[i])))
		// every third step (and at the end) the same queries on a cold copy of the file
		if i%3 == 2 || i == len(h.Steps)-1 {
			cp := filepath.Join(dir, fmt.Sprintf("copy-%d.bbolt", i))
			if err := drive.CopyFile(path, cp); err != nil {
				return fail(i, "copy: %v", err)
			}
			cold, err := drive.OpenNamed(cp, h.Schema, h.MaxPointSize, cache.NewManager(-1), h.Rename)
			if err != nil {
				return fail(i, "open cold copy: %v", err)
			}
			_, err = runQueries(cold, m, c.Queries[i], "a cold copy of the file", touched)
			cold.Close()
			if err != nil {
				return fail(i, "%v", err)
			}
			rec.Count("cold_copies", 1)
		}
		if err := drive.StrayVerdict(s); err != nil {
			return fail(i, "during queries: %v", err)
		}
	}
	rec.Count("nontrivial_state_query_pairs", int64(nontrivial))
	res.NonTrivial = nontrivial > 0
	return res
}

func TestPropFilters(t *testing.T)   { vt.Check(t, "filters", genCase, execCase) }
func TestReplayFilters(t *testing.T) { vt.Replay(t, "filters", execCase) }

// ---------------------------------------------------------------------------
// Probe of the catalogued defect D7: an indexed string (or string-array
// element) equal to "" cannot be stored because the storage engine rejects the
// empty key; the whole batch fails. The generators above never produce "" for
// indexed strings (counted as excluded by construction); this fixed-shape probe
// reports the defect as the known finding while it is present.

func TestPropD7Probe(t *testing.T) {
	rec := vt.R()
	for _, kind := range []string{"string", "stringArray", "long string"} {
		schema := models.IndexSchema{}
		var doc model.Doc
		if kind == "string" {
			schema["s"] = models.IndexSchemaValue{Type: models.IndexTypeString, String: &models.IndexStringParameters{CaseSensitive: true}}
			doc = model.Doc{"s": ""}
		} else if kind == "long string" {
			// the other end of the storage engine's key lengths: 32768 bytes is the longest key
			schema["s"] = models.IndexSchemaValue{Type: models.IndexTypeString, String: &models.IndexStringParameters{CaseSensitive: true}}
			doc = model.Doc{"s": strings.Repeat("a", 32769)}
		} else {
			schema["tags"] = models.IndexSchemaValue{Type: models.IndexTypeStringArray, StringArray: &models.IndexStringArrayParameters{IndexStringParameters: models.IndexStringParameters{CaseSensitive: true}}}
			doc = model.Doc{"tags": []string{"a", ""}}
		}
		dir, cleanup := drive.CaseDir()
		s, err := drive.Open(filepath.Join(dir, "d.bbolt"), schema, 1<<20, cache.NewManager(-1))
		if err != nil {
			cleanup()
			t.Fatal(err)
		}
		rec.Eval()
		id := gen.IdPool(1)[0]
		err = s.Insert([]model.Point{{Id: id, Doc: doc}})
		if err != nil {
			rec.Known("D7", "indexed string that cannot be a storage key rejected: "+kind, err.Error())
		} else {
			// accepted: then it must be found
			m := model.NewCollection(schema, 1<<20)
			m.Insert([]model.Point{{Id: id, Doc: doc}})
			var q models.Query
			if kind == "string" {
				q = models.Query{Property: "s", String: &models.SearchStringOptions{Value: "a", Operator: models.OperatorLessThan}}
			} else if kind == "long string" {
				q = models.Query{Property: "s", String: &models.SearchStringOptions{Value: "a", Operator: models.OperatorStartsWith}}
			} else {
				q = models.Query{Property: "tags", StringArray: &models.SearchStringArrayOptions{Value: []string{""}, Operator: models.OperatorContainsAny}}
			}
			if _, err := runQueries(s, m, []models.Query{q}, "the D7 probe", map[string]bool{}); err != nil {
				rec.Violation("d7probe", "", err.Error())
				t.Errorf("%v", err)
			}
		}
		s.Close()
		cleanup()
	}
}
