package c15

import (
	"bytes"
	"errors"
	"fmt"
	"os"
	"path/filepath"
	"reflect"
	"sort"
	"strings"
	"sync"
	"testing"

	"github.com/google/uuid"
	"github.com/semafind/semadb/cluster"
	"github.com/semafind/semadb/models"
	"pgregory.net/rapid"
	"verif/drive"
	"verif/model"
	"verif/vt"
)

func TestMain(m *testing.M) {
	vt.OnExit(drive.Cleanup)
	vt.Main(m, "C15")
}

// ---------------------------------------------------------------------------
// (a) pure partitioning

type ShardFill struct {
	Size       int64 `json:"size"`
	PointCount int64 `json:"pointCount"`
}

type PartitionCase struct {
	Shards      []ShardFill `json:"shards"`
	PointSizes  []int       `json:"pointSizes"` // payload bytes of each point (16 id bytes are added by the code)
	MaxSize     int64       `json:"maxShardSize"`
	MaxCount    int64       `json:"maxShardPointCount"`
	CreateFails int         `json:"createFails"` // the k-th shard creation fails (0 = never)
}

func genPartition(t *rapid.T) PartitionCase {
	c := PartitionCase{MaxCount: int64(rapid.IntRange(1, 12).Draw(t, "maxCount"))}
	np := rapid.IntRange(0, 60).Draw(t, "npoints")
	if rapid.IntRange(0, 9).Draw(t, "big") == 0 {
		np = rapid.IntRange(100, 200).Draw(t, "npointsBig")
	}
	maxPayload := rapid.SampledFrom([]int{0, 10, 100}).Draw(t, "maxPayload")
	biggest := 16
	for i := 0; i < np; i++ {
		s := rapid.IntRange(0, maxPayload).Draw(t, fmt.Sprintf("ps%d", i))
		c.PointSizes = append(c.PointSizes, s)
		if s+16 > biggest {
			biggest = s + 16
		}
	}
	// precondition of the property: a single point fits into an empty shard
	c.MaxSize = int64(biggest) + int64(rapid.SampledFrom([]int{0, 1, 15, 16, 17, 100, 1000, 1 << 30}).Draw(t, "sizeSlack"))
	ns := rapid.IntRange(0, 5).Draw(t, "nshards")
	for i := 0; i < ns; i++ {
		f := ShardFill{}
		switch rapid.IntRange(0, 4).Draw(t, fmt.Sprintf("fill%d", i)) {
		case 0: // empty
		case 1: // exactly full by count
			f.PointCount = c.MaxCount
		case 2: // over the maximum already (limits were lowered)
			f.PointCount = c.MaxCount + int64(rapid.IntRange(1, 5).Draw(t, fmt.Sprintf("over%d", i)))
		case 3: // nearly full by size
			f.Size = c.MaxSize - int64(rapid.IntRange(0, 40).Draw(t, fmt.Sprintf("sz%d", i)))
			f.PointCount = int64(rapid.IntRange(0, int(c.MaxCount)).Draw(t, fmt.Sprintf("pc%d", i)))
		default:
			f.PointCount = int64(rapid.IntRange(0, int(c.MaxCount)).Draw(t, fmt.Sprintf("pc%d", i)))
			f.Size = int64(rapid.IntRange(0, int(min(c.MaxSize, 5000))).Draw(t, fmt.Sprintf("sz%d", i)))
		}
		if f.Size < 0 {
			f.Size = 0
		}
		c.Shards = append(c.Shards, f)
	}
	if rapid.IntRange(0, 9).Draw(t, "cf") == 0 {
		c.CreateFails = rapid.IntRange(1, 4).Draw(t, "cfk")
	}
	return c
}

func execPartition(c PartitionCase) vt.Result {
	rec := vt.R()
	shards := make([]cluster.VerifShardInfo, len(c.Shards))
	fill := map[string]ShardFill{}
	for i, s := range c.Shards {
		id := fmt.Sprintf("old-%d", i)
		shards[i] = cluster.VerifShardInfo{Id: id, Size: s.Size, PointCount: s.PointCount}
		fill[id] = s
	}
	points := make([]models.Point, len(c.PointSizes))
	for i, n := range c.PointSizes {
		var id uuid.UUID
		id[0], id[1], id[15] = byte(i>>8), byte(i), 1
		points[i] = models.Point{Id: id, Data: bytes.Repeat([]byte{7}, n)}
	}
	created := 0
	done := make(chan struct{})
	var assign map[string][2]int
	var err error
	go func() {
		defer close(done)
		assign, err = cluster.VerifDistributePoints(shards, points, c.MaxSize, c.MaxCount, func() (string, error) {
			created++
			if created > len(points)+2 {
				panic("unbounded shard creation")
			}
			if c.CreateFails > 0 && created == c.CreateFails {
				return "", errors.New("planned creation failure")
			}
			id := fmt.Sprintf("new-%d", created)
			fill[id] = ShardFill{}
			return id, nil
		})
	}()
	<-done
	if err != nil {
		if c.CreateFails > 0 && created >= c.CreateFails {
			rec.Count("partition_creation_failed", 1)
			return vt.Result{}
		}
		return vt.Result{Err: fmt.Errorf("distributePoints failed: %v", err)}
	}
	// ranges: disjoint, contiguous, cover [0,n)
	type rng struct {
		id     string
		lo, hi int
	}
	var rs []rng
	for id, r := range assign {
		if r[0] >= r[1] {
			return vt.Result{Err: fmt.Errorf("shard %s was assigned the empty or inverted range %v", id, r)}
		}
		if _, ok := fill[id]; !ok {
			return vt.Result{Err: fmt.Errorf("points assigned to unknown shard %s", id)}
		}
		rs = append(rs, rng{id, r[0], r[1]})
	}
	sort.Slice(rs, func(i, j int) bool { return rs[i].lo < rs[j].lo })
	next := 0
	for _, r := range rs {
		if r.lo != next {
			return vt.Result{Err: fmt.Errorf("ranges %v do not partition [0,%d): gap or overlap at %d", rs, len(points), next)}
		}
		next = r.hi
	}
	if next != len(points) {
		return vt.Result{Err: fmt.Errorf("ranges %v cover [0,%d) of %d points", rs, next, len(points))}
	}
	// limits
	for _, r := range rs {
		f := fill[r.id]
		cnt := f.PointCount + int64(r.hi-r.lo)
		size := f.Size
		for _, p := range points[r.lo:r.hi] {
			size += int64(len(p.Data) + 16)
		}
		if cnt > c.MaxCount {
			return vt.Result{Err: fmt.Errorf("shard %s holds %d points and was assigned %d more: %d exceeds the per-shard maximum %d", r.id, f.PointCount, r.hi-r.lo, cnt, c.MaxCount)}
		}
		if size > c.MaxSize {
			return vt.Result{Err: fmt.Errorf("shard %s of size %d was assigned %d points: size %d exceeds the per-shard maximum %d", r.id, f.Size, r.hi-r.lo, size, c.MaxSize)}
		}
	}
	rec.Count("partition_shards_created", int64(created))
	full := 0
	for _, s := range c.Shards {
		if s.PointCount >= c.MaxCount {
			full++
		}
	}
	return vt.Result{NonTrivial: len(rs) >= 2 && full > 0}
}

func TestPropPartition(t *testing.T)   { vt.Check(t, "partition", genPartition, execPartition) }
func TestReplayPartition(t *testing.T) { vt.Replay(t, "partition", execPartition) }

// ---------------------------------------------------------------------------
// (b) stateful: inserts and collection creations around the quotas on a single node

type Op struct {
	Kind    string `json:"kind"` // create | insert
	Col     int    `json:"col"`  // collection index
	N       int    `json:"n"`    // insert: number of points
	Payload int    `json:"payload"`
	Reuse   int    `json:"reuse"` // insert: number of ids reused from earlier successful inserts (collisions)
	// Break > 0: during this insert the database file of one existing shard of the collection (number
	// (Break-1) mod #shards) cannot be opened; it is put back right after the call
	Break int `json:"break,omitempty"`
}

type QuotaCase struct {
	MaxShardPointCount int64 `json:"maxShardPointCount"`
	MaxShardSize       int64 `json:"maxShardSize"`
	MaxCollections     int   `json:"maxCollections"`
	MaxPoints          int64 `json:"maxCollectionPointCount"`
	Ops                []Op  `json:"ops"`
	// ShardSubdir: the node keeps its shard files in this sub-directory of its root (the shard manager's
	// root directory is a setting of its own)
	ShardSubdir string `json:"shardSubdir,omitempty"`
}

func genQuota(t *rapid.T) QuotaCase {
	c := QuotaCase{MaxShardPointCount: int64(rapid.IntRange(1, 7).Draw(t, "mspc")), MaxShardSize: rapid.SampledFrom([]int64{1 << 30, 1 << 30, 40000, 70000}).Draw(t, "mss"),
		MaxCollections: rapid.IntRange(1, 3).Draw(t, "mc"), MaxPoints: int64(rapid.IntRange(3, 30).Draw(t, "mp"))}
	n := rapid.IntRange(1, 14).Draw(t, "nops")
	for i := 0; i < n; i++ {
		if i > 0 && rapid.IntRange(0, 9).Draw(t, fmt.Sprintf("replan%d", i)) == 0 {
			// the user moves to another plan: other quotas from now on
			c.Ops = append(c.Ops, Op{Kind: "replan", Col: rapid.IntRange(1, 4).Draw(t, fmt.Sprintf("rpc%d", i)), N: rapid.IntRange(2, 40).Draw(t, fmt.Sprintf("rpp%d", i))})
			continue
		}
		if i > 0 && rapid.IntRange(0, 9).Draw(t, fmt.Sprintf("burst%d", i)) == 0 {
			c.Ops = append(c.Ops, Op{Kind: "burst", N: rapid.IntRange(2, 6).Draw(t, fmt.Sprintf("bn%d", i))})
			continue
		}
		if i == 0 || rapid.IntRange(0, 4).Draw(t, fmt.Sprintf("k%d", i)) == 0 {
			c.Ops = append(c.Ops, Op{Kind: "create", Col: rapid.IntRange(0, 3).Draw(t, fmt.Sprintf("c%d", i))})
			continue
		}
		c.Ops = append(c.Ops, Op{Kind: "insert", Col: rapid.IntRange(0, 3).Draw(t, fmt.Sprintf("c%d", i)), N: rapid.IntRange(0, 12).Draw(t, fmt.Sprintf("n%d", i)),
			Payload: rapid.SampledFrom([]int{0, 10, 200}).Draw(t, fmt.Sprintf("p%d", i)), Reuse: rapid.SampledFrom([]int{0, 0, 0, 1, 2}).Draw(t, fmt.Sprintf("r%d", i)),
			Break: rapid.SampledFrom([]int{0, 0, 0, 0, 0, 1, 2, 3}).Draw(t, fmt.Sprintf("b%d", i))})
	}
	c.ShardSubdir = rapid.SampledFrom([]string{"", "", "shards"}).Draw(t, "shardSubdir")
	return c
}

func execQuota(c QuotaCase) (res vt.Result) {
	rec := vt.R()
	dir, cleanup := drive.CaseDir()
	defer cleanup()
	me := drive.NodeSpec{Host: "127.0.1.1", Port: 1}
	node, err := drive.NewClusterNode(filepath.Join(dir, "node"), me, []string{me.Name()}, drive.ClusterOpts{MaxShardSize: c.MaxShardSize, MaxShardPointCount: c.MaxShardPointCount, ShardTimeout: 1, ShardSubdir: c.ShardSubdir}, false)
	if err != nil {
		return vt.Result{Err: err}
	}
	defer node.Close()
	// the user's active plan; it can change (op "replan"), collections keep the plan they were created
	// under in their record, and every request is judged by the active one (the caller binds it)
	maxCollections, maxPoints := c.MaxCollections, c.MaxPoints
	plan := drive.UserPlan(maxCollections, maxPoints, 1<<20)
	schema := models.IndexSchema{"n": {Type: models.IndexTypeInteger}}
	user := "alice"
	exists := map[int]bool{}
	stored := map[int][]uuid.UUID{} // ids successfully inserted per collection
	nextId := 0
	burstSeq := 0
	colName := func(i int) string { return fmt.Sprintf("col%d", i) }
	type snapshot struct {
		cols   []string
		counts map[string]int64 // shard id -> count
		shards []string
	}
	observe := func(ci int) (snapshot, error) {
		var s snapshot
		cols, err := node.ListCollections(user)
		if err != nil {
			return s, err
		}
		for _, col := range cols {
			s.cols = append(s.cols, col.Id)
		}
		sort.Strings(s.cols)
		s.counts = map[string]int64{}
		if exists[ci] {
			col, err := node.GetCollection(user, colName(ci))
			if err != nil {
				return s, err
			}
			col.UserPlan = plan
			infos, err := node.GetShardsInfo(col)
			if err != nil {
				return s, err
			}
			for _, sh := range col.ShardIds {
				s.shards = append(s.shards, sh)
				s.counts[sh] = 0
			}
			for _, inf := range infosOf(infos) {
				s.counts[inf.id] = inf.count
			}
		}
		return s, nil
	}
	total := func(s snapshot) int64 {
		var t int64
		for _, v := range s.counts {
			t += v
		}
		return t
	}
	nontrivial := false
	for oi, op := range c.Ops {
		fail := func(f string, a ...any) vt.Result {
			res.Err = fmt.Errorf("op %d %+v: %s", oi, op, fmt.Sprintf(f, a...))
			return res
		}
		before, err := observe(op.Col)
		if err != nil {
			return fail("observe: %v", err)
		}
		switch op.Kind {
		case "burst":
			// op.N creation requests for distinct new collections at the same time: the user must not end up
			// above the collection quota, and exactly the free slots are filled
			free := maxCollections - len(before.cols)
			if free < 0 {
				free = 0
			}
			var wg sync.WaitGroup
			errs := make([]error, op.N)
			names := make([]int, op.N)
			for j := 0; j < op.N; j++ {
				burstSeq++
				names[j] = 100 + burstSeq
				wg.Add(1)
				go func(j int) {
					defer wg.Done()
					errs[j] = node.CreateCollection(models.Collection{UserId: user, Id: colName(names[j]), Replicas: 1, UserPlan: plan, IndexSchema: schema})
				}(j)
			}
			wg.Wait()
			ok := 0
			for j, err := range errs {
				switch {
				case err == nil:
					ok++
					exists[names[j]] = true
				case !errors.Is(err, cluster.ErrQuotaReached):
					return fail("concurrent creation %d returned %v", j, err)
				}
			}
			after, oerr := observe(op.Col)
			if oerr != nil {
				return fail("observe: %v", oerr)
			}
			if len(after.cols) != len(before.cols)+ok {
				return fail("%d concurrent creations reported success, the collection list grew from %d to %d", ok, len(before.cols), len(after.cols))
			}
			if ok != min(op.N, free) {
				return fail("%d concurrent creations with %d of %d collection slots free: %d succeeded (the user now has %d collections)", op.N, free, maxCollections, ok, len(after.cols))
			}
			rec.Count("concurrent_creation_bursts", 1)
			if op.N > free {
				nontrivial = true
			}
			continue
		case "replan":
			maxCollections, maxPoints = op.Col, int64(op.N)
			plan = drive.UserPlan(maxCollections, maxPoints, 1<<20)
			rec.Count("plan_changes", 1)
			continue
		case "create":
			err := node.CreateCollection(models.Collection{UserId: user, Id: colName(op.Col), Replicas: 1, UserPlan: plan, IndexSchema: schema})
			after, oerr := observe(op.Col)
			if oerr != nil {
				return fail("observe: %v", oerr)
			}
			switch {
			case exists[op.Col]:
				if !errors.Is(err, cluster.ErrExists) {
					return fail("creating an existing collection returned %v", err)
				}
				if fmt.Sprint(before) != fmt.Sprint(after) {
					return fail("a refused creation changed the state: %v -> %v", before, after)
				}
			case len(before.cols) >= maxCollections:
				if !errors.Is(err, cluster.ErrQuotaReached) {
					return fail("creating collection number %d with a quota of %d returned %v", len(before.cols)+1, maxCollections, err)
				}
				if fmt.Sprint(before.cols) != fmt.Sprint(after.cols) {
					return fail("a creation refused for quota changed the collection list: %v -> %v", before.cols, after.cols)
				}
				rec.Count("creation_refused_quota", 1)
				nontrivial = true
			default:
				if err != nil {
					return fail("creation failed: %v", err)
				}
				exists[op.Col] = true
				if len(after.cols) != len(before.cols)+1 {
					return fail("collection list after creation: %v", after.cols)
				}
			}
		case "insert":
			if !exists[op.Col] {
				continue
			}
			col, err := node.GetCollection(user, colName(op.Col))
			if err != nil {
				return fail("get collection: %v", err)
			}
			col.UserPlan = plan
			var points []models.Point
			for i := 0; i < op.N; i++ {
				var id uuid.UUID
				if i < op.Reuse && len(stored[op.Col]) > 0 {
					id = stored[op.Col][(oi+i)%len(stored[op.Col])]
				} else {
					nextId++
					// spread ids so that the id order differs from the generation order
					id[0], id[1], id[2], id[15] = byte(nextId*73), byte(nextId>>8), byte(nextId), 9
				}
				points = append(points, models.Point{Id: id, Data: model.Encode(model.Doc{"n": int64(i), "pad": strings.Repeat("x", op.Payload)})})
			}
			requested := append([]models.Point(nil), points...)
			broken, brokenFile := "", ""
			if op.Break > 0 && len(before.shards) > 0 {
				broken = before.shards[(op.Break-1)%len(before.shards)]
				brokenFile = drive.ShardFile(filepath.Join(dir, "node", c.ShardSubdir), user, colName(op.Col), broken)
				node.VerifShardManager().VerifUnloadAll()
				if err := os.Rename(brokenFile, brokenFile+".aside"); err != nil {
					return fail("harness: %v", err)
				}
				if err := os.Mkdir(brokenFile, 0755); err != nil {
					return fail("harness: %v", err)
				}
			}
			failed, err := node.InsertPoints(col, points)
			if broken != "" {
				node.VerifShardManager().VerifUnloadAll()
				if rerr := os.Remove(brokenFile); rerr != nil {
					return fail("harness: %v", rerr)
				}
				if rerr := os.Rename(brokenFile+".aside", brokenFile); rerr != nil {
					return fail("harness: %v", rerr)
				}
				rec.Count("inserts_with_an_unavailable_shard", 1)
			}
			after, oerr := observe(op.Col)
			if oerr != nil {
				return fail("observe: %v", oerr)
			}
			if broken != "" && err != nil {
				// with a shard out of reach the request may be refused, then without side effects
				if fmt.Sprint(before) != fmt.Sprint(after) {
					return fail("an insert refused while shard %s was unavailable (%v) changed the state: %v -> %v", broken, err, before, after)
				}
				continue
			}
			if total(before)+int64(op.N) > maxPoints {
				if !errors.Is(err, cluster.ErrQuotaReached) {
					return fail("insert of %d points into a collection of %d with quota %d (active plan) returned %v", op.N, total(before), maxPoints, err)
				}
				if fmt.Sprint(before) != fmt.Sprint(after) {
					return fail("an insert refused for quota changed the state: %v -> %v", before, after)
				}
				rec.Count("insert_refused_quota", 1)
				nontrivial = true
				continue
			}
			if err != nil {
				return fail("insert failed: %v", err)
			}
			// failed ranges refer to the id-sorted batch
			sorted := append([]models.Point(nil), requested...)
			sort.Slice(sorted, func(i, j int) bool { return bytes.Compare(sorted[i].Id[:], sorted[j].Id[:]) < 0 })
			failedCount := 0
			failedIdx := map[int]bool{}
			for _, fr := range failed {
				if fr.Start < 0 || fr.End > len(sorted) || fr.Start >= fr.End {
					return fail("failed range %+v is not a range of the batch of %d", fr, len(sorted))
				}
				for i := fr.Start; i < fr.End; i++ {
					if failedIdx[i] {
						return fail("failed ranges overlap at %d", i)
					}
					failedIdx[i] = true
				}
				failedCount += fr.End - fr.Start
			}
			if total(after) != total(before)+int64(op.N-failedCount) {
				return fail("collection holds %d points after the insert; before %d, %d inserted, %d reported failed (counts %v -> %v)", total(after), total(before), op.N, failedCount, before.counts, after.counts)
			}
			for sh, cnt := range after.counts {
				if cnt > c.MaxShardPointCount && cnt > before.counts[sh] {
					return fail("shard %s grew to %d points, the per-shard maximum is %d", sh, cnt, c.MaxShardPointCount)
				}
			}
			for i, p := range sorted {
				if !failedIdx[i] {
					stored[op.Col] = append(stored[op.Col], p.Id)
				}
			}
			if failedCount > 0 {
				rec.Count("inserts_with_failed_ranges", 1)
			}
			if len(after.shards) > len(before.shards) {
				rec.Count("shards_opened", int64(len(after.shards)-len(before.shards)))
				if len(before.shards) > 0 {
					nontrivial = true
				}
			}
		}
	}
	res.NonTrivial = nontrivial
	return res
}

type shardCount struct {
	id    string
	count int64
}

// infosOf reads the exported fields (Id, PointCount) of the cluster's unexported shard info type.
func infosOf(v any) []shardCount {
	var out []shardCount
	rv := reflect.ValueOf(v)
	for i := 0; i < rv.Len(); i++ {
		e := rv.Index(i)
		out = append(out, shardCount{id: e.FieldByName("Id").String(), count: e.FieldByName("PointCount").Int()})
	}
	return out
}

func TestPropQuota(t *testing.T)   { vt.Check(t, "quota", genQuota, execQuota) }
func TestReplayQuota(t *testing.T) { vt.Replay(t, "quota", execQuota) }
