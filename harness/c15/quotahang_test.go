package c15

import (
	"bytes"
	"errors"
	"fmt"
	"path/filepath"
	"sort"
	"testing"

	"github.com/google/uuid"
	"github.com/semafind/semadb/cluster"
	"github.com/semafind/semadb/cluster/mrpc"
	"github.com/semafind/semadb/models"
	"pgregory.net/rapid"
	"verif/drive"
	"verif/model"
	"verif/vt"
)

// (c) the point quota on two nodes, one of which may hang: the collection's shards are spread over both
// servers (small per-shard maximum), inserts arrive at either node around the quota boundary, and during
// some of them the other server reads its requests and never answers (one-second RPC timeout). A request
// that would exceed the quota adds nothing, whoever is out of reach; a request that is accepted adds
// exactly the points of the ranges not reported as failed.

type HQStep struct {
	N    int `json:"n"`
	Via  int `json:"via"`
	Hang int `json:"hang"` // -1 none, else the index of the server that hangs during the request
}

type HangQuotaCase struct {
	MaxShardPointCount int64    `json:"maxShardPointCount"`
	Quota              int64    `json:"quota"`
	Steps              []HQStep `json:"steps"`
}

func genHangQuota(t *rapid.T) HangQuotaCase {
	c := HangQuotaCase{MaxShardPointCount: int64(rapid.IntRange(1, 4).Draw(t, "mspc")), Quota: int64(rapid.IntRange(4, 14).Draw(t, "quota"))}
	n := rapid.IntRange(2, 7).Draw(t, "nsteps")
	hangs := 0
	for i := 0; i < n; i++ {
		st := HQStep{N: rapid.IntRange(1, 7).Draw(t, fmt.Sprintf("n%d", i)), Via: rapid.IntRange(0, 1).Draw(t, fmt.Sprintf("via%d", i)), Hang: -1}
		if i > 0 && hangs < 2 && rapid.IntRange(0, 2).Draw(t, fmt.Sprintf("hang%d", i)) == 0 {
			st.Hang = 1 - st.Via
			hangs++
		}
		c.Steps = append(c.Steps, st)
	}
	return c
}

func execHangQuota(c HangQuotaCase) (res vt.Result) {
	rec := vt.R()
	dir, cleanup := drive.CaseDir()
	defer cleanup()
	var specs []drive.NodeSpec
	var servers []string
	for k := 0; k < 2; k++ {
		host := drive.LoopbackHost(k + 1)
		specs = append(specs, drive.NodeSpec{Host: host, Port: drive.FreePort(host)})
		servers = append(servers, specs[k].Name())
	}
	opts := drive.ClusterOpts{MaxShardPointCount: c.MaxShardPointCount, ShardTimeout: 2, RpcTimeout: 1, RpcRetries: 1}
	var nodes []*cluster.ClusterNode
	release := make(chan struct{})
	defer func() {
		mrpc.VerifRequestFn.Store(nil)
		close(release)
		for _, n := range nodes {
			n.Close()
		}
	}()
	for k := 0; k < 2; k++ {
		n, err := drive.NewClusterNode(filepath.Join(dir, fmt.Sprintf("node%d", k)), specs[k], servers, opts, true)
		if err != nil {
			return vt.Result{Err: fmt.Errorf("node %d: %v", k, err)}
		}
		nodes = append(nodes, n)
	}
	plan := drive.UserPlan(3, c.Quota, 1<<16)
	schema := models.IndexSchema{"n": {Type: models.IndexTypeInteger}}
	if err := nodes[0].CreateCollection(models.Collection{UserId: "alice", Id: "col", Replicas: 1, UserPlan: plan, IndexSchema: schema}); err != nil {
		return vt.Result{Err: fmt.Errorf("create collection: %v", err)}
	}
	type snapshot struct {
		shards []string
		counts map[string]int64
	}
	observe := func(via int) (snapshot, error) {
		s := snapshot{counts: map[string]int64{}}
		col, err := nodes[via].GetCollection("alice", "col")
		if err != nil {
			return s, err
		}
		col.UserPlan = plan
		infos, err := nodes[via].GetShardsInfo(col)
		if err != nil {
			return s, err
		}
		s.shards = append(s.shards, col.ShardIds...)
		sort.Strings(s.shards)
		for _, sh := range s.shards {
			s.counts[sh] = 0
		}
		for _, inf := range infosOf(infos) {
			s.counts[inf.id] = inf.count
		}
		return s, nil
	}
	total := func(s snapshot) int64 {
		var t int64
		for _, v := range s.counts {
			t += v
		}
		return t
	}
	nextId := 0
	nontrivial := false
	for i, st := range c.Steps {
		fail := func(f string, a ...any) vt.Result {
			res.Err = fmt.Errorf("step %d %+v (quota %d, per-shard maximum %d): %s", i, st, c.Quota, c.MaxShardPointCount, fmt.Sprintf(f, a...))
			return res
		}
		before, err := observe(st.Via)
		if err != nil {
			return fail("observing before: %v", err)
		}
		col, err := nodes[st.Via].GetCollection("alice", "col")
		if err != nil {
			return fail("get collection: %v", err)
		}
		col.UserPlan = plan
		var points []models.Point
		for k := 0; k < st.N; k++ {
			nextId++
			var id uuid.UUID
			id[0], id[1], id[2], id[6], id[8], id[15] = byte(nextId*73), byte(nextId>>8), byte(nextId), 0x40, 0x80, 9
			points = append(points, models.Point{Id: id, Data: model.Encode(model.Doc{"n": int64(k)})})
		}
		sorted := append([]models.Point(nil), points...)
		sort.Slice(sorted, func(a, b int) bool { return bytes.Compare(sorted[a].Id[:], sorted[b].Id[:]) < 0 })
		stopHang := func() {}
		if st.Hang >= 0 {
			end := drive.HangServer(specs[st.Hang], release)
			spec := specs[st.Hang]
			stopHang = func() { end(); drive.DropServerConns(spec) }
			rec.Count("inserts_with_a_hung_peer", 1)
		}
		failed, ierr := nodes[st.Via].InsertPoints(col, points)
		stopHang()
		after, err := observe(st.Via)
		if err != nil {
			return fail("observing afterwards: %v", err)
		}
		over := total(before)+int64(st.N) > c.Quota
		switch {
		case over:
			// refused without side effects, whoever is out of reach
			if ierr == nil {
				return fail("an insert of %d points into a collection of %d was accepted (failed ranges %v); it now holds %d", st.N, total(before), failed, total(after))
			}
			if st.Hang < 0 && !errors.Is(ierr, cluster.ErrQuotaReached) {
				return fail("an insert of %d points into a collection of %d returned %v", st.N, total(before), ierr)
			}
			if fmt.Sprint(before) != fmt.Sprint(after) {
				return fail("an insert refused (%v) changed the state: %v -> %v", ierr, before, after)
			}
			rec.Count("insert_refused_quota", 1)
			if st.Hang >= 0 {
				rec.Count("insert_over_quota_with_a_hung_peer", 1)
				nontrivial = true
			}
		case ierr != nil:
			if st.Hang < 0 {
				return fail("insert failed: %v", ierr)
			}
			// with a server out of reach the request may be refused, then without side effects
			if fmt.Sprint(before) != fmt.Sprint(after) {
				return fail("an insert refused while server %d hung (%v) changed the state: %v -> %v", st.Hang, ierr, before, after)
			}
			rec.Count("insert_refused_unavailable", 1)
		default:
			failedCount := 0
			for _, fr := range failed {
				if fr.Start < 0 || fr.End > len(sorted) || fr.Start >= fr.End {
					return fail("failed range %+v is not a range of the batch of %d", fr, len(sorted))
				}
				failedCount += fr.End - fr.Start
			}
			if failedCount > 0 && st.Hang < 0 {
				return fail("failed ranges %v without a fault", failed)
			}
			if total(after) != total(before)+int64(st.N-failedCount) {
				return fail("collection holds %d points after the insert; before %d, %d inserted, %d reported failed (counts %v -> %v)", total(after), total(before), st.N, failedCount, before.counts, after.counts)
			}
			for sh, cnt := range after.counts {
				if cnt > c.MaxShardPointCount && cnt > before.counts[sh] {
					return fail("shard %s grew to %d points, the per-shard maximum is %d", sh, cnt, c.MaxShardPointCount)
				}
			}
		}
		if total(after) > c.Quota {
			return fail("the collection holds %d points, its quota is %d", total(after), c.Quota)
		}
	}
	res.NonTrivial = nontrivial
	return res
}

func TestPropHangQuota(t *testing.T)   { vt.Check(t, "quotahang", genHangQuota, execHangQuota) }
func TestReplayHangQuota(t *testing.T) { vt.Replay(t, "quotahang", execHangQuota) }
