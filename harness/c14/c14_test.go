package c14

import (
	"crypto/sha256"
	"encoding/hex"
	"errors"
	"fmt"
	"io"
	"os"
	"path/filepath"
	"runtime"
	"sort"
	"strings"
	"sync"
	"sync/atomic"
	"testing"
	"time"

	"github.com/google/uuid"
	"github.com/semafind/semadb/cluster"
	"github.com/semafind/semadb/models"
	"pgregory.net/rapid"
	"verif/drive"
	"verif/model"
	"verif/vt"
)

func TestMain(m *testing.M) {
	vt.OnExit(drive.Cleanup)
	vt.Main(m, "C14")
}

const chunk = 8 * 1024 * 1024

type ColSpec struct {
	User   string `json:"user"`
	Col    string `json:"col"`
	Points int    `json:"points"`
}

// Blob is a synthetic shard file (not referenced by any collection) used for
// the byte-identity part with sizes around the transfer chunk size.
type Blob struct {
	Node int    `json:"node"` // index into the old server set: where it lies before the sync
	User string `json:"user"`
	Col  string `json:"col"`
	Size int    `json:"size"`
	Seed byte   `json:"seed"`
}

type Fault struct {
	Kind  string `json:"kind"`  // none | chunk | replylost (the Call-th answered RPC of the kind named by Chunk: < 0 any, 0 record transfers, > 0 shard chunks, loses its reply: the receiver has executed it, the sender sees a failure)
	Call  int    `json:"call"`  // fail the Call-th (1-based) shard-chunk delivery that has chunk index == Chunk ...
	Chunk int    `json:"chunk"` // ... (Chunk < 0: any chunk index, i.e. simply the Call-th delivery)
}

type Case struct {
	Total      int       `json:"total"` // nodes taking part (2..4)
	Old        []int     `json:"old"`   // node indexes of the old server set
	New        []int     `json:"new"`   // node indexes of the new server set
	Cols       []ColSpec `json:"cols"`
	Blobs      []Blob    `json:"blobs"`
	SyncOrder  []int     `json:"syncOrder"`           // order in which nodes run their start-up sync
	Concurrent bool      `json:"concurrent"`          // all nodes sync at once instead
	RelDirs    bool      `json:"relDirs,omitempty"`   // node directories given relative to the working directory
	OddDirs    bool      `json:"oddDirs,omitempty"`   // node directories with glob / regexp metacharacters in their names
	SplitDirs  bool      `json:"splitDirs,omitempty"` // the shard manager's directory differs from the node's root directory
	Fault      Fault     `json:"fault"`
	// Rollback: after the interrupted synchronisation the operator goes back to the OLD server list: every
	// node restarts with it and synchronises; what the interrupted transfer left behind on the way must not
	// replace the complete copies
	Rollback bool `json:"rollback,omitempty"`
}

func subset(t *rapid.T, label string, n int) []int {
	for {
		var s []int
		for i := 0; i < n; i++ {
			if rapid.Bool().Draw(t, fmt.Sprintf("%s-%d", label, i)) {
				s = append(s, i)
			}
		}
		if len(s) > 0 {
			return s
		}
		// construction instead of rejection: fall back to a singleton
		return []int{rapid.IntRange(0, n-1).Draw(t, label+"-single")}
	}
}

func genCase(t *rapid.T) Case {
	c := Case{Total: rapid.IntRange(2, 4).Draw(t, "total")}
	c.Old = subset(t, "old", c.Total)
	c.New = subset(t, "new", c.Total)
	// (ids that are names the shard manager itself uses on disk are users like any other, and so are ids of
	// several "/"-separated parts: the owner of a user is computed from the whole id everywhere; no id in
	// the pool is a "/"-prefix of another, which is what keeps the key prefixes of two users apart)
	users := []string{"user1", "user10", "user2", "u", "alice", "user1x", "bob", "sharddb.bbolt", "userCollections", "sharddb.bbolt.backup", "org7/alice", "a/b/c",
		// two ids with the same 64-bit xxhash (routing hashes key+server, so their owners differ all the same;
		// anything that remembers an owner per hash of the key would confuse them)
		"alice00000000042", "Xjqaaaaayfo5aO0K"}
	// (ids with an element that begins with a dot are ids like any other; they are kept in front of the twins)
	users = append([]string{".alice", "team/.bots"}, users...)
	// (one pair in which an id continues the other below a slash: the shard directories of org7/col1 lie below
	// the directory of org7's collection col1; when both are drawn both own a collection called col1)
	users = append([]string{"org7", "org7/col1"}, users...)
	nestedPair := rapid.IntRange(0, 7).Draw(t, "nestedPair") == 0
	nc := rapid.IntRange(1, 5).Draw(t, "ncols")
	seen := map[string]bool{}
	twins := rapid.IntRange(0, 5).Draw(t, "twins") == 0 // both ids of the colliding pair own a collection
	if (twins || nestedPair) && nc < 2 {
		nc = 2
	}
	for i := 0; i < nc; i++ {
		cs := ColSpec{User: rapid.SampledFrom(users).Draw(t, fmt.Sprintf("user%d", i)), Col: rapid.SampledFrom([]string{"abc", "col1", "col2"}).Draw(t, fmt.Sprintf("col%d", i)), Points: rapid.IntRange(0, 5).Draw(t, fmt.Sprintf("np%d", i))}
		if twins && i < 2 {
			cs.User = users[len(users)-2+i]
		}
		if nestedPair && !twins && i < 2 {
			cs.User, cs.Col = users[i], "col1"
		}
		if seen[cs.User+"/"+cs.Col] {
			continue
		}
		seen[cs.User+"/"+cs.Col] = true
		c.Cols = append(c.Cols, cs)
	}
	nb := 0
	switch rapid.IntRange(0, 5).Draw(t, "blobmode") {
	case 0:
		nb = 1
	case 1:
		if vt.Thorough() {
			nb = 2
		}
	}
	for i := 0; i < nb; i++ {
		sizes := []int{0, 1, 100, chunk - 1, chunk, chunk + 1}
		if vt.Thorough() {
			sizes = append(sizes, 2*chunk, 2*chunk+7)
		}
		c.Blobs = append(c.Blobs, Blob{Node: rapid.IntRange(0, len(c.Old)-1).Draw(t, fmt.Sprintf("bn%d", i)), User: rapid.SampledFrom(users).Draw(t, fmt.Sprintf("bu%d", i)),
			Col: "blobcol", Size: rapid.SampledFrom(sizes).Draw(t, fmt.Sprintf("bs%d", i)), Seed: rapid.Byte().Draw(t, fmt.Sprintf("bseed%d", i))})
	}
	c.SyncOrder = rapid.Permutation(seq(c.Total)).Draw(t, "order")
	c.Concurrent = rapid.IntRange(0, 3).Draw(t, "concurrent") == 0
	c.SplitDirs = rapid.IntRange(0, 2).Draw(t, "splitDirs") == 0
	c.OddDirs = rapid.IntRange(0, 2).Draw(t, "oddDirs") == 0
	c.RelDirs = rapid.IntRange(0, 2).Draw(t, "relDirs") == 0
	if rapid.IntRange(0, 2).Draw(t, "fault") == 0 {
		c.Fault = Fault{Kind: "chunk", Call: rapid.IntRange(1, 4).Draw(t, "fcall"), Chunk: rapid.SampledFrom([]int{-1, 0, 1, 1, 2}).Draw(t, "fchunk")}
		switch rapid.IntRange(0, 5).Draw(t, "freply") {
		case 0, 1:
			c.Fault.Kind = "replylost"
		case 2:
			// the answer to a chunk comes too late for the sender, which is configured with two attempts (the
			// shipped value): the chunk is delivered a second time
			c.Fault = Fault{Kind: "replylate", Call: rapid.IntRange(1, 4).Draw(t, "flate"), Chunk: 1}
		}
		c.Rollback = rapid.IntRange(0, 3).Draw(t, "rollback") == 0
		if c.Rollback && rapid.Bool().Draw(t, "rollbackTorso") {
			// a transfer that stops between two chunks of a shard larger than one chunk leaves a torso behind
			c.Blobs = append(c.Blobs, Blob{Node: rapid.IntRange(0, len(c.Old)-1).Draw(t, "torsoNode"), User: "bob", Col: "blobcol", Size: chunk + 1, Seed: 201})
			c.Fault = Fault{Kind: "chunk", Call: 1, Chunk: rapid.SampledFrom([]int{1, 2}).Draw(t, "torsoChunk")}
		}
	} else {
		c.Fault = Fault{Kind: "none"}
	}
	return c
}

func waitForSyncWorkers() {
	clean := 0
	for i := 0; i < 20000; i++ {
		buf := make([]byte, 16<<20)
		n := runtime.Stack(buf, true)
		st := string(buf[:n])
		if !strings.Contains(st, "sendShardFile") && !strings.Contains(st, "syncShards") && !strings.Contains(st, "syncUserCollections") && !strings.Contains(st, "RPCSendShard") && !strings.Contains(st, "RPCSetNodeKeyValue") {
			clean++
			if clean >= 3 {
				return
			}
		} else {
			clean = 0
		}
		time.Sleep(time.Millisecond)
	}
}

func seq(n int) []int {
	r := make([]int, n)
	for i := range r {
		r[i] = i
	}
	return r
}

// ---------------------------------------------------------------------------

type env struct {
	retries int // RPC attempts of every node (0 = 1)
	dir      string
	oddDirs  bool
	relDirs  bool
	shardSub string // sub-directory of the node root that holds the shard files ("" = the node root)
	specs    []drive.NodeSpec
	nodes    []*cluster.ClusterNode
}

func (e *env) root(k int) string {
	if e.oddDirs {
		// characters that mean something to glob patterns, regular expressions or shells but are ordinary in a
		// directory name
		return filepath.Join(e.dir, fmt.Sprintf("no[d]e*%d? (x)", k))
	}
	return filepath.Join(e.dir, fmt.Sprintf("node%d", k))
}

func (e *env) shardRoot(k int) string { return filepath.Join(e.root(k), e.shardSub) }

func (e *env) names(idx []int) []string {
	var s []string
	for _, k := range idx {
		s = append(s, e.specs[k].Name())
	}
	return s
}

func (e *env) start(idx []int, servers []string) error {
	for _, k := range idx {
		n, err := drive.NewClusterNode(e.root(k), e.specs[k], servers, drive.ClusterOpts{MaxShardPointCount: 2, ShardTimeout: 1, RpcTimeout: 20, RpcRetries: max(1, e.retries), ShardSubdir: e.shardSub, RelativeDirs: e.relDirs}, true)
		if err != nil {
			return fmt.Errorf("node %d: %v", k, err)
		}
		e.nodes[k] = n
	}
	return nil
}

func (e *env) stopAll() {
	for k, n := range e.nodes {
		if n != nil {
			drive.StopClusterNode(n, e.specs[k])
			e.nodes[k] = nil
		}
	}
}

type fileInfo struct {
	node int
	path string // relative to the node root
	hash string
	size int64
}

func hashFile(p string) (string, int64, error) {
	f, err := os.Open(p)
	if err != nil {
		return "", 0, err
	}
	defer f.Close()
	h := sha256.New()
	n, err := io.Copy(h, f)
	return hex.EncodeToString(h.Sum(nil)[:12]), n, err
}

// shardFiles lists every sharddb.bbolt below every node root.
func (e *env) shardFiles() (map[string][]fileInfo, error) {
	out := map[string][]fileInfo{} // shard id -> copies
	for k := range e.specs {
		base := e.root(k) // the whole node root: a shard file written to the wrong place is found as well
		err := filepath.Walk(base, func(p string, info os.FileInfo, err error) error {
			if err != nil {
				if os.IsNotExist(err) {
					return nil
				}
				return err
			}
			if info.IsDir() || filepath.Base(p) != "sharddb.bbolt" {
				return nil
			}
			h, n, err := hashFile(p)
			if err != nil {
				return err
			}
			rel, _ := filepath.Rel(e.root(k), p)
			id := filepath.Base(filepath.Dir(p))
			out[id] = append(out[id], fileInfo{node: k, path: rel, hash: h, size: n})
			return nil
		})
		if err != nil && !os.IsNotExist(err) {
			return nil, err
		}
	}
	return out, nil
}

// records asks every running node which collection records it holds itself for each user.
func (e *env) records(users []string) (map[string][]int, map[string]models.Collection, error) {
	holders := map[string][]int{} // "user/col" -> nodes holding the record
	recs := map[string]models.Collection{}
	for k, n := range e.nodes {
		if n == nil {
			continue
		}
		for _, u := range users {
			req := cluster.RPCListCollectionsRequest{RPCRequestArgs: cluster.RPCRequestArgs{Source: e.specs[k].Name(), Dest: e.specs[k].Name()}, UserId: u}
			var resp cluster.RPCListCollectionsResponse
			if err := n.RPCListCollections(&req, &resp); err != nil {
				return nil, nil, fmt.Errorf("node %d: %v", k, err)
			}
			for _, col := range resp.Collections {
				if col.UserId != u {
					continue // (the listing of a user id also returns the records of ids that continue it below a slash)
				}
				key := col.UserId + "/" + col.Id
				holders[key] = append(holders[key], k)
				recs[key] = col
			}
		}
	}
	return holders, recs, nil
}

func blobBytes(b Blob) []byte {
	buf := make([]byte, b.Size)
	x := uint32(b.Seed)*2654435761 + 12345
	for i := range buf {
		x = x*1664525 + 1013904223
		buf[i] = byte(x >> 24)
	}
	return buf
}

func pointId(ci, pi int) uuid.UUID {
	var u uuid.UUID
	u[0], u[1], u[2], u[6], u[8] = byte(ci*31+pi*7), byte(ci), byte(pi), 0x40, 0x80
	return u
}

var schema = models.IndexSchema{"n": {Type: models.IndexTypeInteger}}

func execCase(c Case) (res vt.Result) {
	rec := vt.R()
	dir, cleanup := drive.CaseDir()
	defer cleanup()
	e := &env{dir: dir, nodes: make([]*cluster.ClusterNode, c.Total)}
	if c.Fault.Kind == "replylate" {
		e.retries = 2
	}
	if c.SplitDirs {
		e.shardSub = "shards"
		if c.OddDirs {
			e.shardSub = "sh[a]rds*"
		}
	}
	e.oddDirs = c.OddDirs
	e.relDirs = c.RelDirs
	for k := 0; k < c.Total; k++ {
		host := drive.LoopbackHost(k + 1)
		e.specs = append(e.specs, drive.NodeSpec{Host: host, Port: drive.FreePort(host)})
	}
	defer func() {
		cluster.VerifFaultFn.Store(nil)
		e.stopAll()
	}()
	plan := drive.UserPlan(10, 1000, 1<<16)
	oldServers, newServers := e.names(c.Old), e.names(c.New)
	fail := func(f string, a ...any) vt.Result {
		res.Err = fmt.Errorf("old servers %v, new servers %v: %s", c.Old, c.New, fmt.Sprintf(f, a...))
		return res
	}
	// ---- phase 1: populate under the old server set
	if err := e.start(c.Old, oldServers); err != nil {
		return fail("%v", err)
	}
	entry := e.nodes[c.Old[0]]
	var users []string
	seenUser := map[string]bool{}
	for ci, cs := range c.Cols {
		if !seenUser[cs.User] {
			seenUser[cs.User] = true
			users = append(users, cs.User)
		}
		col := models.Collection{UserId: cs.User, Id: cs.Col, Replicas: 1, UserPlan: plan, IndexSchema: schema}
		if err := entry.CreateCollection(col); err != nil {
			return fail("create %s/%s: %v", cs.User, cs.Col, err)
		}
		if cs.Points > 0 {
			var pts []model.Point
			for pi := 0; pi < cs.Points; pi++ {
				pts = append(pts, model.Point{Id: pointId(ci, pi), Doc: model.Doc{"n": int64(pi), "owner": cs.User + "/" + cs.Col}})
			}
			stored, err := entry.GetCollection(cs.User, cs.Col)
			if err != nil {
				return fail("get %s/%s: %v", cs.User, cs.Col, err)
			}
			stored.UserPlan = plan
			if fr, err := entry.InsertPoints(stored, drive.ToPoints(pts)); err != nil || len(fr) > 0 {
				return fail("insert into %s/%s: %v %v", cs.User, cs.Col, err, fr)
			}
		}
	}
	for _, b := range c.Blobs {
		if !seenUser[b.User] {
			seenUser[b.User] = true
			users = append(users, b.User)
		}
	}
	sort.Strings(users)
	e.stopAll()
	// synthetic shard files
	for bi, b := range c.Blobs {
		var id uuid.UUID
		id[0], id[1], id[6], id[8], id[15] = 0xb1, byte(bi), 0x40, 0x80, b.Seed
		p := drive.ShardFile(e.shardRoot(c.Old[b.Node]), b.User, b.Col, id.String())
		os.MkdirAll(filepath.Dir(p), 0755)
		if err := os.WriteFile(p, blobBytes(b), 0644); err != nil {
			return fail("blob: %v", err)
		}
	}
	before, err := e.shardFiles()
	if err != nil {
		return fail("listing shard files: %v", err)
	}
	for id, copies := range before {
		if len(copies) != 1 {
			return fail("before the sync shard %s exists %d times", id, len(copies))
		}
	}
	// ---- phase 2: every node of the old or new set starts with the NEW server list and syncs
	var running []int
	inUnion := map[int]bool{}
	for _, k := range append(append([]int{}, c.Old...), c.New...) {
		if !inUnion[k] {
			inUnion[k] = true
			running = append(running, k)
		}
	}
	sort.Ints(running)
	if err := e.start(running, newServers); err != nil {
		return fail("restart: %v", err)
	}
	recordsBefore, recsBefore, err := e.records(users)
	if err != nil {
		return fail("records before: %v", err)
	}
	// While a node synchronises, requests keep arriving: right when a node starts sending what it read
	// from its node database, three collections of other users that this node owns are created on it
	// (writes to the same bucket of its node database). They are not part of the judged state.
	var disturbSeq atomic.Int64
	disturb := func(k int) {
		name := e.specs[k].Name()
		made := 0
		for try := 0; try < 400 && made < 3; try++ {
			u := fmt.Sprintf("w%dx%d", disturbSeq.Add(1), try)
			if cluster.RendezvousHash(u, newServers, 1)[0] != name {
				continue
			}
			if err := e.nodes[k].CreateCollection(models.Collection{UserId: u, Id: "dcol", Replicas: 1, UserPlan: plan, IndexSchema: schema}); err == nil {
				made++
			}
		}
		rec.Count("disturbance_writes_during_sync", int64(made))
	}
	inNew := map[int]bool{}
	for _, k := range c.New {
		inNew[k] = true
	}
	nodeOf := map[string]int{}
	for k := range e.specs {
		nodeOf[e.specs[k].Name()] = k
	}
	runSync := func() []error {
		var errs []error
		if !c.Concurrent {
			inner := cluster.VerifFaultFn.Load()
			var mu sync.Mutex
			seen := map[string]bool{}
			fn := func(point string, index int) error {
				if strings.HasPrefix(point, "routefrom:") {
					src := strings.TrimPrefix(point, "routefrom:")
					if i := strings.Index(src, ">"); i >= 0 {
						src = src[:i]
					}
					mu.Lock()
					first := !seen[src]
					seen[src] = true
					mu.Unlock()
					if k, ok := nodeOf[src]; ok && first && inNew[k] {
						disturb(k)
					}
				}
				if inner != nil {
					return (*inner)(point, index)
				}
				return nil
			}
			cluster.VerifFaultFn.Store(&fn)
			defer cluster.VerifFaultFn.Store(inner)
		}
		if c.Concurrent {
			// All nodes synchronise at once. Each node reads what it has to send and only then sends it;
			// to make the window between the two matter, the sends are staggered: the node at position p
			// of the sync order starts sending when p nodes have finished (or after 1.5 s), so that the
			// later nodes receive records - writes to their node database - while they hold theirs.
			pos := map[string]int{}
			for _, k := range c.SyncOrder {
				if inUnion[k] {
					pos[e.specs[k].Name()] = len(pos)
				}
			}
			var finished atomic.Int64
			var onceMu sync.Mutex
			waited := map[string]bool{}
			inner := cluster.VerifFaultFn.Load()
			stagger := func(point string, index int) error {
				if strings.HasPrefix(point, "routefrom:") {
					src := strings.TrimPrefix(point, "routefrom:")
					if i := strings.Index(src, ">"); i >= 0 {
						src = src[:i]
					}
					onceMu.Lock()
					first := !waited[src]
					waited[src] = true
					onceMu.Unlock()
					if first {
						deadline := time.Now().Add(1500 * time.Millisecond)
						for finished.Load() < int64(pos[src]) && time.Now().Before(deadline) {
							time.Sleep(time.Millisecond)
						}
						if k, ok := nodeOf[src]; ok && inNew[k] {
							disturb(k)
						}
					}
				}
				if inner != nil {
					return (*inner)(point, index)
				}
				return nil
			}
			cluster.VerifFaultFn.Store(&stagger)
			var wg sync.WaitGroup
			var mu sync.Mutex
			for _, k := range running {
				wg.Add(1)
				go func(k int) {
					defer wg.Done()
					defer finished.Add(1)
					if err := e.nodes[k].Sync(); err != nil {
						mu.Lock()
						errs = append(errs, fmt.Errorf("node %d: %w", k, err))
						mu.Unlock()
					}
				}(k)
			}
			wg.Wait()
			cluster.VerifFaultFn.Store(inner)
			return errs
		}
		for _, k := range c.SyncOrder {
			if !inUnion[k] {
				continue
			}
			if err := e.nodes[k].Sync(); err != nil {
				errs = append(errs, fmt.Errorf("node %d: %w", k, err))
			}
		}
		return errs
	}
	faulted := false
	target, targetIdx := newServers, c.New
	if c.Fault.Kind == "chunk" || c.Fault.Kind == "replylost" || c.Fault.Kind == "replylate" {
		var calls atomic.Int64
		fn := func(point string, index int) error {
			if c.Fault.Kind == "replylate" {
				if strings.HasPrefix(point, "routed:ClusterNode.RPCSendShard>") && calls.Add(1) == int64(c.Fault.Call) {
					faulted = true
					return fmt.Errorf("verif: the answer arrives after the time-out: %w", cluster.ErrTimeout)
				}
				return nil
			}
			if c.Fault.Kind == "replylost" {
				// the request was executed by the receiver; its answer never reaches the sender
				if !strings.HasPrefix(point, "routed:") {
					return nil
				}
				isRecords, isChunk := strings.HasPrefix(point, "routed:ClusterNode.RPCSetNodeKeyValue>"), strings.HasPrefix(point, "routed:ClusterNode.RPCSendShard>")
				if !(isRecords || isChunk) || (c.Fault.Chunk == 0 && !isRecords) || (c.Fault.Chunk > 0 && !isChunk) {
					return nil
				}
				if calls.Add(1) == int64(c.Fault.Call) {
					faulted = true
					return errors.New("verif: the connection broke before the answer arrived")
				}
				return nil
			}
			if point != "sendshard" {
				return nil
			}
			if c.Fault.Chunk >= 0 && index != c.Fault.Chunk {
				return nil
			}
			if calls.Add(1) == int64(c.Fault.Call) {
				faulted = true
				return errors.New("verif: receiver dies at this chunk")
			}
			return nil
		}
		cluster.VerifFaultFn.Store(&fn)
		errs := runSync()
		// a failing Sync returns at the first error while its other transfer workers may still be
		// running (a real node exits at this point): wait until they are gone before anything else
		waitForSyncWorkers()
		cluster.VerifFaultFn.Store(nil)
		if faulted {
			rec.Count("faulted_syncs", 1)
			if c.Fault.Kind == "replylost" {
				rec.Count("syncs_with_a_lost_reply", 1)
			}
			if c.Fault.Kind == "replylate" {
				rec.Count("syncs_with_a_chunk_delivered_twice", 1)
			}
			if len(errs) == 0 && c.Fault.Kind != "replylate" { // (a second delivery may be absorbed: then the sync succeeds)
				return fail("a transfer was interrupted (%s, call %d, chunk %d) but every node's sync reported success", c.Fault.Kind, c.Fault.Call, c.Fault.Chunk)
			}
			// nothing may be lost: every shard file still exists somewhere in its original form, every record is still held by a node
			mid, err := e.shardFiles()
			if err != nil {
				return fail("listing shard files: %v", err)
			}
			for id, orig := range before {
				ok := false
				for _, cp := range mid[id] {
					if cp.hash == orig[0].hash {
						ok = true
					}
				}
				if !ok {
					return fail("after an interrupted transfer no complete copy of shard %s is left (copies: %+v, original %+v)", id, mid[id], orig[0])
				}
			}
			holders, _, err := e.records(users)
			if err != nil {
				return fail("records: %v", err)
			}
			for key := range recordsBefore {
				if len(holders[key]) == 0 {
					return fail("after an interrupted sync the record of collection %s is held by no node", key)
				}
			}
		}
		// the clean re-sync (a restart of every node), with the new list or, after a roll-back, the old one
		if c.Rollback && faulted {
			e.stopAll()
			if err := e.start(running, oldServers); err != nil {
				return fail("restart with the old list: %v", err)
			}
			target, targetIdx = oldServers, c.Old
			rec.Count("rollbacks_after_an_interrupted_sync", 1)
		}
		if errs := runSync(); len(errs) > 0 {
			return fail("the clean synchronisation after an interrupted one fails: %v", errs)
		}
	} else if errs := runSync(); len(errs) > 0 {
		return fail("synchronisation fails: %v", errs)
	}
	// ---- final state: everything is where routing says, byte-identical, exactly once
	after, err := e.shardFiles()
	if err != nil {
		return fail("listing shard files: %v", err)
	}
	moved := 0
	for id, orig := range before {
		owner := cluster.RendezvousHash(id, target, 1)[0]
		copies := after[id]
		if len(copies) != 1 {
			return fail("after the sync shard %s exists %d times: %+v", id, len(copies), copies)
		}
		cp := copies[0]
		if e.specs[cp.node].Name() != owner {
			return fail("shard %s lies on %s, routing designates %s", id, e.specs[cp.node].Name(), owner)
		}
		if cp.hash != orig[0].hash || cp.size != orig[0].size {
			return fail("shard %s changed in transit: %d bytes hash %s before, %d bytes hash %s after", id, orig[0].size, orig[0].hash, cp.size, cp.hash)
		}
		if cp.path != orig[0].path {
			return fail("shard %s moved from path %s to %s", id, orig[0].path, cp.path)
		}
		if cp.node != orig[0].node {
			moved++
		}
	}
	for id := range after {
		if _, ok := before[id]; !ok {
			return fail("a shard file %s appeared that did not exist before", id)
		}
	}
	holders, recsAfter, err := e.records(users)
	if err != nil {
		return fail("records: %v", err)
	}
	for key, rb := range recsBefore {
		owner := cluster.RendezvousHash(rb.UserId, target, 1)[0]
		h := holders[key]
		if len(h) != 1 || e.specs[h[0]].Name() != owner {
			var names []string
			for _, k := range h {
				names = append(names, e.specs[k].Name())
			}
			return fail("record of collection %s is held by %v, routing designates exactly %s", key, names, owner)
		}
		ra := recsAfter[key]
		if fmt.Sprint(ra.ShardIds) != fmt.Sprint(rb.ShardIds) || ra.Id != rb.Id || ra.UserId != rb.UserId {
			return fail("record of collection %s changed: %+v -> %+v", key, rb, ra)
		}
	}
	for key := range holders {
		if _, ok := recsBefore[key]; !ok {
			return fail("a collection record %s appeared", key)
		}
	}
	// every stored point is readable through every node of the new set (of the old one after a roll-back)
	for _, k := range targetIdx {
		for ci, cs := range c.Cols {
			col, err := e.nodes[k].GetCollection(cs.User, cs.Col)
			if err != nil {
				return fail("through node %d: collection %s/%s: %v", k, cs.User, cs.Col, err)
			}
			col.UserPlan = plan
			if cs.Points == 0 {
				continue
			}
			var vals []string
			for pi := 0; pi < cs.Points; pi++ {
				vals = append(vals, pointId(ci, pi).String())
			}
			rows, err := e.nodes[k].SearchPoints(col, models.SearchRequest{Query: models.Query{Property: "_id", StringArray: &models.SearchStringArrayOptions{Value: vals, Operator: models.OperatorContainsAny}}, Select: []string{"owner"}, Limit: 100})
			if err != nil {
				return fail("through node %d: reading the points of %s/%s: %v", k, cs.User, cs.Col, err)
			}
			if len(rows) != cs.Points {
				return fail("through node %d: %d of the %d points of %s/%s are readable", k, len(rows), cs.Points, cs.User, cs.Col)
			}
			for _, r := range rows {
				if fmt.Sprint(r.DecodedData["owner"]) != cs.User+"/"+cs.Col {
					return fail("through node %d: a point of %s/%s reads %v", k, cs.User, cs.Col, r.DecodedData)
				}
			}
		}
	}
	rec.Count("shards_moved", int64(moved))
	rec.Count("cases_with_blobs", int64(min(1, len(c.Blobs))))
	res.NonTrivial = moved > 0 || strings.Join(oldServers, ",") != strings.Join(newServers, ",") && len(recsBefore) > 0
	return res
}

func TestPropSync(t *testing.T)   { vt.Check(t, "sync", genCase, execCase) }
func TestReplaySync(t *testing.T) { vt.Replay(t, "sync", execCase) }
