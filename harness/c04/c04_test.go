package c04

import (
	"fmt"
	"math"
	"path/filepath"
	"runtime"
	"testing"

	"github.com/semafind/semadb/models"
	"github.com/semafind/semadb/shard/cache"
	"pgregory.net/rapid"
	"verif/drive"
	"verif/gen"
	"verif/model"
	"verif/oracle"
	"verif/vt"
)

func TestMain(m *testing.M) {
	gen.HugeVectors = true
	vt.OnExit(drive.Cleanup)
	vt.Main(m, "C04")
}

type Case struct {
	H       gen.History         `json:"history"`
	Queries [][]oracle.VecQuery `json:"queries"`
}

func genCase(t *rapid.T) Case {
	so := gen.SchemaOpts{Filters: rapid.Bool().Draw(t, "withFilters"), Flat: true, MaxDim: rapid.SampledFrom([]int{3, 8, 70}).Draw(t, "maxDim"), Quantizer: true}
	ho := gen.HistoryOpts{MaxSteps: 8, MaxBatch: 10, PoolSize: rapid.SampledFrom([]int{8, 24}).Draw(t, "pool"),
		AllowRejected: rapid.IntRange(0, 4).Draw(t, "allowRejected") == 0, Reopen: true, Evict: true, FieldProb: rapid.SampledFrom([]int{40, 85, 100}).Draw(t, "fieldProb")}
	// the same id more than once in one update batch (merged in order; the indices must see the net change)
	ho.AllowDupUpdate = rapid.IntRange(0, 3).Draw(t, "dupUpdate") == 0
	nq := 4
	if vt.Thorough() {
		ho.MaxSteps, ho.MaxBatch, nq = 16, 40, 6
		ho.PoolSize = rapid.SampledFrom([]int{8, 24, 100}).Draw(t, "poolT")
	}
	schema := gen.Schema(t, so)
	c := Case{H: gen.History{Schema: schema, MaxPointSize: 1 << 20, CacheLimit: rapid.SampledFrom([]int64{-1, -1, 0, 1}).Draw(t, "cacheLimit")}}
	g := gen.NewHistoryGen(t, schema, c.H.MaxPointSize, ho)
	n := rapid.IntRange(1, ho.MaxSteps).Draw(t, "nsteps")
	for i := 0; i < n; i++ {
		c.H.Steps = append(c.H.Steps, g.Next())
		var qs []oracle.VecQuery
		k := rapid.IntRange(1, nq).Draw(t, fmt.Sprintf("nq%d", i))
		for j := 0; j < k; j++ {
			vec, limit, w, f := gen.VecQueryParts(t, fmt.Sprintf("q%d.%d", i, j), g.M, g.Pool, gen.PFlat, 75)
			q := oracle.VecQuery{Prop: gen.PFlat, Vector: vec, Limit: limit, Weight: w, Filter: f, Stray: rapid.IntRange(0, 3).Draw(t, fmt.Sprintf("stray%d.%d", i, j)) == 0}
			gen.MustValid(q.ToQuery(schema), schema)
			qs = append(qs, q)
		}
		c.Queries = append(c.Queries, qs)
	}
	c.H.Rename = gen.MaybeRename(t, c.H.Schema)
	return c
}

type answer struct {
	rows []drive.Row
}

func distList(rows []drive.Row) []float32 {
	r := make([]float32, len(rows))
	for i, x := range rows {
		if x.Distance != nil {
			r[i] = *x.Distance
		} else {
			r[i] = float32(math.NaN())
		}
	}
	return r
}

func sameDistances(a, b []drive.Row) bool {
	da, db := distList(a), distList(b)
	if len(da) != len(db) {
		return false
	}
	for i := range da {
		if math.Float32bits(da[i]) != math.Float32bits(db[i]) {
			return false
		}
	}
	return true
}

// searchChecked runs one query on one instance and verifies it against the model.
func searchChecked(s *drive.Shard, m *model.Collection, q oracle.VecQuery, where string) ([]drive.Row, error) {
	rows, err := s.Search(models.SearchRequest{Query: q.ToQuery(s.Col.IndexSchema)})
	if err != nil {
		return nil, fmt.Errorf("search on %s failed: %v", where, err)
	}
	vb, o, err := s.VecInfo(q.Prop)
	if err != nil {
		return nil, fmt.Errorf("reading index state of %s: %v", where, err)
	}
	pv, err := s.InspectPoints()
	if err != nil {
		return nil, err
	}
	if err := oracle.CheckVectorRows(oracle.VecContext{M: m, Bucket: vb, Oracle: o, Points: pv}, q, rows, true); err != nil {
		return nil, fmt.Errorf("on %s: %v", where, err)
	}
	return rows, nil
}

func execCase(c Case) (res vt.Result) {
	rec := vt.R()
	h := c.H
	dir, cleanup := drive.CaseDir()
	defer cleanup()
	path := filepath.Join(dir, "sharddb.bbolt")
	mgr := drive.Manager(h.CacheLimit)
	s, err := drive.OpenNamed(path, h.Schema, h.MaxPointSize, mgr, h.Rename)
	if err != nil {
		return vt.Result{Err: fmt.Errorf("open: %v", err)}
	}
	defer func() { s.Close() }()
	m := model.NewCollection(h.Schema, h.MaxPointSize)
	m.SizeNames = h.Rename
	if len(h.Rename) > 0 {
		vt.R().Count("cases_with_renamed_properties", 1)
	}
	flat := h.Schema[gen.PFlat].VectorFlat
	base := runtime.NumGoroutine()
	nontrivial := false
	fail := func(i int, f string, a ...any) vt.Result {
		res.Err = fmt.Errorf("step %d (%s): %s", i, h.Steps[i].Kind, fmt.Sprintf(f, a...))
		return res
	}
	wasTrained := false
	for i, st := range h.Steps {
		before := m.Clone()
		wrote := false
		switch st.Kind {
		case "insert":
			reason := m.Insert(st.Points)
			err := s.Insert(st.Points)
			if (err != nil) != (reason != "") {
				return fail(i, "insert returned %v, model says %q", err, reason)
			}
			if reason != "" {
				m = before
				drive.Quiesce(base)
			} else {
				wrote = true
			}
		case "update":
			_, reason := m.Update(st.Points)
			_, err := s.Update(st.Points)
			if (err != nil) != (reason != "") {
				return fail(i, "update returned %v, model says %q", err, reason)
			}
			if reason != "" {
				m = before
				drive.Quiesce(base)
			} else {
				wrote = true
			}
		case "delete":
			m.Delete(st.Ids)
			if _, err := s.Delete(st.Ids); err != nil {
				return fail(i, "delete failed: %v", err)
			}
			wrote = true
		case "reopen":
			if err := s.Close(); err != nil {
				return fail(i, "close: %v", err)
			}
			if s, err = drive.OpenNamed(path, h.Schema, h.MaxPointSize, mgr, h.Rename); err != nil {
				return fail(i, "reopen: %v", err)
			}
		case "evict":
			s.EvictCaches()
		}
		if err := drive.StrayVerdict(s); err != nil {
			return fail(i, "%v", err)
		}
		// persisted state of the index
		vb, o, err := s.VecInfo(gen.PFlat)
		if err != nil {
			return fail(i, "%v", err)
		}
		pv, err := s.InspectPoints()
		if err != nil {
			return fail(i, "%v", err)
		}
		ctx := oracle.VecContext{M: m, Bucket: vb, Oracle: o, Points: pv}
		if err := oracle.CheckVecStore(ctx, gen.PFlat, false); err != nil {
			return fail(i, "%v", err)
		}
		// learned binary threshold: when it must / must not have been trained, and its value
		if q := flat.Quantizer; q != nil && q.Type == models.QuantizerBinary && q.Binary.Threshold == nil && flat.DistanceMetric != models.DistanceHamming && flat.DistanceMetric != models.DistanceJaccard {
			nvec := 0
			for _, d := range m.Docs {
				if _, ok := model.FieldVector(d, gen.PFlat); ok {
					nvec++
				}
			}
			trained := vb.Threshold != nil
			if wasTrained && !trained {
				return fail(i, "the learned binary threshold disappeared from storage")
			}
			if wrote && !wasTrained {
				touched := false
				for id, d := range m.Docs {
					_, now := model.FieldVector(d, gen.PFlat)
					_, was := model.FieldVector(before.Docs[id], gen.PFlat)
					if now || was {
						touched = true
					}
				}
				_ = touched
			}
			if trained && !wasTrained {
				rec.Count("binary_threshold_learned", 1)
				if nvec < q.Binary.TriggerThreshold {
					return fail(i, "binary quantiser trained with %d vectors, trigger threshold is %d", nvec, q.Binary.TriggerThreshold)
				}
				// the threshold is the mean of the vectors present at the end of this batch
				dim := int(flat.VectorSize)
				mean := make([]float64, dim)
				abs := make([]float64, dim)
				for _, d := range m.Docs {
					if v, ok := model.FieldVector(d, gen.PFlat); ok {
						for k := range v {
							mean[k] += float64(v[k])
							abs[k] += math.Abs(float64(v[k]))
						}
					}
				}
				for k := range mean {
					want := mean[k] / float64(nvec)
					tol := (float64(nvec)+2)*abs[k]/float64(nvec)/(1<<23) + 1e-38
					if math.Abs(float64(vb.Threshold[k])-want) > tol {
						return fail(i, "learned binary threshold[%d] = %v, the mean of the %d stored vectors is %v", k, vb.Threshold[k], nvec, want)
					}
				}
			}
			wasTrained = trained
		}
		// queries on the four cache states of the same file
		for qi, q := range c.Queries[i] {
			warm, err := searchChecked(s, m, q, "the running instance")
			if err != nil {
				return fail(i, "query %d %+v: %v", qi, describeQ(q), err)
			}
			cp := filepath.Join(dir, fmt.Sprintf("copy-%d-%d.bbolt", i, qi))
			if err := drive.CopyFile(path, cp); err != nil {
				return fail(i, "copy: %v", err)
			}
			variants := []struct {
				name string
				mgr  *cache.Manager
			}{{"a cold copy with a fresh cache", cache.NewManager(-1)}, {"a copy with the cache disabled", nil}, {"a copy with a 1-byte cache limit", cache.NewManager(1)}}
			for _, v := range variants {
				inst, err := drive.OpenNamed(cp, h.Schema, h.MaxPointSize, v.mgr, h.Rename)
				if err != nil {
					return fail(i, "open %s: %v", v.name, err)
				}
				rows, err := searchChecked(inst, m, q, v.name)
				if err == nil && v.mgr != nil {
					// second search on the same instance (now served from its cache)
					var rows2 []drive.Row
					rows2, err = searchChecked(inst, m, q, v.name+" (second search)")
					if err == nil && !sameDistances(rows, rows2) {
						err = fmt.Errorf("two searches on %s disagree: %v vs %v", v.name, distList(rows), distList(rows2))
					}
				}
				inst.Close()
				if err != nil {
					return fail(i, "query %d %s: %v", qi, describeQ(q), err)
				}
				if !sameDistances(warm, rows) {
					return fail(i, "query %d %s: the running instance reports distances %v, %s reports %v", qi, describeQ(q), distList(warm), v.name, distList(rows))
				}
			}
			rec.Count("queries", 1)
			rec.Count("cold_executions", 3)
			nvec := 0
			for _, d := range m.Docs {
				if _, ok := model.FieldVector(d, gen.PFlat); ok {
					nvec++
				}
			}
			if nvec > q.Limit && q.Filter != nil {
				nontrivial = true
				rec.Count("nontrivial_queries", 1)
			}
			if o.BitMetric != "" {
				rec.Count("queries_bit_distance", 1)
			}
		}
		if err := drive.StrayVerdict(s); err != nil {
			return fail(i, "during queries: %v", err)
		}
	}
	rec.Count("metric_"+flat.DistanceMetric, 1)
	res.NonTrivial = nontrivial
	return res
}

func describeQ(q oracle.VecQuery) string {
	w := "nil"
	if q.Weight != nil {
		w = fmt.Sprint(*q.Weight)
	}
	return fmt.Sprintf("{vector %v limit %d weight %s filter %v}", q.Vector, q.Limit, w, q.Filter != nil)
}

func TestPropFlat(t *testing.T)   { vt.Check(t, "flat", genCase, execCase) }
func TestReplayFlat(t *testing.T) { vt.Replay(t, "flat", execCase) }
