package c04

import (
	"fmt"
	"testing"

	"github.com/google/uuid"
	"github.com/semafind/semadb/models"
	"github.com/semafind/semadb/shard/cache"
	"pgregory.net/rapid"
	"verif/gen"
	"verif/model"
	"verif/oracle"
	"verif/run"
	"verif/vt"
)

// A flat index with more vectors than fit a 16 bit counter. The other jobs stay below a few thousand
// points; whatever is sized, chunked or trimmed by the number of items in a store or cache only shows
// beyond such a threshold. The order of events matters as much as the volume: a search fills the shared
// cache by scanning the store, a small write batch flushes it, the next search runs on the warm cache
// again - and must still be the exact answer over all vectors, identical to a cold copy's.

type VolumeCase struct {
	N          int   `json:"n"` // vectors of the bulk load (written in batches of 10000)
	Seed       int   `json:"seed"`
	Dim        int   `json:"dim"`
	CacheLimit int64 `json:"cacheLimit"`
	Touch      []int `json:"touch"` // numbers of the points the small batches rewrite / delete
}

func genVolume(t *rapid.T) VolumeCase {
	c := VolumeCase{N: rapid.SampledFrom([]int{65537, 66000, 70000}).Draw(t, "n"), Seed: rapid.IntRange(1, 1000).Draw(t, "seed"), Dim: rapid.IntRange(1, 3).Draw(t, "dim"),
		CacheLimit: rapid.SampledFrom([]int64{-1, -1, 1 << 30}).Draw(t, "cacheLimit")}
	c.Touch = rapid.SliceOfNDistinct(rapid.IntRange(0, c.N-1), 4, 8, rapid.ID[int]).Draw(t, "touch")
	return c
}

// volId: distinct for every number below 2^32 (gen.BulkId repeats after 65536).
func volId(i int) uuid.UUID {
	var u uuid.UUID
	u[0], u[1], u[2], u[3], u[4], u[6], u[8] = byte(i*37), byte(i>>24), byte(i>>16), byte(i>>8), byte(i), 0x40, 0x80
	return u
}

// volVector: the points of a grid of 1000 columns, all different (with ties the loss of a point would hide
// behind its twins); further dimensions repeat the column.
func volVector(c VolumeCase, i int) []float32 {
	v := make([]float32, c.Dim)
	v[0] = float32(i % 1000)
	if c.Dim > 1 {
		v[1] = float32(i / 1000)
	} else {
		v[0] = float32(i)
	}
	if c.Dim > 2 {
		v[2] = float32(i % 7)
	}
	return v
}

func execVolume(c VolumeCase) (res vt.Result) {
	rec := vt.R()
	prop := gen.PFlat
	schema := models.IndexSchema{prop: {Type: models.IndexTypeVectorFlat, VectorFlat: &models.IndexVectorFlatParameters{VectorSize: uint(c.Dim), DistanceMetric: models.DistanceEuclidean}}}
	r, err := run.New(gen.History{Schema: schema, MaxPointSize: 1 << 20, CacheLimit: c.CacheLimit})
	if err != nil {
		return vt.Result{Err: err}
	}
	defer r.Close()
	for lo := 0; lo < c.N; lo += 10000 {
		st := gen.Step{Kind: "insert"}
		for i := lo; i < min(lo+10000, c.N); i++ {
			st.Points = append(st.Points, model.Point{Id: volId(i), Doc: model.Doc{prop: volVector(c, i)}})
		}
		if _, err := r.Apply(st); err != nil {
			return vt.Result{Err: fmt.Errorf("bulk insert at %d: %v", lo, err)}
		}
	}
	near := func(i int) []float32 {
		v := volVector(c, i)
		v[0] += 0.25
		return v
	}
	queries := []oracle.VecQuery{{Prop: prop, Vector: near(c.Seed * 60), Limit: 10}, {Prop: prop, Vector: near(c.N - 2), Limit: 75}, {Prop: prop, Vector: near(c.N / 2), Limit: 75}, {Prop: prop, Vector: near(c.Touch[0]), Limit: 40}}
	check := func(where string, cold bool) error {
		ctx, err := oracle.ContextOf(r.S, r.M, prop)
		if err != nil {
			return err
		}
		for qi, q := range queries {
			warm, err := r.S.Search(models.SearchRequest{Query: q.ToQuery(schema)})
			if err != nil {
				return fmt.Errorf("%s: query %d on the running instance failed: %v", where, qi, err)
			}
			if err := oracle.CheckVectorRows(ctx, q, warm, true); err != nil {
				return fmt.Errorf("%s: query %d {limit %d, %d vectors} on the running instance: %v", where, qi, q.Limit, len(r.M.Docs), err)
			}
			if cold {
				inst, err := r.Copy(cache.NewManager(-1))
				if err != nil {
					return err
				}
				rows, err := inst.Search(models.SearchRequest{Query: q.ToQuery(schema)})
				inst.Close()
				if err != nil {
					return fmt.Errorf("%s: query %d on a cold copy failed: %v", where, qi, err)
				}
				if !sameDistances(warm, rows) {
					return fmt.Errorf("%s: query %d {limit %d, %d vectors}: the running instance and a cold copy answer differently", where, qi, q.Limit, len(r.M.Docs))
				}
			}
		}
		return nil
	}
	if err := check("after the bulk load", false); err != nil {
		return vt.Result{Err: err}
	}
	// small batches: rewrite some vectors, delete some points, add two; a search after each
	upd := gen.Step{Kind: "update"}
	del := gen.Step{Kind: "delete"}
	for k, i := range c.Touch {
		if k%2 == 0 {
			upd.Points = append(upd.Points, model.Point{Id: volId(i), Doc: model.Doc{prop: volVector(c, (i+c.N/3)%c.N)}})
		} else {
			del.Ids = append(del.Ids, volId(i))
		}
	}
	ins := gen.Step{Kind: "insert", Points: []model.Point{{Id: volId(c.N), Doc: model.Doc{prop: queries[0].Vector}}, {Id: volId(c.N + 1), Doc: model.Doc{prop: queries[2].Vector}}}}
	for i, st := range []gen.Step{upd, del, ins} {
		if _, err := r.Apply(st); err != nil {
			return vt.Result{Err: fmt.Errorf("step %d (%s): %v", i, st.Kind, err)}
		}
		if err := check(fmt.Sprintf("after step %d (%s)", i, st.Kind), i == 2); err != nil {
			return vt.Result{Err: err}
		}
	}
	rec.Max("volume_most_vectors_in_a_flat_index", int64(c.N))
	return vt.Result{NonTrivial: true}
}

func TestPropVolume(t *testing.T)   { vt.Check(t, "volume", genVolume, execVolume) }
func TestReplayVolume(t *testing.T) { vt.Replay(t, "volume", execVolume) }
