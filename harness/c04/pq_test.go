package c04

import (
	"testing"

	"pgregory.net/rapid"
	"verif/oracle"
	"verif/vt"
)

// flat index with a product quantiser, histories around the 1000-vector training trigger
func genPQ(t *rapid.T) oracle.PQCase { return oracle.GenPQCase(t, false) }

func TestPropFlatPQ(t *testing.T)   { vt.Check(t, "flatpq", genPQ, oracle.ExecPQCase) }
func TestReplayFlatPQ(t *testing.T) { vt.Replay(t, "flatpq", oracle.ExecPQCase) }
