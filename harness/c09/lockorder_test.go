package c09

import (
	"fmt"
	"path/filepath"
	"runtime"
	"strings"
	"sync"
	"sync/atomic"
	"testing"
	"time"

	"github.com/google/uuid"
	"github.com/semafind/semadb/models"
	"github.com/semafind/semadb/shard/cache"
	"pgregory.net/rapid"
	"verif/drive"
	"verif/gen"
	"verif/model"
	"verif/vt"
)

// LockOrderCase: one search is held inside its index callback (it has the read lock of the flat index's
// shared cache and is parked at its n-th storage read) while a write batch arrives that touches that
// index and a second vector index whose cache is not in the manager yet; then the search is let go. The
// batch writes its indexes from goroutines of their own, which share the batch's cache transaction. The
// cache is bounded (a positive limit: caches are pruned when accesses end), disabled or unbounded.
// Whatever the order in which the three meet inside the cache manager, the search and the batch must
// both return.
type LockOrderCase struct {
	CacheLimit  int64  `json:"cacheLimit"`  // -1 | 0 | positive
	ParkAt      int    `json:"parkAt"`      // the search parks at this storage read of its transaction (1-based)
	SecondFirst bool   `json:"secondFirst"` // the points of the batch name the second index first
	Prefix      int    `json:"prefix"`      // points stored beforehand (first index only)
	Batch       int    `json:"batch"`
	HoldMs      int    `json:"holdMs"`     // how long the search stays parked after the batch was started
	SecondKind  string `json:"secondKind"` // vamana | flat
	// delays (microseconds) that widen two windows inside the batch: after a goroutine of the batch has
	// found the first index's cache in the manager (before it locks it), and at the first storage read
	// inside the construct function of the second index's cache
	DelayLookupUs int `json:"delayLookupUs,omitempty"`
	DelayCreateUs int `json:"delayCreateUs,omitempty"`
}

func genLockOrder(t *rapid.T) LockOrderCase {
	return LockOrderCase{CacheLimit: rapid.SampledFrom([]int64{1 << 30, 1 << 30, 4000, -1, 0}).Draw(t, "cacheLimit"), ParkAt: rapid.IntRange(1, 4).Draw(t, "parkAt"),
		SecondFirst: rapid.Bool().Draw(t, "secondFirst"), Prefix: rapid.IntRange(1, 6).Draw(t, "prefix"), Batch: rapid.IntRange(1, 4).Draw(t, "batch"),
		HoldMs: rapid.SampledFrom([]int{1, 5, 20}).Draw(t, "holdMs"), SecondKind: rapid.SampledFrom([]string{"vamana", "vamana", "flat"}).Draw(t, "secondKind"),
		DelayLookupUs: rapid.SampledFrom([]int{0, 0, 200, 1000, 3000}).Draw(t, "delayLookup"), DelayCreateUs: rapid.SampledFrom([]int{0, 0, 500, 2000, 6000}).Draw(t, "delayCreate")}
}

func execLockOrder(c LockOrderCase) (res vt.Result) {
	rec := vt.R()
	dir, cleanup := drive.CaseDir()
	path := filepath.Join(dir, "sharddb.bbolt")
	second := models.IndexSchemaValue{Type: models.IndexTypeVectorVamana, VectorVamana: &models.IndexVectorVamanaParameters{VectorSize: 2, DistanceMetric: models.DistanceEuclidean, SearchSize: 75, DegreeBound: 64, Alpha: 1.2}}
	if c.SecondKind == "flat" {
		second = models.IndexSchemaValue{Type: models.IndexTypeVectorFlat, VectorFlat: &models.IndexVectorFlatParameters{VectorSize: 2, DistanceMetric: models.DistanceEuclidean}}
	}
	schema := models.IndexSchema{gen.PFlat: {Type: models.IndexTypeVectorFlat, VectorFlat: &models.IndexVectorFlatParameters{VectorSize: 2, DistanceMetric: models.DistanceEuclidean}}, "second": second}
	s, err := drive.Open(path, schema, 1<<20, drive.Manager(c.CacheLimit))
	if err != nil {
		cleanup()
		return vt.Result{Err: err}
	}
	stuck := false
	defer func() {
		if !stuck {
			s.Close()
			cleanup()
		}
	}()
	pt := func(i int, both bool) model.Point {
		var id uuid.UUID
		id[0], id[6], id[8], id[15] = byte(i), 0x40, 0x80, 1
		d := model.Doc{gen.PFlat: []float32{float32(i), 1}}
		if both {
			d["second"] = []float32{1, float32(i)}
		}
		return model.Point{Id: id, Doc: d}
	}
	var prefix []model.Point
	for i := 0; i < c.Prefix; i++ {
		prefix = append(prefix, pt(i+1, false))
	}
	if err := s.Insert(prefix); err != nil {
		return vt.Result{Err: err}
	}
	// the search parks at its ParkAt-th storage read (inside the index callback when the cache has to read)
	var searchGoid atomic.Int64
	parked := make(chan struct{})
	release := make(chan struct{})
	var once sync.Once
	var createOnce sync.Once
	s.Proxy.SetHooks(&drive.Hooks{Op: func(tx *drive.ProxyTx, kind string, n int64) {
		if !tx.Write && tx.Goid == searchGoid.Load() && n == int64(c.ParkAt) {
			once.Do(func() {
				close(parked)
				<-release
			})
		}
		if tx.Write && c.DelayCreateUs > 0 && n > 2 {
			buf := make([]byte, 1<<14)
			if st := string(buf[:runtime.Stack(buf, false)]); strings.Contains(st, "cache.(*Transaction).With") && (strings.Contains(st, "vamana.NewIndexVamana") || strings.Contains(st, "flat.NewIndexFlat")) {
				createOnce.Do(func() { time.Sleep(time.Duration(c.DelayCreateUs) * time.Microsecond) })
			}
		}
	}})
	defer s.Proxy.SetHooks(nil)
	if c.DelayLookupUs > 0 {
		var lookupOnce sync.Once
		lookup := func(name string, readOnly bool) {
			if !readOnly && strings.HasSuffix(name, "index/vectorFlat/"+gen.PFlat) {
				lookupOnce.Do(func() { time.Sleep(time.Duration(c.DelayLookupUs) * time.Microsecond) })
			}
		}
		cache.VerifLookupFn.Store(&lookup)
		defer cache.VerifLookupFn.Store(nil)
	}
	searchDone := make(chan error, 1)
	go func() {
		searchGoid.Store(drive.Goid())
		_, err := s.Search(models.SearchRequest{Query: models.Query{Property: gen.PFlat, VectorFlat: &models.SearchVectorFlatOptions{Vector: []float32{0, 0}, Operator: models.OperatorNear, Limit: 10}}, Limit: 10})
		searchDone <- err
	}()
	wasParked := false
	select {
	case <-parked:
		wasParked = true
	case err := <-searchDone:
		// fewer storage reads than ParkAt: the search is over, the batch runs alone
		searchDone <- err
	case <-time.After(5 * time.Second):
		stuck = true
		return vt.Result{Err: fmt.Errorf("the search alone does not return")}
	}
	var batch []model.Point
	for i := 0; i < c.Batch; i++ {
		batch = append(batch, pt(100+i, true))
	}
	if c.SecondFirst {
		// (a document is a map: which index sees its change first is up to the dispatcher; the flag only
		// varies the batch)
		batch = append(batch, pt(120, false))
	}
	writeDone := make(chan error, 1)
	go func() { writeDone <- s.Insert(batch) }()
	time.Sleep(time.Duration(c.HoldMs) * time.Millisecond)
	if wasParked {
		close(release)
		rec.Count("searches_held_inside_the_index_callback", 1)
	}
	deadline := time.After(4 * time.Second)
	var werr, serr error
	for got := 0; got < 2; {
		select {
		case werr = <-writeDone:
			got++
		case serr = <-searchDone:
			got++
		case <-deadline:
			stuck = true
			buf := make([]byte, 1<<20)
			n := runtime.Stack(buf, true)
			var waits []string
			for _, g := range strings.Split(string(buf[:n]), "\n\n") {
				if strings.Contains(g, "shard/cache.") && (strings.Contains(g, "sync.Mutex.Lock") || strings.Contains(g, "sync.RWMutex")) {
					lines := strings.Split(g, "\n")
					w := lines[0]
					for _, l := range lines {
						if strings.Contains(l, "shard/cache.(") {
							w += " " + strings.TrimSpace(l)
							break
						}
					}
					waits = append(waits, w)
				}
			}
			return vt.Result{Err: fmt.Errorf("a search held inside its index callback (parked=%v) and a write batch on two vector indexes (cache limit %d) do not both return within 4 s after the search was let go; goroutines waiting inside the cache manager: %v", wasParked, c.CacheLimit, waits)}
		}
	}
	if werr != nil {
		return vt.Result{Err: fmt.Errorf("the batch failed: %v", werr)}
	}
	if serr != nil && !strings.Contains(serr.Error(), "does not exist") {
		return vt.Result{Err: fmt.Errorf("the search failed: %v", serr)}
	}
	// afterwards both indexes answer
	if _, err := s.Search(models.SearchRequest{Query: models.Query{Property: gen.PFlat, VectorFlat: &models.SearchVectorFlatOptions{Vector: []float32{0, 0}, Operator: models.OperatorNear, Limit: 10}}, Limit: 10}); err != nil {
		return vt.Result{Err: fmt.Errorf("a search after the batch fails: %v", err)}
	}
	res.NonTrivial = wasParked && c.CacheLimit > 0
	return res
}

var _ = cache.NewManager

func TestPropLockOrder(t *testing.T)   { vt.Check(t, "lockorder", genLockOrder, execLockOrder) }
func TestReplayLockOrder(t *testing.T) { vt.Replay(t, "lockorder", execLockOrder) }

// TestPropLockOrderForced forces the one order in which the three meet badly, with the two pause points the
// harness has inside the cache manager's reach: the batch's goroutine for the first index has found the
// cache in the manager and has not locked it yet (cache.VerifLookupFn), the goroutine for the second index
// is constructing its cache (parked at a storage read inside the construct function), the search holds the
// first cache's read lock (parked at a storage read inside its callback). Then the first goroutine goes on
// (it waits for the cache lock), the second goes on (it waits for the transaction), and the search is let
// go. Which index the dispatcher serves first is up to a map iteration: the probe repeats until the order
// was obtained.
func TestPropLockOrderForced(t *testing.T) {
	rec := vt.R()
	got := map[bool]bool{}
	gotCommit := false
	for trial := 1; trial <= 60; trial++ {
		rec.Eval()
		failReader := trial%2 == 0
		if trial%3 == 0 && !gotCommit {
			ok, err := forcedCommitCycle()
			if err != nil {
				c := LockOrderCase{CacheLimit: -1, ParkAt: 0, Prefix: 3, Batch: 2, HoldMs: 1, SecondKind: "vamana"}
				p := vt.WriteReplay("lockorder", c, err)
				rec.Violation("lockorderforced", p, err.Error())
				t.Fatalf("%v", err)
			}
			if ok {
				gotCommit = true
				rec.Count("forced_commit_cycle_obtained", 1)
				rec.NonTrivial("forced-commit")
			}
			continue
		}
		obtained, err := forcedLockOrder(failReader)
		if err != nil {
			c := LockOrderCase{CacheLimit: 1 << 30, ParkAt: 3, Prefix: 3, Batch: 2, HoldMs: 1, SecondKind: "vamana"}
			p := vt.WriteReplay("lockorder", c, err)
			rec.Violation("lockorderforced", p, err.Error())
			t.Fatalf("%v", err)
		}
		if obtained {
			rec.Count(fmt.Sprintf("forced_lock_order_obtained_failing_reader_%v", failReader), 1)
			rec.NonTrivial(fmt.Sprintf("forced-%v", failReader))
			rec.Max("forced_lock_order_trials", int64(trial))
			got[failReader] = true
			if got[true] && got[false] && gotCommit {
				return
			}
		}
	}
	rec.Count("forced_lock_order_not_obtained", 1)
}

// failReader: the storage read at which the search was parked fails when the search goes on, so that the
// search leaves through the error path of the cache transaction instead of the regular one
func forcedLockOrder(failReader bool) (obtained bool, err error) {
	dir, cleanup := drive.CaseDir()
	path := filepath.Join(dir, "sharddb.bbolt")
	schema := models.IndexSchema{gen.PFlat: {Type: models.IndexTypeVectorFlat, VectorFlat: &models.IndexVectorFlatParameters{VectorSize: 2, DistanceMetric: models.DistanceEuclidean}},
		"second": {Type: models.IndexTypeVectorVamana, VectorVamana: &models.IndexVectorVamanaParameters{VectorSize: 2, DistanceMetric: models.DistanceEuclidean, SearchSize: 75, DegreeBound: 64, Alpha: 1.2}}}
	s, oerr := drive.Open(path, schema, 1<<20, drive.Manager(1<<30))
	if oerr != nil {
		cleanup()
		return false, oerr
	}
	stuck := false
	defer func() {
		cache.VerifLookupFn.Store(nil)
		s.Proxy.SetHooks(nil)
		if !stuck {
			s.Close()
			cleanup()
		}
	}()
	pt := func(i int, both bool) model.Point {
		var id uuid.UUID
		id[0], id[6], id[8], id[15] = byte(i), 0x40, 0x80, 1
		d := model.Doc{gen.PFlat: []float32{float32(i), 1}}
		if both {
			d["second"] = []float32{1, float32(i)}
		}
		return model.Point{Id: id, Doc: d}
	}
	if err := s.Insert([]model.Point{pt(1, false), pt(2, false), pt(3, false)}); err != nil {
		return false, err
	}
	inStack := func(what string) bool {
		buf := make([]byte, 1<<16)
		return strings.Contains(string(buf[:runtime.Stack(buf, false)]), what)
	}
	var searchGoid atomic.Int64
	sParked, sGo := make(chan struct{}), make(chan struct{})
	g1Parked, g1Go := make(chan struct{}), make(chan struct{})
	g2Parked, g2Go := make(chan struct{}), make(chan struct{})
	var sOnce, g1Once, g2Once sync.Once
	var g1Goid atomic.Int64
	var failNow atomic.Bool
	s.Proxy.SetHooks(&drive.Hooks{FailOp: func(tx *drive.ProxyTx, kind string, n int64) error {
		if failReader && !tx.Write && drive.Goid() == searchGoid.Load() && failNow.Swap(false) {
			return fmt.Errorf("%s: %w", kind, drive.ErrInjected)
		}
		return nil
	}, Op: func(tx *drive.ProxyTx, kind string, n int64) {
		if !tx.Write && drive.Goid() == searchGoid.Load() && inStack("cache.(*Transaction).With") {
			sOnce.Do(func() { close(sParked); <-sGo; failNow.Store(true) })
		}
		if tx.Write && inStack("vamana.NewIndexVamana") && inStack("cache.(*Transaction).With") {
			g2Once.Do(func() { close(g2Parked); <-g2Go })
		}
	}})
	lookup := func(name string, readOnly bool) {
		if !readOnly && strings.HasSuffix(name, "index/vectorFlat/"+gen.PFlat) {
			g1Once.Do(func() { g1Goid.Store(drive.Goid()); close(g1Parked); <-g1Go })
		}
	}
	cache.VerifLookupFn.Store(&lookup)
	searchDone, writeDone := make(chan error, 1), make(chan error, 1)
	go func() {
		searchGoid.Store(drive.Goid())
		_, err := s.Search(models.SearchRequest{Query: models.Query{Property: gen.PFlat, VectorFlat: &models.SearchVectorFlatOptions{Vector: []float32{0, 0}, Operator: models.OperatorNear, Limit: 10}}, Limit: 10})
		searchDone <- err
	}()
	select {
	case <-sParked:
	case <-time.After(3 * time.Second):
		stuck = true
		return false, fmt.Errorf("harness: the search did not reach a storage read inside its index callback")
	}
	go func() { writeDone <- s.Insert([]model.Point{pt(100, true), pt(101, true)}) }()
	// both goroutines of the batch at their pause points?
	got1, got2 := false, false
	timeout := time.After(1500 * time.Millisecond)
	for !(got1 && got2) {
		select {
		case <-g1Parked:
			got1, g1Parked = true, nil
		case <-g2Parked:
			got2, g2Parked = true, nil
		case <-timeout:
			timeout = nil
		}
		if timeout == nil {
			break
		}
	}
	releaseAll := func() {
		// (whoever is parked goes on; whoever arrives later finds the channels closed)
		closeOnce(g1Go)
		closeOnce(g2Go)
		closeOnce(sGo)
	}
	if !(got1 && got2) {
		// the other order: nothing to force, everybody goes on
		releaseAll()
		for k := 0; k < 2; k++ {
			select {
			case <-writeDone:
			case <-searchDone:
			case <-time.After(5 * time.Second):
				stuck = true
				return false, fmt.Errorf("search and batch do not both return although no order was forced")
			}
		}
		return false, nil
	}
	// the first index's goroutine goes on: it takes the transaction's mutex and waits for the cache lock
	close(g1Go)
	waiting := false
	for i := 0; i < 2000 && !waiting; i++ {
		time.Sleep(500 * time.Microsecond)
		if isLockWait(goroutineStatusOf(g1Goid.Load())) {
			waiting = true
		}
	}
	if !waiting {
		releaseAll()
		stuck = true
		return false, fmt.Errorf("harness: the first index's goroutine does not wait for the cache lock")
	}
	close(g2Go) // the second goes on: it holds the manager's lock and waits for the transaction's mutex
	time.Sleep(20 * time.Millisecond)
	close(sGo) // the search leaves its callback
	for k := 0; k < 2; k++ {
		select {
		case err := <-writeDone:
			if err != nil {
				return true, fmt.Errorf("the batch failed: %v", err)
			}
		case <-searchDone:
		case <-time.After(4 * time.Second):
			stuck = true
			buf := make([]byte, 1<<20)
			n := runtime.Stack(buf, true)
			var waits []string
			for _, g := range strings.Split(string(buf[:n]), "\n\n") {
				if strings.Contains(g, "shard/cache.") && (strings.Contains(g, "sync.Mutex.Lock") || strings.Contains(g, "sync.RWMutex")) {
					lines := strings.Split(g, "\n")
					w := lines[0]
					for _, l := range lines {
						if strings.Contains(l, "shard/cache.(") {
							w += " " + strings.TrimSpace(l)
							break
						}
					}
					waits = append(waits, w)
				}
			}
			return true, fmt.Errorf("deadlock inside the cache manager: a search that held the read lock of the flat index's cache and a write batch on two vector indexes (cache limit 1 GiB) never return. The batch's goroutine for the flat index holds the transaction's mutex and waits for the cache lock; its goroutine for the graph index holds the manager's lock and waits for the transaction's mutex; the search waits for the manager's lock (to prune) before it releases its read lock. Goroutines waiting inside the cache manager: %v", waits)
		}
	}
	return true, nil
}

func closeOnce(ch chan struct{}) {
	defer func() { recover() }()
	close(ch)
}

func goroutineStatusOf(goid int64) string {
	buf := make([]byte, 1<<20)
	n := runtime.Stack(buf, true)
	for _, g := range strings.Split(string(buf[:n]), "\n\n") {
		var id int64
		var st string
		if _, err := fmt.Sscanf(g, "goroutine %d [%s", &id, &st); err == nil && id == goid {
			return st
		}
	}
	return ""
}

func isLockWait(status string) bool {
	return strings.HasPrefix(status, "sync.Mutex.Lock") || strings.HasPrefix(status, "sync.RWMutex.Lock") || strings.HasPrefix(status, "sync.RWMutex.RLock") || strings.HasPrefix(status, "semacquire")
}

// forcedCommitCycle: no search takes part. A write batch has committed its storage transaction and has not
// yet committed its cache transaction (it still holds the write lock of the flat index's cache); the next
// batch, which also feeds a second vector index without a cache, arrives: its goroutine for the flat index
// waits for that lock holding the transaction's mutex, its goroutine for the second index holds the
// manager's lock and waits for the transaction's mutex; then the first batch goes on to commit its cache
// transaction, which needs the manager's lock.
func forcedCommitCycle() (obtained bool, err error) {
	dir, cleanup := drive.CaseDir()
	path := filepath.Join(dir, "sharddb.bbolt")
	schema := models.IndexSchema{gen.PFlat: {Type: models.IndexTypeVectorFlat, VectorFlat: &models.IndexVectorFlatParameters{VectorSize: 2, DistanceMetric: models.DistanceEuclidean}},
		"second": {Type: models.IndexTypeVectorVamana, VectorVamana: &models.IndexVectorVamanaParameters{VectorSize: 2, DistanceMetric: models.DistanceEuclidean, SearchSize: 75, DegreeBound: 64, Alpha: 1.2}}}
	s, oerr := drive.Open(path, schema, 1<<20, drive.Manager(-1))
	if oerr != nil {
		cleanup()
		return false, oerr
	}
	stuck := false
	defer func() {
		cache.VerifLookupFn.Store(nil)
		s.Proxy.SetHooks(nil)
		if !stuck {
			s.Close()
			cleanup()
		}
	}()
	pt := func(i int, both bool) model.Point {
		var id uuid.UUID
		id[0], id[6], id[8], id[15] = byte(i), 0x40, 0x80, 1
		d := model.Doc{gen.PFlat: []float32{float32(i), 1}}
		if both {
			d["second"] = []float32{1, float32(i)}
		}
		return model.Point{Id: id, Doc: d}
	}
	if err := s.Insert([]model.Point{pt(1, false), pt(2, false)}); err != nil {
		return false, err
	}
	inStack := func(what string) bool {
		buf := make([]byte, 1<<16)
		return strings.Contains(string(buf[:runtime.Stack(buf, false)]), what)
	}
	t0Parked, t0Go := make(chan struct{}), make(chan struct{})
	g1Parked, g1Go := make(chan struct{}), make(chan struct{})
	g2Parked, g2Go := make(chan struct{}), make(chan struct{})
	var t0Once, g1Once, g2Once sync.Once
	var armT0, armT1 atomic.Bool
	var g1Goid atomic.Int64
	s.Proxy.SetHooks(&drive.Hooks{
		TxEnd: func(tx *drive.ProxyTx, err error) {
			if tx.Write && armT0.Load() {
				t0Once.Do(func() { close(t0Parked); <-t0Go })
			}
		},
		Op: func(tx *drive.ProxyTx, kind string, n int64) {
			if tx.Write && armT1.Load() && inStack("vamana.NewIndexVamana") && inStack("cache.(*Transaction).With") {
				g2Once.Do(func() { close(g2Parked); <-g2Go })
			}
		}})
	lookup := func(name string, readOnly bool) {
		if armT1.Load() && !readOnly && strings.HasSuffix(name, "index/vectorFlat/"+gen.PFlat) {
			g1Once.Do(func() { g1Goid.Store(drive.Goid()); close(g1Parked); <-g1Go })
		}
	}
	cache.VerifLookupFn.Store(&lookup)
	firstDone, secondDone := make(chan error, 1), make(chan error, 1)
	armT0.Store(true)
	go func() { firstDone <- s.Insert([]model.Point{pt(10, false), pt(11, false)}) }()
	select {
	case <-t0Parked:
	case <-time.After(3 * time.Second):
		stuck = true
		return false, fmt.Errorf("harness: the first batch did not reach the end of its storage transaction")
	}
	armT0.Store(false)
	armT1.Store(true)
	go func() { secondDone <- s.Insert([]model.Point{pt(100, true), pt(101, true)}) }()
	got1, got2 := false, false
	timeout := time.After(1500 * time.Millisecond)
	for !(got1 && got2) && timeout != nil {
		select {
		case <-g1Parked:
			got1, g1Parked = true, nil
		case <-g2Parked:
			got2, g2Parked = true, nil
		case <-timeout:
			timeout = nil
		}
	}
	if !(got1 && got2) {
		closeOnce(g1Go)
		closeOnce(g2Go)
		closeOnce(t0Go)
		for k := 0; k < 2; k++ {
			select {
			case <-firstDone:
			case <-secondDone:
			case <-time.After(5 * time.Second):
				stuck = true
				return false, fmt.Errorf("two write batches do not both return although no order was forced")
			}
		}
		return false, nil
	}
	close(g1Go)
	waiting := false
	for i := 0; i < 2000 && !waiting; i++ {
		time.Sleep(500 * time.Microsecond)
		if isLockWait(goroutineStatusOf(g1Goid.Load())) {
			waiting = true
		}
	}
	if !waiting {
		closeOnce(g2Go)
		closeOnce(t0Go)
		stuck = true
		return false, fmt.Errorf("harness: the second batch's goroutine for the flat index does not wait for the cache lock")
	}
	close(g2Go)
	time.Sleep(20 * time.Millisecond)
	close(t0Go)
	for k := 0; k < 2; k++ {
		select {
		case err := <-firstDone:
			if err != nil {
				return true, fmt.Errorf("the first batch failed: %v", err)
			}
		case err := <-secondDone:
			if err != nil {
				return true, fmt.Errorf("the second batch failed: %v", err)
			}
		case <-time.After(4 * time.Second):
			stuck = true
			return true, fmt.Errorf("deadlock inside the cache manager between two write batches: the first has committed its storage transaction and goes on to commit its cache transaction (it needs the manager's lock while it holds the flat index's cache), the second batch's goroutine for the flat index holds the transaction's mutex and waits for that cache, its goroutine for the graph index holds the manager's lock and waits for the transaction's mutex; neither batch returns and the manager's lock is held for good")
		}
	}
	return true, nil
}
