package c09

import (
	"fmt"
	"path/filepath"
	"sort"
	"sync"
	"testing"

	"github.com/google/uuid"
	"github.com/semafind/semadb/models"
	"github.com/semafind/semadb/shard/cache"
	"pgregory.net/rapid"
	"verif/drive"
	"verif/gen"
	"verif/model"
	"verif/oracle"
	"verif/vt"
)

// WritersCase: several writers issue their batches at the same time on one shard (no forced schedule).
// The storage engine serialises write transactions, so the outcome must be the one of applying the
// batches one after the other in the order in which their write transactions began - acceptance,
// reported ids and final state. The writers share one small pool of ids so that their batches collide:
// the same id inserted by two of them (also into an empty shard), updates and deletes of ids another
// writer inserts.
type WritersCase struct {
	Schema  models.IndexSchema `json:"schema"`
	Prefix  []gen.Step         `json:"prefix"`
	Writers [][]gen.Step       `json:"writers"`
	Cache   int64              `json:"cacheLimit"`
}

func genWriters(t *rapid.T) WritersCase {
	so := gen.SchemaOpts{Filters: true, MinProps: 1, Flat: rapid.Bool().Draw(t, "flat"), Vamana: rapid.IntRange(0, 2).Draw(t, "vamana") == 0, Text: rapid.IntRange(0, 2).Draw(t, "text") == 0, MaxDim: 3}
	schema := gen.Schema(t, so)
	c := WritersCase{Schema: schema, Cache: rapid.SampledFrom([]int64{-1, -1, 0, 1500}).Draw(t, "cache")}
	ho := gen.HistoryOpts{MaxSteps: 4, MaxBatch: 5, PoolSize: 8, FieldProb: 90, AllowRejected: true}
	g := gen.NewHistoryGen(t, schema, 1<<20, ho)
	if rapid.Bool().Draw(t, "hasPrefix") {
		c.Prefix = append(c.Prefix, g.Insert())
	}
	nw := rapid.IntRange(2, 3).Draw(t, "nwriters")
	for w := 0; w < nw; w++ {
		// every writer's batches are drawn against the state after the prefix only: what they meet at run
		// time depends on the interleaving
		gw := gen.NewHistoryGen(t, schema, 1<<20, ho)
		gw.Pool = g.Pool
		gw.M = g.M.Clone()
		var steps []gen.Step
		for i := 0; i < rapid.IntRange(1, 3).Draw(t, fmt.Sprintf("nb%d", w)); i++ {
			var st gen.Step
			switch rapid.IntRange(0, 5).Draw(t, fmt.Sprintf("k%d.%d", w, i)) {
			case 0, 1, 2:
				st = gw.Insert()
			case 3, 4:
				st = gw.Update()
			default:
				st = gw.Delete()
			}
			st.Note = ""
			steps = append(steps, st)
		}
		c.Writers = append(c.Writers, steps)
	}
	return c
}

type batchRun struct {
	writer, index int
	step          gen.Step
	beginT        int64 // logical begin time of its write transaction (0: none was opened)
	err           error
	ids           []uuid.UUID
}

func execWriters(c WritersCase) (res vt.Result) {
	rec := vt.R()
	dir, cleanup := drive.CaseDir()
	defer cleanup()
	path := filepath.Join(dir, "sharddb.bbolt")
	s, err := drive.Open(path, c.Schema, 1<<20, drive.Manager(c.Cache))
	if err != nil {
		return vt.Result{Err: err}
	}
	defer s.Close()
	m := model.NewCollection(c.Schema, 1<<20)
	for i, st := range c.Prefix {
		reason := m.Insert(st.Points)
		err := s.Insert(st.Points)
		if (err != nil) != (reason != "") {
			return vt.Result{Err: fmt.Errorf("prefix %d: insert returned %v, model says %q", i, err, reason)}
		}
		if reason != "" {
			m = model.NewCollection(c.Schema, 1<<20)
		}
	}
	// the begin time of the write transaction each goroutine currently runs
	var mu sync.Mutex
	lastBegin := map[int64]int64{}
	s.Proxy.SetHooks(&drive.Hooks{TxBegin: func(tx *drive.ProxyTx) {
		if tx.Write {
			mu.Lock()
			lastBegin[tx.Goid] = tx.BeginT
			mu.Unlock()
		}
	}})
	var runs []batchRun
	start := make(chan struct{})
	var wg sync.WaitGroup
	for w, steps := range c.Writers {
		wg.Add(1)
		go func(w int, steps []gen.Step) {
			defer wg.Done()
			goid := drive.Goid()
			<-start
			for i, st := range steps {
				mu.Lock()
				delete(lastBegin, goid)
				mu.Unlock()
				r := batchRun{writer: w, index: i, step: st}
				switch st.Kind {
				case "insert":
					r.err = s.Insert(st.Points)
				case "update":
					r.ids, r.err = s.Update(st.Points)
				case "delete":
					r.ids, r.err = s.Delete(st.Ids)
				}
				mu.Lock()
				r.beginT = lastBegin[goid]
				runs = append(runs, r)
				mu.Unlock()
			}
		}(w, steps)
	}
	var werr error
	if err := drive.Watch("the concurrent write batches", func() { close(start); wg.Wait() }); err != nil {
		werr = err
	}
	s.Proxy.SetHooks(nil)
	if werr != nil {
		return vt.Result{Err: werr}
	}
	if err := drive.StrayVerdict(s); err != nil {
		return vt.Result{Err: err}
	}
	// serial order: by the begin of the write transaction; batches that opened none had no effect
	sort.SliceStable(runs, func(i, j int) bool { return runs[i].beginT < runs[j].beginT })
	var order []string
	conflicts := 0
	for _, r := range runs {
		order = append(order, fmt.Sprintf("writer %d batch %d (%s, t=%d, err=%v)", r.writer, r.index, r.step.Kind, r.beginT, r.err != nil))
		before := m.Clone()
		var want []uuid.UUID
		reason := ""
		switch r.step.Kind {
		case "insert":
			reason = m.Insert(r.step.Points)
		case "update":
			want, reason = m.Update(r.step.Points)
		case "delete":
			want = m.Delete(r.step.Ids)
		}
		if reason != "" {
			m = before
		}
		if r.beginT == 0 {
			if r.err == nil {
				return vt.Result{Err: fmt.Errorf("writer %d batch %d (%s) reported success without a write transaction", r.writer, r.index, r.step.Kind)}
			}
			if reason == "" {
				m = before // rejected before any transaction although the model accepts: judged below
			}
		}
		if (r.err != nil) != (reason != "") {
			return vt.Result{Err: fmt.Errorf("in the order in which the write transactions began, writer %d batch %d (%s) returned %v but applying the batches one after the other gives %q at this point\norder: %v", r.writer, r.index, r.step.Kind, r.err, reason, order)}
		}
		if reason == "" && r.step.Kind != "insert" && len(r.ids) != len(want) {
			return vt.Result{Err: fmt.Errorf("writer %d batch %d (%s) reported %d ids, the serial order gives %d\norder: %v", r.writer, r.index, r.step.Kind, len(r.ids), len(want), order)}
		}
		if reason != "" {
			conflicts++
		}
	}
	pool := map[uuid.UUID]bool{}
	for _, st := range c.Prefix {
		for _, p := range st.Points {
			pool[p.Id] = true
		}
	}
	for _, ws := range c.Writers {
		for _, st := range ws {
			for _, p := range st.Points {
				pool[p.Id] = true
			}
			for _, id := range st.Ids {
				pool[id] = true
			}
		}
	}
	var ids []uuid.UUID
	for id := range pool {
		ids = append(ids, id)
	}
	sort.Slice(ids, func(i, j int) bool { return ids[i].String() < ids[j].String() })
	suite := oracle.Suite(c.Schema)
	if err := oracle.CheckDocs(s, m, ids); err != nil {
		return vt.Result{Err: fmt.Errorf("after the writers finished: %v\norder: %v", err, order)}
	}
	if v, err := s.InspectPoints(); err != nil {
		return vt.Result{Err: err}
	} else {
		live := map[uuid.UUID]bool{}
		for id := range m.Docs {
			live[id] = true
		}
		if err := v.Check(live); err != nil {
			return vt.Result{Err: fmt.Errorf("after the writers finished: point store: %v\norder: %v", err, order)}
		}
	}
	if err := oracle.CheckSuiteAgainstModel(s, m, suite); err != nil {
		return vt.Result{Err: fmt.Errorf("after the writers finished, warm instance: %v\norder: %v", err, order)}
	}
	cp := filepath.Join(dir, "cold.bbolt")
	if err := drive.CopyFile(path, cp); err != nil {
		return vt.Result{Err: err}
	}
	cold, err := drive.Open(cp, c.Schema, 1<<20, cache.NewManager(-1))
	if err != nil {
		return vt.Result{Err: err}
	}
	defer cold.Close()
	if err := oracle.CheckDocs(cold, m, ids); err != nil {
		return vt.Result{Err: fmt.Errorf("cold copy after the writers finished: %v\norder: %v", err, order)}
	}
	if err := oracle.CheckSuiteAgainstModel(cold, m, suite); err != nil {
		return vt.Result{Err: fmt.Errorf("cold copy after the writers finished: %v\norder: %v", err, order)}
	}
	rec.Count("concurrent_writer_cases", 1)
	rec.Count("batches_rejected_in_serial_order", int64(conflicts))
	return vt.Result{NonTrivial: conflicts > 0}
}

func TestPropWriters(t *testing.T)   { vt.Check(t, "writers", genWriters, execWriters) }
func TestReplayWriters(t *testing.T) { vt.Replay(t, "writers", execWriters) }
