package c09

import (
	"fmt"
	"path/filepath"
	"sync"
	"testing"

	"github.com/semafind/semadb/models"
	"pgregory.net/rapid"
	"verif/drive"
	"verif/gen"
	"verif/model"
	"verif/vt"
)

// Searches side by side, no writer. A search changes nothing, so on a fixed graph every search has one
// answer: the one it gives when it runs alone. Each generated query is first answered alone (which also
// warms the shared cache), then 2-8 goroutines ask the same queries at the same time, several rounds; every
// answer must be, row by row, the answer the query got alone. What the known finding D5 does in this
// setting (a search whose cache miss reads through another search's finished transaction) is seen by the
// storage proxy, which records the access and does not forward it: a case in which that happened is
// attributed to D5 and not judged. Everything else is: a search that returns another search's rows or
// distances, duplicates, rows in the wrong order.

type ReadersCase struct {
	N        int         `json:"n"`   // points
	Dim      int         `json:"dim"` //
	Seed     int         `json:"seed"`
	Flat     bool        `json:"flat"`    // a flat index instead of the graph
	Queries  [][]float32 `json:"queries"` // query vectors
	Limits   []int       `json:"limits"`
	Workers  int         `json:"workers"`
	Rounds   int         `json:"rounds"`
	ColdPart bool        `json:"coldPart"` // the shared cache is evicted before the concurrent phase (misses: D5 territory)
	PQ       bool        `json:"pq"`       // the index has a product quantiser, and enough points for it to be trained
}

func genReaders(t *rapid.T) ReadersCase {
	c := ReadersCase{N: rapid.IntRange(30, 400).Draw(t, "n"), Dim: rapid.IntRange(2, 6).Draw(t, "dim"), Seed: rapid.IntRange(1, 1000).Draw(t, "seed"),
		Flat: rapid.IntRange(0, 3).Draw(t, "flat") == 0, Workers: rapid.IntRange(2, 8).Draw(t, "workers"), Rounds: rapid.IntRange(1, 6).Draw(t, "rounds"),
		ColdPart: rapid.IntRange(0, 5).Draw(t, "coldPart") == 0}
	if rapid.IntRange(0, 7).Draw(t, "pq") == 0 {
		c.PQ, c.Dim, c.N, c.ColdPart = true, 2*rapid.IntRange(1, 3).Draw(t, "pqHalfDim"), rapid.IntRange(1005, 1040).Draw(t, "pqN"), false
	}
	nq := rapid.IntRange(2, 8).Draw(t, "nq")
	for i := 0; i < nq; i++ {
		c.Queries = append(c.Queries, gen.BulkVector(c.Seed+100+i, rapid.IntRange(0, 5000).Draw(t, fmt.Sprintf("qv%d", i)), c.Dim, models.DistanceEuclidean))
		c.Limits = append(c.Limits, rapid.SampledFrom([]int{1, 5, 10, 25}).Draw(t, fmt.Sprintf("ql%d", i)))
	}
	return c
}

func execReaders(c ReadersCase) (res vt.Result) {
	rec := vt.R()
	dir, cleanup := drive.CaseDir()
	defer cleanup()
	prop := gen.PVamana
	schema := models.IndexSchema{prop: {Type: models.IndexTypeVectorVamana, VectorVamana: &models.IndexVectorVamanaParameters{VectorSize: uint(c.Dim), DistanceMetric: models.DistanceEuclidean, SearchSize: 75, DegreeBound: 64, Alpha: 1.2}}}
	if c.Flat {
		prop = gen.PFlat
		schema = models.IndexSchema{prop: {Type: models.IndexTypeVectorFlat, VectorFlat: &models.IndexVectorFlatParameters{VectorSize: uint(c.Dim), DistanceMetric: models.DistanceEuclidean}}}
	}
	if c.PQ {
		q := &models.Quantizer{Type: models.QuantizerProduct, Product: &models.ProductQuantizerParameters{NumCentroids: 8, NumSubVectors: 2, TriggerThreshold: 1000}}
		sv := schema[prop]
		if c.Flat {
			sv.VectorFlat.Quantizer = q
		} else {
			sv.VectorVamana.Quantizer = q
		}
		schema[prop] = sv
		rec.Count("readers_cases_with_a_trained_product_quantiser", 1)
	}
	s, err := drive.Open(filepath.Join(dir, "sharddb.bbolt"), schema, 1<<20, drive.Manager(-1))
	if err != nil {
		return vt.Result{Err: err}
	}
	defer s.Close()
	var pts []model.Point
	for i := 0; i < c.N; i++ {
		v := gen.BulkVector(c.Seed, i, c.Dim, models.DistanceEuclidean)
		v[0] += float32(i) / 1024 // no two points alike: answers have no ties to break
		pts = append(pts, model.Point{Id: gen.BulkId(i), Doc: model.Doc{prop: v}})
	}
	for lo := 0; lo < len(pts); lo += 150 {
		if err := s.Insert(pts[lo:min(lo+150, len(pts))]); err != nil {
			return vt.Result{Err: fmt.Errorf("insert: %v", err)}
		}
	}
	request := func(qi int) models.SearchRequest {
		if c.Flat {
			return models.SearchRequest{Query: models.Query{Property: prop, VectorFlat: &models.SearchVectorFlatOptions{Vector: c.Queries[qi], Operator: models.OperatorNear, Limit: c.Limits[qi]}}}
		}
		return models.SearchRequest{Query: models.Query{Property: prop, VectorVamana: &models.SearchVectorVamanaOptions{Vector: c.Queries[qi], Operator: models.OperatorNear, SearchSize: 75, Limit: c.Limits[qi]}}}
	}
	alone := make([][]drive.Row, len(c.Queries))
	for qi := range c.Queries {
		if alone[qi], err = s.Search(request(qi)); err != nil {
			return vt.Result{Err: fmt.Errorf("query %d alone failed: %v", qi, err)}
		}
	}
	if err := drive.StrayVerdict(s); err != nil {
		return vt.Result{Err: fmt.Errorf("sequential phase: %v", err)}
	}
	if c.ColdPart {
		s.EvictCaches()
		rec.Count("readers_cases_starting_on_an_evicted_cache", 1)
	}
	type outcome struct {
		qi   int
		rows []drive.Row
		err  error
	}
	var mu sync.Mutex
	var outcomes []outcome
	var wg sync.WaitGroup
	start := make(chan struct{})
	for w := 0; w < c.Workers; w++ {
		wg.Add(1)
		go func(w int) {
			defer wg.Done()
			<-start
			for r := 0; r < c.Rounds; r++ {
				for k := range c.Queries {
					qi := (k + w) % len(c.Queries)
					rows, err := s.Search(request(qi))
					mu.Lock()
					outcomes = append(outcomes, outcome{qi, rows, err})
					mu.Unlock()
				}
			}
		}(w)
	}
	close(start)
	wg.Wait()
	if strays := s.Proxy.Strays(); len(strays) > 0 {
		// D5: a search read through a transaction that had ended (not forwarded by the proxy)
		rec.Known("D5", "readers: search reads through another search's finished transaction", fmt.Sprintf("%s on %s", strays[0].Op, strays[0].Bucket))
		rec.Count("readers_cases_attributed_to_D5", 1)
		return vt.Result{}
	}
	for _, o := range outcomes {
		if o.err != nil {
			return vt.Result{NonTrivial: true, Err: fmt.Errorf("query %d (limit %d) fails beside %d other searchers although no storage access went astray: %v", o.qi, c.Limits[o.qi], c.Workers-1, o.err)}
		}
		want := alone[o.qi]
		if len(o.rows) != len(want) {
			return vt.Result{NonTrivial: true, Err: fmt.Errorf("query %d (limit %d) returns %d rows beside other searchers, %d alone", o.qi, c.Limits[o.qi], len(o.rows), len(want))}
		}
		// (rows at equal distances may swap places from one execution to the next, and which of several
		// equally distant points makes the cut is free: ids are compared where the distance is unique)
		count := map[float32]int{}
		for i := range want {
			if want[i].Distance != nil {
				count[*want[i].Distance]++
			}
		}
		for i := range want {
			if (o.rows[i].Distance == nil) != (want[i].Distance == nil) || (want[i].Distance != nil && *o.rows[i].Distance != *want[i].Distance) {
				return vt.Result{NonTrivial: true, Err: fmt.Errorf("query %d (limit %d), row %d: beside other searchers the answer is %s at distance %v, alone it is %s at distance %v", o.qi, c.Limits[o.qi], i, o.rows[i].Id, deref(o.rows[i].Distance), want[i].Id, deref(want[i].Distance))}
			}
			unique := want[i].Distance != nil && count[*want[i].Distance] == 1 && i < len(want)-1
			if unique && o.rows[i].Id != want[i].Id {
				return vt.Result{NonTrivial: true, Err: fmt.Errorf("query %d (limit %d), row %d: beside other searchers the point at distance %v is %s, alone it is %s", o.qi, c.Limits[o.qi], i, deref(want[i].Distance), o.rows[i].Id, want[i].Id)}
			}
		}
	}
	rec.Count("readers_searches_side_by_side", int64(len(outcomes)))
	return vt.Result{NonTrivial: c.Workers >= 3 && len(outcomes) >= 20}
}

func deref(f *float32) any {
	if f == nil {
		return nil
	}
	return *f
}

func TestPropReaders(t *testing.T)   { vt.Check(t, "readers", genReaders, execReaders) }
func TestReplayReaders(t *testing.T) { vt.Replay(t, "readers", execReaders) }
