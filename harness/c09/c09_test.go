package c09

import (
	"errors"
	"fmt"
	"os"
	"path/filepath"
	"regexp"
	"runtime"
	"sort"
	"strconv"
	"strings"
	"sync"
	"sync/atomic"
	"testing"
	"time"

	"github.com/google/uuid"
	"github.com/semafind/semadb/models"
	"github.com/semafind/semadb/shard/cache"
	"pgregory.net/rapid"
	"verif/drive"
	"verif/gen"
	"verif/model"
	"verif/oracle"
	"verif/vt"
)

func TestMain(m *testing.M) {
	vt.JournalCases = true
	vt.OnExit(drive.Cleanup)
	vt.Main(m, "C09")
}

// Case: a populated shard, one writer program, several searcher programs, a
// cache regime and a schedule (who is released from its pause point next).
type Case struct {
	Schema    models.IndexSchema `json:"schema"`
	Prefix    []gen.Step         `json:"prefix"`
	Writer    []gen.Step         `json:"writer"`
	Searchers [][]models.Query   `json:"searchers"`
	Regime    string             `json:"regime"` // R1 cache disabled | R2 shared cache, at most one search in flight | R3 shared cache, several searches
	Warmth    string             `json:"warmth"` // cold | partly | warm
	Schedule  []int              `json:"schedule"`
	// CacheCap > 0 bounds the shared cache to that many bytes (caches are pruned when transactions end); 0 = unbounded
	CacheCap int64 `json:"cacheCap,omitempty"`
	// FailCommit lists writer batches whose storage commit is made to fail after the batch body succeeded
	FailCommit []int `json:"failCommit,omitempty"`
	// Rename: the case runs with these index property names instead of the generators' fixed ones (names
	// that are unusual as components of bucket and cache names)
	Rename gen.Rename `json:"rename,omitempty"`
	// FirstNodeId > 0: the shard's next internal node id is preset (see gen.History.FirstNodeId)
	FirstNodeId uint64 `json:"firstNodeId,omitempty"`
}

func genCase(t *rapid.T) Case {
	so := gen.SchemaOpts{Filters: true, MinProps: 1, Flat: rapid.Bool().Draw(t, "flat"), Vamana: rapid.IntRange(0, 3).Draw(t, "vamana") > 0, Text: rapid.Bool().Draw(t, "text"), MaxDim: 3,
		Quantizer: rapid.IntRange(0, 3).Draw(t, "quant") == 0}
	schema := gen.Schema(t, so)
	ho := gen.HistoryOpts{MaxSteps: 6, MaxBatch: 8, PoolSize: 20, FieldProb: 90}
	c := Case{Schema: schema, Regime: rapid.SampledFrom([]string{"R1", "R2", "R2", "R3"}).Draw(t, "regime"), Warmth: rapid.SampledFrom([]string{"cold", "partly", "warm"}).Draw(t, "warmth")}
	g := gen.NewHistoryGen(t, schema, 1<<20, ho)
	np := rapid.IntRange(1, 3).Draw(t, "nprefix")
	for i := 0; i < np; i++ {
		c.Prefix = append(c.Prefix, g.Insert())
	}
	nsearchers := rapid.IntRange(1, 3).Draw(t, "nsearchers")
	if c.Regime == "R3" {
		nsearchers = rapid.IntRange(1, 4).Draw(t, "nsearchersR3")
	}
	c.Searchers = make([][]models.Query, nsearchers)
	nw := rapid.IntRange(1, 4).Draw(t, "nwrites")
	for i := 0; i < nw; i++ {
		var st gen.Step
		for {
			st = g.Next()
			if st.Kind == "insert" || st.Kind == "update" || st.Kind == "delete" {
				break
			}
		}
		c.Writer = append(c.Writer, st)
		// queries are drawn against the evolving private model so that they aim at live data
		for j := range c.Searchers {
			if rapid.IntRange(0, 1).Draw(t, fmt.Sprintf("sq%d.%d", i, j)) == 0 || len(c.Searchers[j]) == 0 {
				q := gen.AnyQuery(t, fmt.Sprintf("q%d.%d", i, j), g.M, g.Pool)
				gen.MustValid(q, schema)
				c.Searchers[j] = append(c.Searchers[j], q)
			}
		}
	}
	if c.Regime != "R1" && rapid.IntRange(0, 2).Draw(t, "bounded") == 0 {
		c.CacheCap = rapid.SampledFrom([]int64{1, 300, 1500, 6000}).Draw(t, "cacheCap")
	}
	for i := range c.Writer {
		if rapid.IntRange(0, 7).Draw(t, fmt.Sprintf("failCommit%d", i)) == 0 {
			c.FailCommit = append(c.FailCommit, i)
		}
	}
	n := rapid.IntRange(0, 40).Draw(t, "nsched")
	for i := 0; i < n; i++ {
		c.Schedule = append(c.Schedule, rapid.IntRange(0, nsearchers).Draw(t, fmt.Sprintf("s%d", i)))
	}
	if rapid.IntRange(0, 3).Draw(t, "rename") == 0 {
		c.Rename = gen.GenRename(t, schema)
	}
	if rapid.IntRange(0, 7).Draw(t, "highIds") == 0 {
		c.FirstNodeId = gen.GenFirstNodeId(t, "firstNode")
	}
	return c
}

// ---------------------------------------------------------------------------

type participant struct {
	idx    int
	name   string
	goid   int64
	parked chan string // participant -> scheduler: reached pause point
	goCh   chan struct{}
	done   chan struct{}
	// current operation bookkeeping (timeline)
	preT, beginT, preEndT, endT int64
	txWrite                     bool
	txErr                       error
	bodyDone                    atomic.Bool // the body of the current read transaction has returned (no more cache use)
}

type searchRecord struct {
	searcher     int
	query        models.Query
	preT         int64
	beginT, endT int64
	rows         []drive.Row
	err          error
}

type world struct {
	mu            sync.Mutex
	s             *drive.Shard
	parts         []*participant
	byGoid        map[int64]*participant
	versions      []*model.Collection // versions[k] = committed state after k writer batches (0 = after the prefix)
	commitT       []int64             // version k became visible before commitT[k] ...
	preT          []int64             // ... and after preT[k] (both 0 for version 0)
	searches      []searchRecord
	viol          error
	trace         []string
	failedCommits int
	cacheWindows  [][2]int64 // per writer batch: [before its storage commit, when it was released to commit its caches]
}

func (w *world) logf(f string, a ...any) {
	w.mu.Lock()
	w.trace = append(w.trace, fmt.Sprintf(f, a...))
	w.mu.Unlock()
}

func (w *world) violate(f string, a ...any) {
	w.mu.Lock()
	if w.viol == nil {
		w.viol = fmt.Errorf(f, a...)
	}
	w.mu.Unlock()
}

var headerRe = regexp.MustCompile(`(?m)^goroutine (\d+) \[([^\]]+)\]:`)

// quiet reports whether no goroutine that runs semadb or harness participant code is runnable.
func quiet(self int64) bool {
	buf := make([]byte, 4<<20)
	n := runtime.Stack(buf, true)
	for n == len(buf) { // the dump must be complete: a goroutine missing from it would count as gone
		buf = make([]byte, 2*len(buf))
		n = runtime.Stack(buf, true)
	}
	for _, block := range strings.Split(string(buf[:n]), "\n\n") {
		m := headerRe.FindStringSubmatch(block)
		if m == nil {
			continue
		}
		id, _ := strconv.ParseInt(m[1], 10, 64)
		if id == self {
			continue
		}
		if !strings.Contains(block, "semadb/") && !strings.Contains(block, "verif/c09.") && !strings.Contains(block, "bbolt") {
			continue
		}
		st := m[2]
		if strings.HasPrefix(st, "chan receive") || strings.HasPrefix(st, "chan send") || strings.HasPrefix(st, "select") || strings.HasPrefix(st, "sync.") || strings.HasPrefix(st, "semacquire") {
			continue
		}
		return false
	}
	return true
}

func (w *world) settle() {
	self := drive.Goid()
	stable := 0
	for i := 0; i < 400000; i++ {
		if quiet(self) {
			stable++
			if stable >= 3 {
				return
			}
			runtime.Gosched()
			time.Sleep(30 * time.Microsecond)
			continue
		}
		stable = 0
		runtime.Gosched()
		if i%10 == 9 {
			time.Sleep(20 * time.Microsecond)
		}
	}
	w.violate("the system does not come to rest")
}

func (p *participant) pause(w *world, point string) {
	p.parked <- point
	<-p.goCh
}

func applyToShard(s *drive.Shard, st gen.Step) ([]uuid.UUID, error) {
	switch st.Kind {
	case "insert":
		return nil, s.Insert(st.Points)
	case "update":
		return s.Update(st.Points)
	case "delete":
		return s.Delete(st.Ids)
	}
	return nil, fmt.Errorf("not a write")
}

func execCase(c Case) (res vt.Result) {
	rec := vt.R()
	if len(c.Rename) > 0 {
		rec.Count("cases_with_renamed_properties", 1)
	}
	dir, cleanup := drive.CaseDir()
	defer cleanup()
	path := filepath.Join(dir, "sharddb.bbolt")
	var mgr *cache.Manager
	if c.Regime != "R1" {
		mgr = cache.NewManager(-1)
		if c.CacheCap > 0 {
			mgr = cache.NewManager(c.CacheCap)
		}
	}
	s, err := drive.OpenNamed(path, c.Schema, 1<<20, mgr, c.Rename)
	if err != nil {
		return vt.Result{Err: err}
	}
	if c.FirstNodeId > 0 {
		if err := s.PresetNextNodeId(c.FirstNodeId); err != nil {
			s.Close()
			return vt.Result{Err: err}
		}
		rec.Count("cases_with_preset_node_ids", 1)
	}
	var parts []*participant
	defer func() {
		// let every participant run to its end without further pauses; if they do not finish (a genuine
		// deadlock) the shard cannot be closed and is left behind
		s.Proxy.SetHooks(nil)
		deadline := time.Now().Add(3 * time.Second)
		for _, p := range parts {
			for !isDone(p) && time.Now().Before(deadline) {
				select {
				case p.goCh <- struct{}{}:
				case <-p.parked:
				case <-p.done:
				case <-time.After(time.Millisecond):
				}
			}
		}
		for _, p := range parts {
			if !isDone(p) {
				return
			}
		}
		s.Close()
	}()
	m := model.NewCollection(c.Schema, 1<<20)
	m.SizeNames = c.Rename
	for i, st := range c.Prefix {
		if reason := m.Insert(st.Points); reason != "" {
			return vt.Result{Err: fmt.Errorf("prefix %d rejected by the model: %s", i, reason)}
		}
		if err := s.Insert(st.Points); err != nil {
			return vt.Result{Err: fmt.Errorf("prefix %d: %v", i, err)}
		}
	}
	// cache temperature
	s.EvictCaches()
	switch c.Warmth {
	case "partly":
		if len(c.Searchers[0]) > 0 {
			s.Search(models.SearchRequest{Query: c.Searchers[0][0], Limit: 1})
		}
	case "warm":
		for _, qs := range c.Searchers {
			for _, q := range qs {
				s.Search(models.SearchRequest{Query: q})
			}
		}
	}
	if err := drive.StrayVerdict(s); err != nil {
		return vt.Result{Err: fmt.Errorf("while populating: %v", err)}
	}
	w := &world{s: s, byGoid: map[int64]*participant{}, versions: []*model.Collection{m.Clone()}, commitT: []int64{0}, preT: []int64{0}}
	// hooks: pause right after a transaction began and right after it ended (commit returned / read finished)
	hooks := &drive.Hooks{
		TxBegin: func(tx *drive.ProxyTx) {
			w.mu.Lock()
			p := w.byGoid[tx.Goid]
			w.mu.Unlock()
			if p == nil {
				return
			}
			p.preT, p.beginT = tx.PreT, tx.BeginT
			p.txWrite = tx.Write
			p.bodyDone.Store(false)
			p.pause(w, "begin")
		},
		TxBodyDone: func(tx *drive.ProxyTx) {
			w.mu.Lock()
			p := w.byGoid[tx.Goid]
			w.mu.Unlock()
			if p != nil {
				p.bodyDone.Store(true)
			}
		},
		TxEnd: func(tx *drive.ProxyTx, err error) {
			w.mu.Lock()
			p := w.byGoid[tx.Goid]
			w.mu.Unlock()
			if p == nil {
				return
			}
			p.preEndT, p.endT = tx.PreEndT, tx.EndT
			p.txErr = err
			p.pause(w, "end")
		},
	}
	nparts := 1 + len(c.Searchers)
	for i := 0; i < nparts; i++ {
		name := "writer"
		if i > 0 {
			name = fmt.Sprintf("searcher %d", i)
		}
		w.parts = append(w.parts, &participant{idx: i, name: name, parked: make(chan string, 4), goCh: make(chan struct{}), done: make(chan struct{})})
	}
	parts = w.parts
	// participants: they register, then wait for the start signal; the hooks are installed before
	s.Proxy.SetHooks(hooks)
	start := make(chan struct{})
	wm := m.Clone() // the writer's sequential model
	ready := make(chan struct{}, nparts)
	go func() {
		p := w.parts[0]
		p.goid = drive.Goid()
		w.mu.Lock()
		w.byGoid[p.goid] = p
		w.mu.Unlock()
		ready <- struct{}{}
		<-start
		defer close(p.done)
		for bi, st := range c.Writer {
			before := wm.Clone()
			var want []uuid.UUID
			reason := ""
			switch st.Kind {
			case "insert":
				reason = wm.Insert(st.Points)
			case "update":
				want, reason = wm.Update(st.Points)
			case "delete":
				want = wm.Delete(st.Ids)
			}
			injected := false
			for _, k := range c.FailCommit {
				injected = injected || k == bi
			}
			if injected {
				s.Proxy.Arm(&drive.Plan{FailCommit: true})
			}
			got, err := applyToShard(s, st)
			if injected {
				s.Proxy.Arm(nil)
				if reason == "" {
					if err == nil || !errors.Is(err, drive.ErrInjected) && !strings.Contains(err.Error(), drive.ErrInjected.Error()) {
						w.violate("writer batch %d (%s): the storage commit was made to fail but the call returned %v", bi, st.Kind, err)
						return
					}
					reason = "injected commit failure"
					w.mu.Lock()
					w.failedCommits++
					w.mu.Unlock()
				}
			}
			if (err != nil) != (reason != "") {
				w.violate("writer batch %d (%s) returned %v, model says %q", bi, st.Kind, err, reason)
				return
			}
			if reason != "" {
				wm = before
			} else if st.Kind != "insert" && len(got) != len(want) {
				w.violate("writer batch %d (%s) reported %d ids, %d requested ids existed", bi, st.Kind, len(got), len(want))
				return
			}
			w.mu.Lock()
			if reason == "" {
				w.versions = append(w.versions, wm.Clone())
				w.commitT = append(w.commitT, p.endT)
				w.preT = append(w.preT, p.preEndT)
			}
			w.trace = append(w.trace, fmt.Sprintf("  writer batch %d (%s) done at t=%d, versions=%d", bi, st.Kind, p.endT, len(w.versions)))
			w.mu.Unlock()
		}
	}()
	for j := range c.Searchers {
		go func(j int) {
			p := w.parts[j+1]
			p.goid = drive.Goid()
			w.mu.Lock()
			w.byGoid[p.goid] = p
			w.mu.Unlock()
			ready <- struct{}{}
			<-start
			defer close(p.done)
			for _, q := range c.Searchers[j] {
				rows, err := s.Search(models.SearchRequest{Query: q, Select: []string{"*"}})
				w.mu.Lock()
				w.searches = append(w.searches, searchRecord{searcher: j + 1, query: q, preT: p.preT, beginT: p.beginT, endT: p.endT, rows: rows, err: err})
				w.trace = append(w.trace, fmt.Sprintf("  %s finished a search [t=%d..%d] err=%v", p.name, p.beginT, p.endT, err))
				w.mu.Unlock()
			}
		}(j)
	}
	for i := 0; i < nparts; i++ {
		<-ready
	}
	close(start)
	// start everybody: each runs until its first pause point
	state := make([]string, nparts) // "" running/blocked, "begin"/"end" parked, "done"
	w.settleAll(state)
	inFlightSearches := func() int {
		n := 0
		for i := 1; i < nparts; i++ {
			if state[i] == "end" || (state[i] == "" && !isDone(w.parts[i])) {
				n++
			}
		}
		return n
	}
	releasedFrom := make([]string, nparts)
	move := func(i int) bool {
		p := w.parts[i]
		if state[i] == "done" {
			return false
		}
		if state[i] == "" {
			// blocked inside semadb (waits for a lock held by a parked participant): nothing to release
			w.settleAll(state)
			return state[i] != ""
		}
		// regime R2 (strict): searches never overlap a commit and never run side by side, so that the
		// catalogued defect D5 cannot occur by construction:
		//  - a searcher leaves "begin" only while no other searcher is running;
		//  - the writer leaves "end" (its cache locks are released right after) only when every searcher is
		//    at "end" / done, or parked at "begin" with a snapshot taken after this commit
		if c.Regime == "R2" {
			if i > 0 && state[i] == "begin" {
				for k := 1; k < nparts; k++ {
					// in flight: released from "begin", not yet parked at "end" (a searcher released from
					// "end" that has not reached "begin" yet is blocked before its transaction began)
					if k != i && state[k] == "" && releasedFrom[k] == "begin" && !w.parts[k].bodyDone.Load() {
						return false
					}
				}
			}
			if i == 0 && state[0] == "end" {
				for k := 1; k < nparts; k++ {
					switch state[k] {
					case "end", "done":
					case "begin":
						if w.parts[k].preT <= w.parts[0].endT {
							return false
						}
					default:
						if releasedFrom[k] == "begin" && !w.parts[k].bodyDone.Load() {
							return false
						}
					}
				}
			}
		}
		w.logf("release %s from %q", p.name, state[i])
		if i == 0 && state[0] == "end" {
			// the window between the storage commit of a batch and the commit of its cache transaction
			w.mu.Lock()
			w.cacheWindows = append(w.cacheWindows, [2]int64{p.preEndT, w.s.Proxy.Now()})
			w.mu.Unlock()
		}
		releasedFrom[i] = state[i]
		state[i] = ""
		p.goCh <- struct{}{}
		w.settleAll(state)
		return true
	}
	_ = inFlightSearches
	for _, k := range c.Schedule {
		if w.viol != nil {
			break
		}
		move(k % nparts)
	}
	for round := 0; w.viol == nil; round++ {
		progress, all := false, true
		for i := range w.parts {
			if state[i] != "done" {
				all = false
				if move(i) {
					progress = true
				}
			}
		}
		if all {
			break
		}
		if !progress {
			var who []string
			for i, p := range w.parts {
				if state[i] != "done" {
					who = append(who, fmt.Sprintf("%s (%q)", p.name, state[i]))
				}
			}
			dump := ""
			if os.Getenv("VERIF_DEBUG") != "" {
				buf := make([]byte, 4<<20)
				dump = string(buf[:runtime.Stack(buf, true)])
			}
			w.violate("no participant can make progress although every pause point was released: %v%s", who, dump)
		}
		if round > 2000 {
			w.violate("drain does not terminate")
		}
	}
	s.Proxy.SetHooks(nil)
	if w.viol != nil {
		// leave the goroutines behind (they may be blocked for good); the shard is not closed cleanly then
		res.Err = fmt.Errorf("%v\nschedule:\n  %s", w.viol, strings.Join(w.trace, "\n  "))
		return res
	}
	// ---- oracle
	spansCommit, coldPath, poisoned := false, false, false
	strays := s.Proxy.Strays()
	for _, st := range strays {
		if c.Regime == "R3" && !st.TxWrite {
			rec.Known("D5", "R3: search reads through another search's finished transaction", fmt.Sprintf("%s on %s", st.Op, st.Bucket))
			continue
		}
		res.Err = fmt.Errorf("regime %s: storage access after the end of its transaction (%s on %s, write=%v)\n%s\nschedule:\n  %s", c.Regime, st.Op, st.Bucket, st.TxWrite, st.Stack, strings.Join(w.trace, "\n  "))
		return res
	}
	for _, sr := range w.searches {
		// versions possibly current at some moment of the search: version k became visible in
		// (preT[k], commitT[k]) and was replaced in (preT[k+1], commitT[k+1]); the search's snapshot was
		// taken in (sr.preT, sr.beginT) and the search ended at sr.endT
		lo, hi := len(w.versions)-1, 0
		for k := range w.versions {
			replacedBeforeSearch := k+1 < len(w.versions) && w.commitT[k+1] <= sr.preT
			visibleBeforeEnd := w.preT[k] < sr.endT
			if !replacedBeforeSearch && visibleBeforeEnd {
				if k < lo {
					lo = k
				}
				if k > hi {
					hi = k
				}
			}
		}
		// versions that may be the search's snapshot
		slo, shi := len(w.versions)-1, 0
		for k := range w.versions {
			replacedBeforeSnap := k+1 < len(w.versions) && w.commitT[k+1] <= sr.preT
			visibleBeforeSnap := w.preT[k] < sr.beginT
			if !replacedBeforeSnap && visibleBeforeSnap {
				if k < slo {
					slo = k
				}
				if k > shi {
					shi = k
				}
			}
		}
		if hi > lo {
			spansCommit = true
		}
		if sr.err != nil {
			msg := sr.err.Error()
			if c.Regime == "R3" && strings.Contains(msg, "point does not exist") {
				rec.Known("D5", "R3: shared cache out of step with the search's snapshot", msg)
				poisoned = true
				continue
			}
			if c.Regime == "R3" && len(strays) > 0 {
				rec.Known("D5", "R3: search fails after reading through another search's finished transaction", msg)
				continue
			}
			if c.Regime == "R2" && c.CacheCap > 0 && strings.Contains(msg, "point does not exist") {
				// D5 once more, a path the strict regime cannot rule out when the shared cache is bounded: the
				// writer's cache was pruned from the manager while it held it, an older search built a replacement
				// from pre-commit storage, and this search - begun after the storage commit, before the writer's
				// cache commit retires the replacement - reads it with a snapshot it does not belong to
				inWindow := false
				for _, cw := range w.cacheWindows {
					if sr.preT <= cw[1] && sr.endT >= cw[0] {
						inWindow = true
					}
				}
				if inWindow {
					rec.Known("D5", "R2 with a bounded cache: search between a batch's storage commit and its cache commit reads a replacement cache built from pre-commit storage", msg)
					continue
				}
			}
			res.Err = fmt.Errorf("regime %s: %s's search (t=%d..%d, versions %d..%d) failed: %v\nschedule:\n  %s", c.Regime, w.parts[sr.searcher].name, sr.beginT, sr.endT, lo, hi, sr.err, strings.Join(w.trace, "\n  "))
			return res
		}
		if c.Regime == "R3" && len(strays) > 0 {
			continue // answers computed through a finished transaction are not judged further (catalogued D5)
		}
		seen := model.IdSet{}
		for _, r := range sr.rows {
			if seen.Has(r.Id) {
				res.Err = fmt.Errorf("regime %s: a search returned %s twice", c.Regime, r.Id)
				return res
			}
			seen.Add(r.Id)
			ok := false
			for k := lo; k <= hi; k++ {
				if d, live := w.versions[k].Docs[r.Id]; live && model.DocEqual(map[string]any(d), r.Doc) {
					ok = true
				}
			}
			if !ok {
				var hist []string
				for k := lo; k <= hi; k++ {
					if d, live := w.versions[k].Docs[r.Id]; live {
						hist = append(hist, fmt.Sprintf("v%d: %s", k, model.Show(map[string]any(d))))
					} else {
						hist = append(hist, fmt.Sprintf("v%d: absent", k))
					}
				}
				res.Err = fmt.Errorf("regime %s: %s's search (t=%d..%d) returned %s with document %s; committed versions during the search: %v\nschedule:\n  %s", c.Regime, w.parts[sr.searcher].name, sr.beginT, sr.endT, r.Id, model.Show(r.Doc), hist, strings.Join(w.trace, "\n  "))
				return res
			}
		}
		// cache disabled: snapshot isolation makes the answer exactly the snapshot's answer for filters
		if c.Regime == "R1" && isFilter(sr.query) && slo == shi {
			b, err := w.versions[slo].EvalFilter(sr.query)
			if err == nil {
				if err := b.Check(drive.RowIds(sr.rows)); err != nil {
					res.Err = fmt.Errorf("regime R1: a filter search that began at version %d does not answer from its snapshot: %v", slo, err)
					return res
				}
			}
		}
	}
	_ = coldPath
	// final state == sequential model; warm == cold
	final := w.versions[len(w.versions)-1]
	var pool []uuid.UUID
	for _, id := range gen.IdPool(20) {
		pool = append(pool, id)
	}
	if err := oracle.CheckDocs(s, final, pool); err != nil {
		res.Err = fmt.Errorf("after the writer finished: %v\nschedule:\n  %s", err, strings.Join(w.trace, "\n  "))
		return res
	}
	suite := oracle.Suite(c.Schema)
	if len(strays) == 0 {
		finalErr := func() error {
			warm, err := oracle.Observe(s, pool, suite, oracle.ObserveOpts{GraphLists: true})
			if err != nil {
				return fmt.Errorf("after the writer finished, warm instance: %v", err)
			}
			cp := filepath.Join(dir, "final-copy.bbolt")
			if err := drive.CopyFile(path, cp); err != nil {
				return err
			}
			cold, err := drive.OpenNamed(cp, c.Schema, 1<<20, cache.NewManager(-1), c.Rename)
			if err != nil {
				return err
			}
			coldObs, err := oracle.Observe(cold, pool, suite, oracle.ObserveOpts{GraphLists: true})
			cold.Close()
			if err != nil {
				return fmt.Errorf("after the writer finished, cold copy: %v", err)
			}
			if d := warm.Diff(coldObs); d != "" {
				return fmt.Errorf("after the writer finished the warm instance and a cold copy of its file answer differently: %s", d)
			}
			return oracle.CheckSuiteAgainstModel(s, final, suite)
		}()
		if finalErr != nil {
			if c.Regime == "R3" {
				// a search with an older snapshot re-populated the shared cache with items a committed batch had
				// removed or changed (catalogued D5): the warm cache stays wrong until it is evicted
				rec.Known("D5", "R3: shared cache left out of step with storage after overlapping searches", finalErr.Error())
			} else {
				res.Err = fmt.Errorf("regime %s: %v\nschedule:\n  %s", c.Regime, finalErr, strings.Join(w.trace, "\n  "))
				return res
			}
		}
	}
	_ = poisoned
	rec.Count("regime_"+c.Regime, 1)
	if c.CacheCap > 0 {
		rec.Count("cases_with_bounded_cache", 1)
	}
	rec.Count("writer_batches_with_failed_commit", int64(w.failedCommits))
	rec.Count("searches", int64(len(w.searches)))
	if spansCommit {
		rec.Count("cases_with_search_spanning_commit", 1)
	}
	res.NonTrivial = spansCommit
	return res
}

func isDone(p *participant) bool {
	select {
	case <-p.done:
		return true
	default:
		return false
	}
}

func isFilter(q models.Query) bool {
	if q.VectorFlat != nil || q.VectorVamana != nil || q.Text != nil {
		return false
	}
	for _, s := range q.And {
		if !isFilter(s) {
			return false
		}
	}
	for _, s := range q.Or {
		if !isFilter(s) {
			return false
		}
	}
	return true
}

// settleAll waits for the system to come to rest and collects who is parked where.
func (w *world) settleAll(state []string) {
	w.settle()
	for i, p := range w.parts {
		for {
			select {
			case pt := <-p.parked:
				state[i] = pt
				continue
			default:
			}
			break
		}
		if isDone(p) {
			state[i] = "done"
		}
	}
}

var _ = sort.Strings

func TestPropConcurrent(t *testing.T)   { vt.Check(t, "concurrent", genCase, execCase) }
func TestReplayConcurrent(t *testing.T) { vt.Replay(t, "concurrent", execCase) }

// ---------------------------------------------------------------------------
// Probe of the catalogued finding D5(a) with a fixed case and a fixed schedule:
// a flat search takes its snapshot, an insert batch then commits completely
// (storage and cache), and only then does the search touch the shared cache,
// which now names nodes its snapshot does not contain. The random schedules of
// the main job meet D5 in most but not in all runs; the probe makes the
// KNOWN-FINDING line independent of that. If the defect is ever repaired the
// probe simply stops observing it.
func TestPropD5Probe(t *testing.T) {
	rec := vt.R()
	schema := models.IndexSchema{gen.PFlat: {Type: models.IndexTypeVectorFlat, VectorFlat: &models.IndexVectorFlatParameters{VectorSize: 2, DistanceMetric: models.DistanceEuclidean}}}
	pt := func(i int) model.Point {
		var id uuid.UUID
		id[0], id[6], id[8], id[15] = byte(i), 0x40, 0x80, 1
		return model.Point{Id: id, Doc: model.Doc{gen.PFlat: []float32{float32(i), 1}}}
	}
	c := Case{Schema: schema, Regime: "R3", Warmth: "warm",
		Prefix:    []gen.Step{{Kind: "insert", Points: []model.Point{pt(1), pt(2), pt(3)}}},
		Writer:    []gen.Step{{Kind: "insert", Points: []model.Point{pt(4), pt(5), pt(6)}}},
		Searchers: [][]models.Query{{{Property: gen.PFlat, VectorFlat: &models.SearchVectorFlatOptions{Vector: []float32{0, 0}, Operator: models.OperatorNear, Limit: 10}}}},
		Schedule:  []int{0, 0, 1, 1}}
	// the schedule only orders the pause points; whether the search reaches the cache after the cache
	// commit still depends on the runtime in a minority of runs, so the probe repeats until it has seen it
	for trial := 1; trial <= 40; trial++ {
		rec.Eval()
		res := execCase(c)
		if res.Err != nil {
			p := vt.WriteReplay("d5probe", c, res.Err)
			rec.Violation("d5probe", p, res.Err.Error())
			t.Fatalf("%v", res.Err)
		}
		rec.Count("d5_probe_runs", 1)
		if rec.KnownCount() > 0 {
			rec.Max("d5_probe_trials_until_observed", int64(trial))
			return
		}
	}
	rec.Count("d5_not_observed_by_probe", 1)
}
