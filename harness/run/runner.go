// Package run applies generated history steps to a real shard and to the
// reference model in lock step.
package run

import (
	"fmt"
	"path/filepath"
	"runtime"

	"github.com/google/uuid"
	"github.com/semafind/semadb/shard/cache"
	"verif/drive"
	"verif/gen"
	"verif/model"
	"verif/vt"
)

// Runner holds a live shard and the model of what it must contain.
type Runner struct {
	S       *drive.Shard
	M       *model.Collection
	H       gen.History
	Dir     string
	Path    string
	Mgr     *cache.Manager
	base    int
	cleanup func()
	copies  int
	Dead    bool // a step deadlocked inside the shard: it cannot be closed any more
}

// StepInfo says what a step did.
type StepInfo struct {
	Wrote    bool // a write batch succeeded
	Rejected bool // a write batch was rejected (model and shard agree)
	Before   *model.Collection
	Updated  []uuid.UUID
	Deleted  []uuid.UUID
}

// New opens a fresh file-backed shard for the history.
func New(h gen.History) (*Runner, error) {
	dir, cleanup := drive.CaseDir()
	r := &Runner{H: h, Dir: dir, Path: filepath.Join(dir, "sharddb.bbolt"), Mgr: drive.Manager(h.CacheLimit), cleanup: cleanup}
	s, err := drive.OpenNamed(r.Path, h.Schema, h.MaxPointSize, r.Mgr, h.Rename)
	if err != nil {
		cleanup()
		return nil, err
	}
	if h.FirstNodeId > 0 {
		if err := s.PresetNextNodeId(h.FirstNodeId); err != nil {
			s.Close()
			cleanup()
			return nil, err
		}
	}
	r.S = s
	r.M = model.NewCollection(h.Schema, h.MaxPointSize)
	r.M.SizeNames = h.Rename
	if len(h.Rename) > 0 {
		vt.R().Count("cases_with_renamed_properties", 1)
	}
	r.base = runtime.NumGoroutine()
	return r, nil
}

// Close closes the shard and removes the case directory.
func (r *Runner) Close() {
	if r.S != nil && !r.Dead {
		r.S.Close()
	}
	r.cleanup()
}

// Apply executes one step on the model and on the shard and checks that they
// agree on acceptance and on the reported ids.
func (r *Runner) Apply(st gen.Step) (info StepInfo, err error) {
	// a step that never returns because every goroutine is parked on a lock is a deadlock inside the
	// shard (see drive.Watch); the instance cannot be closed afterwards
	if werr := drive.Watch(fmt.Sprintf("the %s step", st.Kind), func() { info, err = r.apply(st) }); werr != nil {
		r.Dead = true
		return info, werr
	}
	return info, err
}

func (r *Runner) apply(st gen.Step) (StepInfo, error) {
	info := StepInfo{Before: r.M.Clone()}
	switch st.Kind {
	case "insert":
		reason := r.M.Insert(st.Points)
		err := r.S.Insert(st.Points)
		if (err != nil) != (reason != "") {
			return info, fmt.Errorf("insert returned %v, model says %q", err, reason)
		}
		if reason != "" {
			r.M = info.Before.Clone()
			info.Rejected = true
			drive.Quiesce(r.base + 1) // +1: the goroutine drive.Watch runs this step on
		} else {
			info.Wrote = true
		}
	case "update":
		ids, reason := r.M.Update(st.Points)
		got, err := r.S.Update(st.Points)
		if (err != nil) != (reason != "") {
			return info, fmt.Errorf("update returned %v, model says %q", err, reason)
		}
		if reason != "" {
			r.M = info.Before.Clone()
			info.Rejected = true
			drive.Quiesce(r.base + 1) // +1: the goroutine drive.Watch runs this step on
		} else {
			if len(got) != len(ids) {
				return info, fmt.Errorf("update reported %d ids, %d requested ids existed", len(got), len(ids))
			}
			info.Wrote = true
			info.Updated = ids
		}
	case "delete":
		ids := r.M.Delete(st.Ids)
		got, err := r.S.Delete(st.Ids)
		if err != nil {
			return info, fmt.Errorf("delete failed: %v", err)
		}
		if len(got) != len(ids) {
			return info, fmt.Errorf("delete reported %d ids, %d requested ids existed", len(got), len(ids))
		}
		info.Wrote = true
		info.Deleted = ids
	case "reopen":
		if err := r.S.Close(); err != nil {
			return info, fmt.Errorf("close: %v", err)
		}
		s, err := drive.OpenNamed(r.Path, r.H.Schema, r.H.MaxPointSize, r.Mgr, r.H.Rename)
		if err != nil {
			r.S = nil
			return info, fmt.Errorf("reopen: %v", err)
		}
		r.S = s
	case "evict":
		r.S.EvictCaches()
	default:
		return info, fmt.Errorf("unknown step kind %q", st.Kind)
	}
	if err := drive.StrayVerdict(r.S); err != nil {
		return info, err
	}
	return info, nil
}

// Copy copies the database file and opens the copy with the given manager.
func (r *Runner) Copy(mgr *cache.Manager) (*drive.Shard, error) {
	r.copies++
	cp := filepath.Join(r.Dir, fmt.Sprintf("copy-%d.bbolt", r.copies))
	if err := drive.CopyFile(r.Path, cp); err != nil {
		return nil, err
	}
	return drive.OpenNamed(cp, r.H.Schema, r.H.MaxPointSize, mgr, r.H.Rename)
}
