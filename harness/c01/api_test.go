package c01

import (
	"bytes"
	"encoding/json"
	"fmt"
	"math"
	"net/http"
	"path/filepath"
	"sort"
	"strconv"
	"strings"
	"testing"

	"github.com/google/uuid"
	"github.com/semafind/semadb/cluster"
	"github.com/semafind/semadb/models"
	"github.com/vmihailenco/msgpack/v5"
	"pgregory.net/rapid"
	"verif/drive"
	"verif/gen"
	"verif/model"
	"verif/vt"
)

// The same statement one layer up: the histories of job `history` are played through the HTTP API (v2
// handlers, request decoding and validation, conversion of documents, the cluster node's routing to one
// or several shards) and every response and every read is compared with the plain model. What the shard
// level cannot see lives here: how a request document becomes the stored document (points that consist
// of nothing but their id, empty nested values, number types of JSON and MessagePack bodies), how the
// per-shard results are turned into the lists of failed ranges / failed points, and what a read through
// the API hands back.

type ApiCase struct {
	History gen.History `json:"history"`
	// Msgpack: request bodies are MessagePack (number types survive as they are); otherwise JSON
	Msgpack bool `json:"msgpack"`
	// ShardPoints > 0: per-shard maximum, so that the collection spreads over several shards (such
	// histories contain no insert that has to be rejected: a stored id is only recognised by the shard
	// that holds it, and ids unique per collection are the caller's duty)
	ShardPoints int `json:"shardPoints,omitempty"`
}

const apiPlan = "P"

// sanitize makes a document representable in a request body: JSON cannot carry non-finite numbers (and
// the API refuses them in MessagePack), and JSON numbers are float64, which is exact up to 2^53.
func sanitize(v any, jsonBody bool) any {
	switch x := v.(type) {
	case float64:
		if math.IsInf(x, 1) || math.IsNaN(x) {
			return 1e300
		}
		if math.IsInf(x, -1) {
			return -1e300
		}
	case float32:
		if x != x || x > math.MaxFloat32 {
			return float32(3e38)
		}
		if x < -math.MaxFloat32 {
			return float32(-3e38)
		}
	case int64:
		if jsonBody && (x > 1<<53 || x < -(1<<53)) {
			return x % (1 << 53)
		}
	case []float32:
		out := make([]float32, len(x))
		for i := range x {
			out[i] = sanitize(x[i], jsonBody).(float32)
		}
		return out
	case []any:
		out := make([]any, len(x))
		for i := range x {
			out[i] = sanitize(x[i], jsonBody)
		}
		return out
	case map[string]any:
		out := map[string]any{}
		for k, e := range x {
			out[k] = sanitize(e, jsonBody)
		}
		return out
	case model.Doc:
		out := model.Doc{}
		for k, e := range x {
			out[k] = sanitize(e, jsonBody)
		}
		return out
	}
	return v
}

var reservedOut = map[string]bool{"_id": true, "_distance": true, "_score": true, "_hybridScore": true}

func genApiCase(t *rapid.T) ApiCase {
	c := ApiCase{Msgpack: rapid.IntRange(0, 2).Draw(t, "msgpack") == 0}
	if rapid.IntRange(0, 2).Draw(t, "multishard") == 0 {
		c.ShardPoints = rapid.IntRange(1, 6).Draw(t, "shardPoints")
	}
	so := gen.SchemaOpts{Filters: true, Flat: rapid.IntRange(0, 3).Draw(t, "flat") == 0, Vamana: rapid.IntRange(0, 3).Draw(t, "vamana") == 0,
		Text: rapid.IntRange(0, 2).Draw(t, "text") == 0, MaxDim: 4}
	ho := gen.HistoryOpts{MaxSteps: 12, MaxBatch: 8, PoolSize: rapid.SampledFrom([]int{8, 16, 40}).Draw(t, "pool"),
		AllowRejected: c.ShardPoints == 0, AllowDupUpdate: true, Reopen: true, ExtraFields: true,
		FieldProb: rapid.SampledFrom([]int{75, 75, 20, 0}).Draw(t, "fieldProb")}
	if vt.Thorough() {
		ho.MaxSteps = 30
		ho.MaxBatch = 20
	}
	h := gen.GenHistory(t, so, ho)
	for si := range h.Steps {
		for pi := range h.Steps[si].Points {
			d := sanitize(h.Steps[si].Points[pi].Doc, !c.Msgpack).(model.Doc)
			for k := range d {
				if reservedOut[k] {
					delete(d, k)
				}
			}
			// points of nothing but their id: no field is mandatory
			if h.Steps[si].Kind == "insert" && rapid.IntRange(0, 5).Draw(t, fmt.Sprintf("bare%d.%d", si, pi)) == 0 {
				d = model.Doc{}
			}
			h.Steps[si].Points[pi].Doc = d
		}
	}
	c.History = h
	return c
}

type apiWorld struct {
	c    ApiCase
	node *cluster.ClusterNode
	h    http.Handler
	hd   map[string]string
}

func (w *apiWorld) send(method, path string, body any) drive.Response {
	hd := map[string]string{}
	for k, v := range w.hd {
		hd[k] = v
	}
	if body == nil {
		return drive.Call(w.h, method, path, hd, nil)
	}
	if w.c.Msgpack {
		b, err := msgpack.Marshal(body)
		if err != nil {
			panic(err)
		}
		hd["Content-Type"] = "application/msgpack"
		return drive.Call(w.h, method, path, hd, b)
	}
	b, err := json.Marshal(body)
	if err != nil {
		panic(err)
	}
	return drive.Call(w.h, method, path, hd, b)
}

func reqPoints(points []model.Point) []map[string]any {
	out := make([]map[string]any, len(points))
	for i, p := range points {
		m := map[string]any{}
		for k, v := range p.Doc {
			m[k] = v
		}
		m["_id"] = p.Id.String()
		out[i] = m
	}
	return out
}

func decodeNumbers(b []byte) (map[string]any, error) {
	dec := json.NewDecoder(bytes.NewReader(b))
	dec.UseNumber()
	var out map[string]any
	err := dec.Decode(&out)
	return out, err
}

// sameValue compares a model value with what the API handed back as JSON (numbers as json.Number).
func sameValue(want, got any) bool {
	switch w := want.(type) {
	case nil:
		return got == nil
	case bool:
		g, ok := got.(bool)
		return ok && g == w
	case string:
		g, ok := got.(string)
		return ok && g == w
	case int64:
		g, ok := got.(json.Number)
		if !ok {
			return false
		}
		if i, err := strconv.ParseInt(string(g), 10, 64); err == nil {
			return i == w
		}
		f, err := strconv.ParseFloat(string(g), 64)
		return err == nil && f == float64(w) && w <= 1<<53 && w >= -(1<<53)
	case float64:
		g, ok := got.(json.Number)
		if !ok {
			return false
		}
		f, err := strconv.ParseFloat(string(g), 64)
		return err == nil && f == w
	case float32:
		g, ok := got.(json.Number)
		if !ok {
			return false
		}
		f, err := strconv.ParseFloat(string(g), 64)
		return err == nil && float32(f) == w
	case []float32:
		g, ok := got.([]any)
		if !ok || len(g) != len(w) {
			return false
		}
		for i := range w {
			if !sameValue(w[i], g[i]) {
				return false
			}
		}
		return true
	case []string:
		g, ok := got.([]any)
		if !ok || len(g) != len(w) {
			return false
		}
		for i := range w {
			if !sameValue(w[i], g[i]) {
				return false
			}
		}
		return true
	case []any:
		g, ok := got.([]any)
		if !ok || len(g) != len(w) {
			return false
		}
		for i := range w {
			if !sameValue(w[i], g[i]) {
				return false
			}
		}
		return true
	case map[string]any:
		g, ok := got.(map[string]any)
		if !ok || len(g) != len(w) {
			return false
		}
		for k, e := range w {
			ge, ok := g[k]
			if !ok || !sameValue(e, ge) {
				return false
			}
		}
		return true
	case model.Doc:
		return sameValue(map[string]any(w), got)
	}
	return false
}

func stripReserved(row map[string]any) map[string]any {
	out := map[string]any{}
	for k, v := range row {
		if !reservedOut[k] {
			out[k] = v
		}
	}
	return out
}

func (w *apiWorld) search(q map[string]any) ([]map[string]any, error) {
	r := w.send("POST", "/v2/collections/col/points/search", map[string]any{"query": q, "select": []string{"*"}, "limit": 100})
	if r.Status != 200 {
		return nil, fmt.Errorf("search answered %d %.300s", r.Status, r.Body)
	}
	body, err := decodeNumbers(r.Body)
	if err != nil {
		return nil, fmt.Errorf("search answer is no JSON object: %v", err)
	}
	pts, _ := body["points"].([]any)
	out := make([]map[string]any, 0, len(pts))
	for _, p := range pts {
		m, ok := p.(map[string]any)
		if !ok {
			return nil, fmt.Errorf("search answer holds a point that is no object: %v", p)
		}
		out = append(out, m)
	}
	return out, nil
}

func (w *apiWorld) checkState(m *model.Collection, pool []uuid.UUID, byId []uuid.UUID) error {
	r := w.send("GET", "/v2/collections/col", nil)
	if r.Status != 200 {
		return fmt.Errorf("get collection answered %d %.200s", r.Status, r.Body)
	}
	body, err := decodeNumbers(r.Body)
	if err != nil {
		return err
	}
	total := int64(0)
	shards, _ := body["shards"].([]any)
	for _, s := range shards {
		sm, _ := s.(map[string]any)
		n, _ := sm["pointCount"].(json.Number)
		v, _ := n.Int64()
		total += v
	}
	if total != int64(len(m.Docs)) {
		return fmt.Errorf("the collection reports %d points over %d shards, the model has %d", total, len(shards), len(m.Docs))
	}
	vt.R().Max("api_most_shards_of_a_collection", int64(len(shards)))
	all := make([]string, len(pool))
	for i, id := range pool {
		all[i] = id.String()
	}
	rows, err := w.search(map[string]any{"property": "_id", "stringArray": map[string]any{"value": all, "operator": "containsAny"}})
	if err != nil {
		return fmt.Errorf("read of the whole pool by id: %v", err)
	}
	seen := map[string]bool{}
	for _, row := range rows {
		ids, _ := row["_id"].(string)
		id, err := uuid.Parse(ids)
		if err != nil {
			return fmt.Errorf("a returned point carries the id %v", row["_id"])
		}
		if seen[ids] {
			return fmt.Errorf("point %s returned twice by the read of the whole pool", ids)
		}
		seen[ids] = true
		want, ok := m.Docs[id]
		if !ok {
			return fmt.Errorf("the read returned %s, which the model does not hold", ids)
		}
		if !sameValue(want, stripReserved(row)) {
			return fmt.Errorf("document of %s is %v, model has %s", ids, stripReserved(row), model.Show(map[string]any(want)))
		}
	}
	for id := range m.Docs {
		if !seen[id.String()] {
			return fmt.Errorf("stored point %s is not returned by the read of the whole pool", id)
		}
	}
	// the same read with a select list that names top-level fields, one of them twice
	keySet := map[string]bool{}
	for _, d := range m.Docs {
		for k := range d {
			if !strings.Contains(k, ".") && k != "" {
				keySet[k] = true
			}
		}
	}
	var keys []string
	for k := range keySet {
		keys = append(keys, k)
	}
	sort.Strings(keys)
	if len(keys) > 3 {
		keys = keys[:3]
	}
	if len(keys) > 0 {
		sel := append(append([]string{}, keys...), keys[0])
		r := w.send("POST", "/v2/collections/col/points/search", map[string]any{"query": map[string]any{"property": "_id", "stringArray": map[string]any{"value": all, "operator": "containsAny"}}, "select": sel, "limit": 100})
		if r.Status != 200 {
			return fmt.Errorf("read with select %v answered %d %.300s", sel, r.Status, r.Body)
		}
		body, err := decodeNumbers(r.Body)
		if err != nil {
			return err
		}
		pts, _ := body["points"].([]any)
		if len(pts) != len(m.Docs) {
			return fmt.Errorf("read with select %v returns %d points, %d are stored", sel, len(pts), len(m.Docs))
		}
		for _, p := range pts {
			row, _ := p.(map[string]any)
			id, err := uuid.Parse(fmt.Sprint(row["_id"]))
			if err != nil {
				return fmt.Errorf("a returned point carries the id %v", row["_id"])
			}
			want := map[string]any{}
			for _, k := range keys {
				if v, ok := m.Docs[id][k]; ok {
					want[k] = v
				}
			}
			if !sameValue(want, stripReserved(row)) {
				return fmt.Errorf("select %v of %s gives %v, the stored document has %s", sel, id, stripReserved(row), model.Show(want))
			}
		}
	}
	for _, id := range byId {
		rows, err := w.search(map[string]any{"property": "_id", "string": map[string]any{"value": id.String(), "operator": "equals"}})
		if err != nil {
			return fmt.Errorf("read of %s: %v", id, err)
		}
		want, ok := m.Docs[id]
		if !ok {
			if len(rows) != 0 {
				return fmt.Errorf("read of absent id %s returned %d rows", id, len(rows))
			}
			continue
		}
		if len(rows) != 1 || rows[0]["_id"] != id.String() {
			return fmt.Errorf("read of stored id %s returned %d rows", id, len(rows))
		}
		if !sameValue(want, stripReserved(rows[0])) {
			return fmt.Errorf("read of %s gives %v, model has %s", id, stripReserved(rows[0]), model.Show(map[string]any(want)))
		}
	}
	return nil
}

// failedIds reads the ids of a failedPoints list and checks its messages.
func failedIds(body map[string]any, wantMsg string) (map[string]bool, error) {
	out := map[string]bool{}
	l, _ := body["failedPoints"].([]any)
	for _, e := range l {
		m, _ := e.(map[string]any)
		id, _ := m["id"].(string)
		out[id] = true
		if msg, _ := m["error"].(string); msg != wantMsg {
			return nil, fmt.Errorf("failed point %s carries the message %q (every shard answered: %q expected)", id, msg, wantMsg)
		}
	}
	return out, nil
}

// typedDeleteMarker: an update that puts the delete marker on an indexed property of a type other than
// string / text. The v2 handler checks update documents against the index types and refuses the marker
// there (likewise on the map that holds a nested indexed property); whether that is intended is not
// settled by the property, so both answers are accepted (and a refusal must change nothing).
func typedDeleteMarker(schema models.IndexSchema, points []model.Point) bool {
	for _, p := range points {
		for prop, is := range schema {
			stringy := is.Type == models.IndexTypeString || is.Type == models.IndexTypeText
			var v any = map[string]any(p.Doc)
			parts := splitDots(prop)
			for k, part := range parts {
				mm, isMap := v.(map[string]any)
				if !isMap {
					break
				}
				var ok bool
				if v, ok = mm[part]; !ok {
					break
				}
				// the marker on the indexed property itself (unless a string is what the index expects), or
				// on the map that holds it
				if v == model.DeleteValue && (k < len(parts)-1 || !stringy) {
					return true
				}
			}
		}
	}
	return false
}

func splitDots(s string) []string {
	var out []string
	cur := ""
	for _, r := range s {
		if r == '.' {
			out = append(out, cur)
			cur = ""
		} else {
			cur += string(r)
		}
	}
	return append(out, cur)
}

func execApiCase(c ApiCase) (res vt.Result) {
	rec := vt.R()
	h := c.History
	dir, cleanup := drive.CaseDir()
	defer cleanup()
	me := drive.NodeSpec{Host: "127.0.1.1", Port: 1}
	opts := drive.ClusterOpts{ShardTimeout: 5}
	if c.ShardPoints > 0 {
		opts.MaxShardPointCount = int64(c.ShardPoints)
		rec.Count("api_histories_over_several_shards", 1)
	}
	node, err := drive.NewClusterNode(filepath.Join(dir, "node"), me, []string{me.Name()}, opts, false)
	if err != nil {
		return vt.Result{Err: err}
	}
	defer func() {
		node.VerifShardManager().VerifUnloadAll()
		node.Close()
	}()
	plans := map[string]models.UserPlan{apiPlan: {Name: apiPlan, MaxCollections: 3, MaxCollectionPointCount: 100000, MaxPointSize: 1 << 20}}
	w := &apiWorld{c: c, node: node, h: drive.Router(node, plans), hd: drive.JSONHeaders("carol", apiPlan)}
	if c.Msgpack {
		rec.Count("api_histories_with_messagepack_bodies", 1)
	}
	// (the collection is created with a JSON body in every case: the schema types carry JSON names)
	if r := drive.Call(w.h, "POST", "/v2/collections", w.hd, map[string]any{"id": "col", "indexSchema": h.Schema}); r.Status != 200 {
		return vt.Result{Err: fmt.Errorf("creating the collection: %d %.300s", r.Status, r.Body)}
	}
	m := model.NewCollection(h.Schema, 1<<20)
	poolSet := map[uuid.UUID]bool{}
	for _, st := range h.Steps {
		for _, p := range st.Points {
			poolSet[p.Id] = true
		}
		for _, id := range st.Ids {
			poolSet[id] = true
		}
	}
	poolSet[gen.IdPool(1)[0]] = true // the read needs at least one id
	var pool []uuid.UUID
	for id := range poolSet {
		pool = append(pool, id)
	}
	sort.Slice(pool, func(i, j int) bool { return pool[i].String() < pool[j].String() })
	okBatches, kinds, special := 0, map[string]bool{}, false
	fail := func(i int, st gen.Step, f string, a ...any) vt.Result {
		return vt.Result{Err: fmt.Errorf("step %d (%s %d points/%d ids): %s", i, st.Kind, len(st.Points), len(st.Ids), fmt.Sprintf(f, a...))}
	}
	for i, st := range h.Steps {
		switch st.Kind {
		case "insert":
			r := w.send("POST", "/v2/collections/col/points", map[string]any{"points": reqPoints(st.Points)})
			if len(st.Points) == 0 {
				if r.Status != 400 {
					return fail(i, st, "an insert without points was answered %d %.200s", r.Status, r.Body)
				}
				break
			}
			if r.Status != 200 {
				return fail(i, st, "insert answered %d %.300s", r.Status, r.Body)
			}
			body, err := decodeNumbers(r.Body)
			if err != nil {
				return fail(i, st, "insert answer: %v", err)
			}
			before := m.Clone()
			reason := m.Insert(st.Points)
			ranges, _ := body["failedRanges"].([]any)
			if (len(ranges) > 0) != (reason != "") {
				return fail(i, st, "insert answered %.300s, model says %q", r.Body, reason)
			}
			if reason != "" {
				m = before
				special = true
				rec.Count("api_rejected_insert", 1)
				if msg, _ := body["message"].(string); msg == "success" {
					return fail(i, st, "a rejected insert is reported as %q", msg)
				}
			} else {
				okBatches++
				kinds["insert"] = true
				for _, p := range st.Points {
					if len(p.Doc) == 0 {
						special = true
						rec.Count("api_points_of_nothing_but_their_id", 1)
					}
				}
			}
		case "update":
			r := w.send("PUT", "/v2/collections/col/points", map[string]any{"points": reqPoints(st.Points)})
			if len(st.Points) == 0 {
				if r.Status != 400 {
					return fail(i, st, "an update without points was answered %d %.200s", r.Status, r.Body)
				}
				break
			}
			if r.Status == 400 && typedDeleteMarker(h.Schema, st.Points) {
				rec.Count("api_delete_marker_refused_for_a_typed_index", 1)
				break // refused: the state check below demands that nothing changed
			}
			if r.Status != 200 {
				return fail(i, st, "update answered %d %.300s", r.Status, r.Body)
			}
			body, err := decodeNumbers(r.Body)
			if err != nil {
				return fail(i, st, "update answer: %v", err)
			}
			before := m.Clone()
			want, reason := m.Update(st.Points)
			if reason != "" {
				m = before
				want = nil
			}
			failed, err := failedIds(body, "not found")
			if err != nil {
				return fail(i, st, "%v", err)
			}
			applied := map[string]bool{}
			for _, id := range want {
				applied[id.String()] = true
			}
			for _, p := range st.Points {
				if applied[p.Id.String()] == failed[p.Id.String()] {
					return fail(i, st, "update lists %s as failed: %v; the model applied the update to it: %v (answer %.300s)", p.Id, failed[p.Id.String()], applied[p.Id.String()], r.Body)
				}
			}
			okBatches++
			kinds["update"] = true
			if len(failed) > 0 {
				special = true
				rec.Count("api_update_of_unknown_id", 1)
			}
			for _, p := range st.Points {
				for _, v := range p.Doc {
					if v == model.DeleteValue {
						special = true
					}
				}
			}
		case "delete":
			ids := make([]string, len(st.Ids))
			for k, id := range st.Ids {
				ids[k] = id.String()
			}
			if len(ids) > 0 && i%2 == 0 {
				ids = append(ids, ids[0]) // a request may name an id twice
				if len(ids) > 3 {
					ids = append(ids, ids[2], ids[0])
				}
			}
			r := w.send("DELETE", "/v2/collections/col/points", map[string]any{"ids": ids})
			if len(st.Ids) == 0 {
				if r.Status != 400 {
					return fail(i, st, "a delete without ids was answered %d %.200s", r.Status, r.Body)
				}
				break
			}
			if r.Status != 200 {
				return fail(i, st, "delete answered %d %.300s", r.Status, r.Body)
			}
			body, err := decodeNumbers(r.Body)
			if err != nil {
				return fail(i, st, "delete answer: %v", err)
			}
			want := m.Delete(st.Ids)
			failed, err := failedIds(body, "not found")
			if err != nil {
				return fail(i, st, "%v", err)
			}
			deleted := map[string]bool{}
			for _, id := range want {
				deleted[id.String()] = true
			}
			requested := map[string]bool{}
			for _, id := range st.Ids {
				requested[id.String()] = true
			}
			for id := range failed {
				if !requested[id] {
					return fail(i, st, "delete lists %s as failed, which the request does not name (answer %.300s)", id, r.Body)
				}
			}
			for _, id := range st.Ids {
				if deleted[id.String()] == failed[id.String()] {
					return fail(i, st, "delete lists %s as failed: %v; the model deleted it: %v", id, failed[id.String()], deleted[id.String()])
				}
			}
			okBatches++
			kinds["delete"] = true
			if len(failed) > 0 {
				special = true
			}
		case "reopen", "evict":
			node.VerifShardManager().VerifUnloadAll()
			rec.Count("api_unload_of_all_shards", 1)
		}
		byId := pool
		if len(byId) > 6 {
			byId = byId[(i*5)%len(pool):]
			if len(byId) > 6 {
				byId = byId[:6]
			}
		}
		if err := w.checkState(m, pool, byId); err != nil {
			return fail(i, st, "%v", err)
		}
	}
	rec.Count("api_steps", int64(len(h.Steps)))
	res.NonTrivial = okBatches >= 3 && len(kinds) >= 2 && special
	return res
}

func TestPropApi(t *testing.T)   { vt.Check(t, "api", genApiCase, execApiCase) }
func TestReplayApi(t *testing.T) { vt.Replay(t, "api", execApiCase) }
