package c01

import (
	"bufio"
	"encoding/json"
	"fmt"
	"os"
	"os/exec"
	"strings"
	"testing"
	"time"

	"pgregory.net/rapid"
	"verif/drive"
	"verif/gen"
	"verif/vt"
)

// One usable CPU: the histories of the main job, executed in a child process that is pinned to a single
// CPU (taskset). Worker pools sized from the number of CPUs are the code this reaches: a write batch has
// to return on a small host as it does on a large one. A child that does not finish in time is stopped
// and reported with the step it was in.

func genOneCPU(t *rapid.T) gen.History {
	so := gen.SchemaOpts{Filters: true, MinProps: 1, Flat: rapid.Bool().Draw(t, "flat"), Vamana: rapid.Bool().Draw(t, "vamana"), Text: rapid.Bool().Draw(t, "text"), MaxDim: 3, Quantizer: true}
	ho := gen.HistoryOpts{MaxSteps: 5, MaxBatch: 6, PoolSize: 10, AllowRejected: true, Reopen: true, FieldProb: 90}
	return gen.GenHistory(t, so, ho)
}

func TestChildOneCPU(t *testing.T) {
	spec := os.Getenv("VERIF_ONECPU_CASE")
	if spec == "" {
		t.Skip("child of TestPropOneCPU")
	}
	var h gen.History
	if err := json.Unmarshal([]byte(spec), &h); err != nil {
		fmt.Println("RESULT harness: " + err.Error())
		return
	}
	fmt.Println("STEP start")
	res := execCase(h)
	if res.Err != nil {
		fmt.Println("RESULT " + strings.ReplaceAll(res.Err.Error(), "\n", " | "))
		return
	}
	fmt.Println("RESULT ok")
}

func execOneCPU(h gen.History) vt.Result {
	taskset, err := exec.LookPath("taskset")
	if err != nil {
		vt.R().Count("onecpu_skipped_no_taskset", 1)
		return vt.Result{}
	}
	spec, _ := json.Marshal(h)
	cmd := exec.Command(taskset, "-c", "0", os.Args[0], "-test.run=^TestChildOneCPU$", "-test.count=1", "-test.timeout=120s")
	cmd.Env = append(os.Environ(), "VERIF_ONECPU_CASE="+string(spec), "VERIF_STATS=", "VERIF_JOURNAL=")
	outPipe, err := cmd.StdoutPipe()
	if err != nil {
		return vt.Result{Err: err}
	}
	cmd.Stderr = nil
	if err := cmd.Start(); err != nil {
		return vt.Result{Err: fmt.Errorf("harness: starting the child: %v", err)}
	}
	lines := make(chan string, 64)
	go func() {
		sc := bufio.NewScanner(outPipe)
		sc.Buffer(make([]byte, 1<<20), 1<<20)
		for sc.Scan() {
			lines <- sc.Text()
		}
		close(lines)
	}()
	result := ""
	deadline := time.After(20 * time.Second)
	for {
		select {
		case l, ok := <-lines:
			if !ok {
				cmd.Wait()
				if result == "" {
					return vt.Result{Err: fmt.Errorf("the child pinned to one CPU ended without a result")}
				}
				if result != "ok" {
					return vt.Result{Err: fmt.Errorf("on one CPU: %s", result)}
				}
				vt.R().Count("histories_run_on_one_cpu", 1)
				return vt.Result{NonTrivial: len(h.Steps) >= 2}
			}
			if strings.HasPrefix(l, "RESULT ") {
				result = strings.TrimPrefix(l, "RESULT ")
			}
		case <-deadline:
			cmd.Process.Kill()
			cmd.Wait()
			kinds := []string{}
			for _, st := range h.Steps {
				kinds = append(kinds, fmt.Sprintf("%s(%d)", st.Kind, len(st.Points)+len(st.Ids)))
			}
			return vt.Result{Err: fmt.Errorf("a history of %d steps %v on a shard with indexes %v does not finish within 20 s in a process that may use one CPU (it takes milliseconds otherwise): a call never returns", len(h.Steps), kinds, gen.SortedProps(h.Schema))}
		}
	}
}

var _ = drive.Cleanup

func TestPropOneCPU(t *testing.T)   { vt.Check(t, "onecpu", genOneCPU, execOneCPU) }
func TestReplayOneCPU(t *testing.T) { vt.Replay(t, "onecpu", execOneCPU) }
