package c01

import (
	"fmt"
	"testing"

	"github.com/google/uuid"
	"github.com/semafind/semadb/models"
	"pgregory.net/rapid"
	"verif/gen"
	"verif/model"
	"verif/run"
	"verif/vt"
)

// BulkCase: the insert / update / delete semantics at the batch sizes the API allows (10000 points per
// insert, the main job uses at most 30): large batches, large free lists, reuse of many freed node ids in
// one batch, documents near the size limit.
type BulkCase struct {
	Indexed bool     `json:"indexed"` // an integer index on "n" (otherwise no index at all)
	Ops     []BulkOp `json:"ops"`
	Reopen  []bool   `json:"reopen"` // reopen after op i
	Pad     int      `json:"pad"`    // bytes of payload per document
}

type BulkOp struct {
	Kind string `json:"kind"` // insert | update | delete
	Lo   int    `json:"lo"`   // first id number
	N    int    `json:"n"`
	Step int    `json:"step"` // id numbers lo, lo+step, ...
}

func bulkId(i int) uuid.UUID {
	var u uuid.UUID
	u[0], u[1], u[2], u[3], u[6], u[8] = byte(i*131), byte(i>>16), byte(i>>8), byte(i), 0x40, 0x80
	return u
}

func genBulk(t *rapid.T) BulkCase {
	c := BulkCase{Indexed: rapid.Bool().Draw(t, "indexed"), Pad: rapid.SampledFrom([]int{0, 0, 40, 900}).Draw(t, "pad")}
	n := rapid.IntRange(2, 6).Draw(t, "nops")
	for i := 0; i < n; i++ {
		op := BulkOp{Kind: rapid.SampledFrom([]string{"insert", "insert", "update", "delete", "delete"}).Draw(t, fmt.Sprintf("k%d", i)),
			Lo: rapid.SampledFrom([]int{0, 0, 500, 1000, 2500, 9000}).Draw(t, fmt.Sprintf("lo%d", i)), N: rapid.SampledFrom([]int{1, 255, 256, 1000, 1024, 1025, 2000, 4000, 1, 255, 1000, 8192, 8193, 10000}).Draw(t, fmt.Sprintf("n%d", i)),
			Step: rapid.SampledFrom([]int{1, 1, 2, 3}).Draw(t, fmt.Sprintf("st%d", i))}
		if i == 0 {
			op.Kind = "insert"
		}
		c.Ops = append(c.Ops, op)
		c.Reopen = append(c.Reopen, rapid.IntRange(0, 3).Draw(t, fmt.Sprintf("re%d", i)) == 0)
	}
	if rapid.IntRange(0, 5).Draw(t, "lateClash") == 0 {
		// a batch of the maximum size whose only stored id sits near its end: rejected as a whole, nothing of
		// the first thousands of points may stay behind
		at := rapid.SampledFrom([]int{8191, 8192, 8193, 9000, 9999}).Draw(t, "clashAt")
		c.Ops = append([]BulkOp{{Kind: "insert", Lo: at, N: 1, Step: 1}, {Kind: "insert", Lo: 0, N: 10000, Step: 1}}, c.Ops[:min(len(c.Ops), 2)]...)
		c.Reopen = append([]bool{false, rapid.Bool().Draw(t, "clashReopen")}, c.Reopen[:min(len(c.Reopen), 2)]...)
	}
	return c
}

func execBulk(c BulkCase) (res vt.Result) {
	rec := vt.R()
	schema := models.IndexSchema{}
	if c.Indexed {
		schema["n"] = models.IndexSchemaValue{Type: models.IndexTypeInteger}
	}
	r, err := run.New(gen.History{Schema: schema, MaxPointSize: 1 << 20, CacheLimit: -1})
	if err != nil {
		return vt.Result{Err: err}
	}
	defer r.Close()
	pad := ""
	for len(pad) < c.Pad {
		pad += "0123456789"
	}
	var pool []uuid.UUID
	seen := map[uuid.UUID]bool{}
	nontrivial := false
	for i, op := range c.Ops {
		st := gen.Step{Kind: op.Kind}
		for k := 0; k < op.N; k++ {
			num := op.Lo + k*op.Step
			id := bulkId(num)
			if !seen[id] {
				seen[id] = true
				pool = append(pool, id)
			}
			switch op.Kind {
			case "insert":
				st.Points = append(st.Points, model.Point{Id: id, Doc: model.Doc{"n": int64(num), "op": int64(i), "pad": pad}})
			case "update":
				st.Points = append(st.Points, model.Point{Id: id, Doc: model.Doc{"n": int64(num + 100000), "upd": int64(i)}})
			default:
				st.Ids = append(st.Ids, id)
			}
		}
		before := len(r.M.Docs)
		info, err := r.Apply(st)
		if err != nil {
			res.Err = fmt.Errorf("op %d %+v: %v", i, op, err)
			return res
		}
		if c.Reopen[i] {
			if _, err := r.Apply(gen.Step{Kind: "reopen"}); err != nil {
				res.Err = fmt.Errorf("reopen after op %d: %v", i, err)
				return res
			}
		}
		// reads by id for a sample of the ids (both ends, a stride through the middle); the point count, the
		// select-all read and the point store invariants cover all of them
		sample := pool
		if len(pool) > 80 {
			sample = append([]uuid.UUID{}, pool[:20]...)
			sample = append(sample, pool[len(pool)-20:]...)
			for k := 20; k < len(pool)-20; k += len(pool) / 40 {
				sample = append(sample, pool[k])
			}
		}
		if err := checkStateSampled(r.S, r.M, pool, sample); err != nil {
			res.Err = fmt.Errorf("after op %d %+v (%d points before, %d after): %v", i, op, before, len(r.M.Docs), err)
			return res
		}
		if info.Wrote && op.Kind == "insert" && before > 0 && i >= 2 {
			nontrivial = true
		}
		rec.Max("bulk_batch_size", int64(op.N))
	}
	rec.Max("bulk_points_stored", int64(len(r.M.Docs)))
	res.NonTrivial = nontrivial
	return res
}

func TestPropBulk(t *testing.T)   { vt.Check(t, "bulk", genBulk, execBulk) }
func TestReplayBulk(t *testing.T) { vt.Replay(t, "bulk", execBulk) }
