package c01

import (
	"fmt"
	"path/filepath"
	"runtime"
	"sort"
	"strings"
	"testing"

	"github.com/google/uuid"
	"github.com/semafind/semadb/models"
	"pgregory.net/rapid"
	"verif/drive"
	"verif/gen"
	"verif/model"
	"verif/vt"
)

func TestMain(m *testing.M) {
	vt.OnExit(drive.Cleanup)
	vt.Main(m, "C01")
}

func genCase(t *rapid.T) gen.History {
	so := gen.SchemaOpts{Filters: true, Flat: rapid.IntRange(0, 3).Draw(t, "flat") == 0, Vamana: rapid.IntRange(0, 3).Draw(t, "vamana") == 0,
		Text: rapid.IntRange(0, 2).Draw(t, "text") == 0, MaxDim: 4, Quantizer: true}
	ho := gen.HistoryOpts{MaxSteps: 14, MaxBatch: 8, PoolSize: rapid.SampledFrom([]int{8, 16, 40}).Draw(t, "pool"),
		AllowRejected: true, AllowDupUpdate: true, AllowOversize: true, Reopen: true, Evict: true, ExtraFields: true}
	if vt.Thorough() {
		ho.MaxSteps = 40
		ho.MaxBatch = 30
	}
	h := gen.GenHistory(t, so, ho)
	if rapid.IntRange(0, 7).Draw(t, "highIds") == 0 {
		h.FirstNodeId = gen.GenFirstNodeId(t, "firstNode")
	}
	if rapid.IntRange(0, 5).Draw(t, "rename") == 0 {
		h.Rename = gen.GenRename(t, h.Schema)
	}
	// merged documents exactly at, one below and one above the per-point size limit (the limit applies to
	// the merged document of an update; it is small in a third of the histories)
	if h.MaxPointSize < 1<<20 {
		m := model.NewCollection(h.Schema, h.MaxPointSize)
		apply := func(mm *model.Collection, st gen.Step) {
			before := mm.Clone()
			reason := ""
			switch st.Kind {
			case "insert":
				reason = mm.Insert(st.Points)
			case "update":
				_, reason = mm.Update(st.Points)
			case "delete":
				mm.Delete(st.Ids)
			}
			if reason != "" {
				*mm = *before
			}
		}
		for si := range h.Steps {
			st := &h.Steps[si]
			if st.Kind == "update" && len(st.Points) > 0 && rapid.IntRange(0, 1).Draw(t, fmt.Sprintf("edge%d", si)) == 0 {
				pi := rapid.IntRange(0, len(st.Points)-1).Draw(t, fmt.Sprintf("edgep%d", si))
				id := st.Points[pi].Id
				if _, stored := m.Docs[id]; stored {
					target := h.MaxPointSize + rapid.IntRange(-1, 1).Draw(t, fmt.Sprintf("edged%d", si))
					// size of the merged document as a function of the pad length (monotone): find the target
					sizeWith := func(padLen int) (int, model.Doc) {
						doc := model.CloneDoc(st.Points[pi].Doc)
						doc["pad"] = strings.Repeat("p", padLen)
						big := model.NewCollection(h.Schema, 1<<30)
						big.Docs[id] = model.CloneDoc(m.Docs[id])
						big.Update([]model.Point{{Id: id, Doc: doc}})
						return len(model.Encode(big.Docs[id])), doc
					}
					lo, hi := 0, target+8
					for lo < hi {
						mid := (lo + hi) / 2
						if n, _ := sizeWith(mid); n < target {
							lo = mid + 1
						} else {
							hi = mid
						}
					}
					if n, doc := sizeWith(lo); n == target {
						st.Points[pi] = model.Point{Id: id, Doc: doc}
						st.Note = ""
					}
				}
			}
			apply(m, *st)
		}
	}
	return h
}

func idStrings(ids []uuid.UUID) []string {
	r := make([]string, len(ids))
	for i, id := range ids {
		r[i] = id.String()
	}
	sort.Strings(r)
	return r
}

func sameIdSet(a, b []uuid.UUID) bool {
	sa, sb := model.IdSet{}, model.IdSet{}
	for _, x := range a {
		sa.Add(x)
	}
	for _, x := range b {
		sb.Add(x)
	}
	return sa.Equal(sb)
}

// checkState compares everything observable about the stored points with the model.
func checkState(s *drive.Shard, m *model.Collection, pool []uuid.UUID) error {
	return checkStateSampled(s, m, pool, pool)
}

// checkStateSampled: as checkState, with the one-at-a-time reads by id restricted to byId.
func checkStateSampled(s *drive.Shard, m *model.Collection, pool, byId []uuid.UUID) error {
	cnt, err := s.PointCount()
	if err != nil {
		return fmt.Errorf("Info: %v", err)
	}
	if int(cnt) != len(m.Docs) {
		return fmt.Errorf("reported point count %d, model has %d points", cnt, len(m.Docs))
	}
	// select-all read of the whole pool
	all := make([]string, len(pool))
	for i, id := range pool {
		all[i] = id.String()
	}
	rows, err := s.Search(models.SearchRequest{
		Query:  models.Query{Property: "_id", StringArray: &models.SearchStringArrayOptions{Value: all, Operator: models.OperatorContainsAny}},
		Select: []string{"*"},
	})
	if err != nil {
		return fmt.Errorf("_id containsAny over the pool: %v", err)
	}
	got := model.IdSet{}
	for _, r := range rows {
		if got.Has(r.Id) {
			return fmt.Errorf("point %s returned twice by the select-all read", r.Id)
		}
		got.Add(r.Id)
		want, ok := m.Docs[r.Id]
		if !ok {
			return fmt.Errorf("select-all read returned %s which the model does not hold", r.Id)
		}
		if !model.DocEqual(map[string]any(want), r.Doc) {
			return fmt.Errorf("document of %s is %s, model has %s", r.Id, model.Show(r.Doc), model.Show(map[string]any(want)))
		}
	}
	for id := range m.Docs {
		if !got.Has(id) {
			return fmt.Errorf("stored point %s not returned by the select-all read", id)
		}
	}
	// reads by id, one at a time
	for _, id := range byId {
		rows, err := s.Search(models.SearchRequest{
			Query:  models.Query{Property: "_id", String: &models.SearchStringOptions{Value: id.String(), Operator: models.OperatorEquals}},
			Select: []string{"*"},
		})
		if err != nil {
			return fmt.Errorf("_id equals %s: %v", id, err)
		}
		want, ok := m.Docs[id]
		if !ok {
			if len(rows) != 0 {
				return fmt.Errorf("read of absent id %s returned %d rows", id, len(rows))
			}
			continue
		}
		if len(rows) != 1 || rows[0].Id != id {
			return fmt.Errorf("read of stored id %s returned %d rows", id, len(rows))
		}
		if !model.DocEqual(map[string]any(want), rows[0].Doc) {
			return fmt.Errorf("read by id %s gives %s, model has %s", id, model.Show(rows[0].Doc), model.Show(map[string]any(want)))
		}
	}
	// raw point store
	pv, err := s.InspectPoints()
	if err != nil {
		return err
	}
	live := map[uuid.UUID]bool{}
	for id := range m.Docs {
		live[id] = true
	}
	if err := pv.Check(live); err != nil {
		return fmt.Errorf("point store: %v", err)
	}
	return nil
}

func execCase(h gen.History) (res vt.Result) {
	if len(h.Rename) > 0 {
		vt.R().Count("histories_with_renamed_properties", 1)
	}
	rec := vt.R()
	dir, cleanup := drive.CaseDir()
	defer cleanup()
	path := filepath.Join(dir, "sharddb.bbolt")
	mgr := drive.Manager(h.CacheLimit)
	s, err := drive.OpenNamed(path, h.Schema, h.MaxPointSize, mgr, h.Rename)
	if err != nil {
		return vt.Result{Err: fmt.Errorf("open: %v", err)}
	}
	defer func() { s.Close() }()
	if h.FirstNodeId > 0 {
		if err := s.PresetNextNodeId(h.FirstNodeId); err != nil {
			return vt.Result{Err: err}
		}
		rec.Count("histories_with_preset_node_ids", 1)
	}
	m := model.NewCollection(h.Schema, h.MaxPointSize)
	m.SizeNames = h.Rename
	poolSet := map[uuid.UUID]bool{}
	for _, st := range h.Steps {
		for _, p := range st.Points {
			poolSet[p.Id] = true
		}
		for _, id := range st.Ids {
			poolSet[id] = true
		}
	}
	var pool []uuid.UUID
	for id := range poolSet {
		pool = append(pool, id)
	}
	sort.Slice(pool, func(i, j int) bool { return pool[i].String() < pool[j].String() })
	gone := map[uuid.UUID]bool{}
	okBatches, kinds := 0, map[string]bool{}
	special := false
	fail := func(i int, st gen.Step, f string, a ...any) vt.Result {
		res.Err = fmt.Errorf("step %d (%s %d points/%d ids): %s", i, st.Kind, len(st.Points), len(st.Ids), fmt.Sprintf(f, a...))
		return res
	}
	baseGoroutines := runtime.NumGoroutine()
	for i, st := range h.Steps {
		failedWrite := false
		switch st.Kind {
		case "insert":
			before := m.Clone()
			reason := m.Insert(st.Points)
			err := s.Insert(st.Points)
			if (err != nil) != (reason != "") {
				return fail(i, st, "insert returned %v, model says %q", err, reason)
			}
			if reason != "" {
				m = before
				failedWrite = true
				special = true
				rec.Count("rejected_insert", 1)
			} else {
				okBatches++
				kinds["insert"] = true
				for _, p := range st.Points {
					if gone[p.Id] {
						special = true
						rec.Count("reinsert_of_deleted_id", 1)
					}
				}
			}
		case "update":
			before := m.Clone()
			want, reason := m.Update(st.Points)
			got, err := s.Update(st.Points)
			if (err != nil) != (reason != "") {
				return fail(i, st, "update returned %v, model says %q", err, reason)
			}
			if reason != "" {
				m = before
				failedWrite = true
				special = true
				rec.Count("rejected_update_oversize", 1)
			} else {
				if !sameIdSet(want, got) {
					return fail(i, st, "update reported %v, the requested ids that existed are %v", idStrings(got), idStrings(want))
				}
				if len(got) != len(want) {
					return fail(i, st, "update reported %d ids for %d applied updates", len(got), len(want))
				}
				okBatches++
				kinds["update"] = true
				if len(want) < len(st.Points) {
					special = true
					rec.Count("update_skipped_unknown", 1)
				}
				for _, p := range st.Points {
					for _, v := range p.Doc {
						if v == model.DeleteValue {
							special = true
						}
					}
				}
			}
		case "delete":
			want := m.Delete(st.Ids)
			got, err := s.Delete(st.Ids)
			if err != nil {
				return fail(i, st, "delete failed: %v", err)
			}
			if !sameIdSet(want, got) || len(want) != len(got) {
				return fail(i, st, "delete reported %v, the requested ids that existed are %v", idStrings(got), idStrings(want))
			}
			for _, id := range want {
				gone[id] = true
			}
			okBatches++
			kinds["delete"] = true
			if len(want) < len(st.Ids) {
				special = true
			}
		case "reopen":
			if err := s.Close(); err != nil {
				return fail(i, st, "close: %v", err)
			}
			s, err = drive.OpenNamed(path, h.Schema, h.MaxPointSize, mgr, h.Rename)
			if err != nil {
				return fail(i, st, "reopen: %v", err)
			}
			rec.Count("reopen", 1)
		case "evict":
			s.EvictCaches()
		}
		if failedWrite {
			drive.Quiesce(baseGoroutines)
		}
		if err := drive.StrayVerdict(s); err != nil {
			return fail(i, st, "%v", err)
		}
		if err := checkState(s, m, pool); err != nil {
			return fail(i, st, "%v", err)
		}
		if err := drive.StrayVerdict(s); err != nil {
			return fail(i, st, "during reads: %v", err)
		}
	}
	rec.Count("steps", int64(len(h.Steps)))
	res.NonTrivial = okBatches >= 3 && len(kinds) >= 2 && special
	return res
}

func TestPropHistory(t *testing.T)   { vt.Check(t, "history", genCase, execCase) }
func TestReplayHistory(t *testing.T) { vt.Replay(t, "history", execCase) }
