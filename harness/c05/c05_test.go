package c05

import (
	"fmt"
	"path/filepath"
	"runtime"
	"strings"
	"testing"

	"github.com/semafind/semadb/models"
	"github.com/semafind/semadb/shard/cache"
	"pgregory.net/rapid"
	"verif/drive"
	"verif/gen"
	"verif/model"
	"verif/oracle"
	"verif/vt"
)

func TestMain(m *testing.M) {
	vt.OnExit(drive.Cleanup)
	vt.Main(m, "C05")
}

type Case struct {
	H       gen.History          `json:"history"`
	Queries [][]oracle.TextQuery `json:"queries"`
	// Huge, if set, turns the text of one written point into a very long document in which one word
	// occurs Count times (kept out of the history so that cases stay small): term frequencies beyond
	// 16 bits, documents of several hundred kilobytes
	Huge *HugeDoc `json:"huge,omitempty"`
	// Bulk, if set, replaces history and queries by a corpus of more than a thousand documents (bulk_test.go)
	Bulk *BulkText `json:"bulk,omitempty"`
}

type HugeDoc struct {
	Step  int    `json:"step"`
	Point int    `json:"point"`
	Word  string `json:"word"`
	Count int    `json:"count"`
	Tail  string `json:"tail"`
}

// expand returns the history with the huge document written out.
func (c Case) expand() gen.History {
	h := c.H
	if c.Huge == nil || c.Huge.Step >= len(h.Steps) || c.Huge.Point >= len(h.Steps[c.Huge.Step].Points) {
		return h
	}
	steps := append([]gen.Step{}, h.Steps...)
	st := steps[c.Huge.Step]
	pts := append([]model.Point{}, st.Points...)
	doc := model.CloneDoc(pts[c.Huge.Point].Doc)
	doc[gen.PText] = strings.Repeat(c.Huge.Word+" ", c.Huge.Count) + c.Huge.Tail
	pts[c.Huge.Point] = model.Point{Id: pts[c.Huge.Point].Id, Doc: doc}
	st.Points = pts
	steps[c.Huge.Step] = st
	h.Steps = steps
	return h
}

func genTextQuery(t *rapid.T, label string, g *gen.HistoryGen) oracle.TextQuery {
	q := oracle.TextQuery{Operator: rapid.SampledFrom([]string{models.OperatorContainsAll, models.OperatorContainsAny}).Draw(t, label+"-op"), Stray: rapid.IntRange(0, 3).Draw(t, label+"-stray") == 0}
	switch rapid.IntRange(0, 5).Draw(t, label+"-vk") {
	case 0:
		q.Value = rapid.SampledFrom(gen.StopWords).Draw(t, label+"-stop") // analyses to nothing
	case 1:
		w := rapid.SampledFrom(gen.Words).Draw(t, label+"-w")
		q.Value = w + " " + w + " " + rapid.SampledFrom(gen.Words).Draw(t, label+"-w2") // repeated term
	default:
		n := rapid.IntRange(1, 4).Draw(t, label+"-n")
		for i := 0; i < n; i++ {
			q.Value += rapid.SampledFrom(append(append([]string{}, gen.Words...), "the", "unknownword", "FRODO", "Café")).Draw(t, fmt.Sprintf("%s-t%d", label, i)) + rapid.SampledFrom([]string{" ", ", ", "! "}).Draw(t, fmt.Sprintf("%s-s%d", label, i))
		}
	}
	switch rapid.IntRange(0, 2).Draw(t, label+"-lk") {
	case 0:
		q.Limit = rapid.IntRange(1, 3).Draw(t, label+"-ls")
	default:
		q.Limit = rapid.IntRange(1, 75).Draw(t, label+"-l")
	}
	if rapid.IntRange(0, 2).Draw(t, label+"-hasw") == 0 {
		w := rapid.SampledFrom([]float32{0, 1, -1, 0.5, 3, -2.5}).Draw(t, label+"-wt")
		q.Weight = &w
	}
	if len(gen.FilterProps(g.Schema)) > 0 && rapid.IntRange(0, 2).Draw(t, label+"-hasf") == 0 {
		f := gen.FilterTree(t, label+"-f", g.M, g.Pool, 2)
		q.Filter = &f
	}
	return q
}

func genQueries(t *rapid.T, i, sub, nq int, g *gen.HistoryGen, schema models.IndexSchema) []oracle.TextQuery {
	var qs []oracle.TextQuery
	k := rapid.IntRange(1, nq).Draw(t, fmt.Sprintf("nq%d.%d", i, sub))
	for j := 0; j < k; j++ {
		q := genTextQuery(t, fmt.Sprintf("q%d.%d.%d", i, sub, j), g)
		// often ask for a term that is stored, so that scores are judged
		if j == 0 {
			for _, id := range g.M.Ids() {
				if s, ok := model.FieldString(g.M.Docs[id], gen.PText); ok {
					if toks := model.Analyse(s); len(toks) > 0 {
						q.Value = toks[rapid.IntRange(0, len(toks)-1).Draw(t, fmt.Sprintf("qt%d.%d", i, sub))]
						break
					}
				}
			}
		}
		gen.MustValid(q.ToQuery(), schema)
		qs = append(qs, q)
	}
	return qs
}

func genCase(t *rapid.T) Case {
	so := gen.SchemaOpts{Filters: rapid.Bool().Draw(t, "withFilters"), Text: true}
	ho := gen.HistoryOpts{MaxSteps: 10, MaxBatch: 10, PoolSize: rapid.SampledFrom([]int{8, 24}).Draw(t, "pool"),
		AllowRejected: rapid.IntRange(0, 4).Draw(t, "allowRejected") == 0, Reopen: true, Evict: true, FieldProb: rapid.SampledFrom([]int{50, 85, 100}).Draw(t, "fieldProb")}
	// the same id more than once in one update batch (merged in order; the indices must see the net change)
	ho.AllowDupUpdate = rapid.IntRange(0, 3).Draw(t, "dupUpdate") == 0
	nq := 5
	if vt.Thorough() {
		ho.MaxSteps, ho.MaxBatch, nq = 20, 40, 8
		ho.PoolSize = rapid.SampledFrom([]int{8, 24, 100}).Draw(t, "poolT")
	}
	schema := gen.Schema(t, so)
	c := Case{H: gen.History{Schema: schema, MaxPointSize: 1 << 20, CacheLimit: rapid.SampledFrom([]int64{-1, 0, 1000}).Draw(t, "cacheLimit")}}
	g := gen.NewHistoryGen(t, schema, c.H.MaxPointSize, ho)
	n := rapid.IntRange(1, ho.MaxSteps).Draw(t, "nsteps")
	var pending []gen.Step
	for i := 0; i < n; i++ {
		st := g.Next()
		if st.Kind == "update" && st.Note == "" {
			// rewrites that keep the set of distinct terms but change frequencies / length / order
			for pi := range st.Points {
				cur, ok := model.FieldString(g.M.Docs[st.Points[pi].Id], gen.PText)
				if _, sets := st.Points[pi].Doc[gen.PText].(string); !ok || !sets || rapid.IntRange(0, 2).Draw(t, fmt.Sprintf("same%d.%d", i, pi)) != 0 {
					continue
				}
				// the private model already holds the text this step writes: a follow-up update rewrites it
				// with the same distinct terms but other frequencies and length
				toks := model.Analyse(cur)
				if len(toks) == 0 {
					continue
				}
				variant := cur + " " + toks[rapid.IntRange(0, len(toks)-1).Draw(t, fmt.Sprintf("samew%d.%d", i, pi))]
				if rapid.Bool().Draw(t, fmt.Sprintf("samedup%d.%d", i, pi)) {
					variant += " " + toks[0] + " " + toks[0]
				}
				switch rapid.IntRange(0, 3).Draw(t, fmt.Sprintf("samekind%d.%d", i, pi)) {
				case 0:
					// the same distinct terms and the same number of tokens, other frequencies: one occurrence
					// of a repeated term becomes another term of the text
					words := strings.Fields(cur)
					if len(words) >= 3 && len(toks) >= 2 {
						at := rapid.IntRange(0, len(words)-1).Draw(t, fmt.Sprintf("sameat%d.%d", i, pi))
						words = append(append([]string{}, words...), words[at])                                     // keeps every term present
						words[at] = toks[rapid.IntRange(0, len(toks)-1).Draw(t, fmt.Sprintf("sameto%d.%d", i, pi))] // changes a frequency
						words = words[:len(words)-1]
						if v := strings.Join(words, " "); len(model.Analyse(v)) == len(model.Analyse(cur)) {
							variant = v
						}
					}
				case 1:
					// a letter replaced by another member of its case-fold orbit with a lower-case form of its
					// own (long s, Greek mu / micro sign, theta symbol): equal under case folding, other tokens
					orbit := map[rune]rune{'s': 'ſ', 'ſ': 's', 'µ': 'μ', 'μ': 'µ', 'θ': 'ϑ', 'ϑ': 'θ', 'k': 'K'}
					rs := []rune(cur)
					var at []int
					for k, r := range rs {
						if _, ok := orbit[r]; ok {
							at = append(at, k)
						}
					}
					if len(at) > 0 {
						k := at[rapid.IntRange(0, len(at)-1).Draw(t, fmt.Sprintf("foldat%d.%d", i, pi))]
						rs[k] = orbit[rs[k]]
						variant = string(rs)
					}
				}
				follow := gen.Step{Kind: "update", Points: []model.Point{{Id: st.Points[pi].Id, Doc: model.Doc{gen.PText: variant}}}, Note: "same-terms rewrite"}
				pending = append(pending, follow)
			}
		}
		c.H.Steps = append(c.H.Steps, st)
		c.Queries = append(c.Queries, genQueries(t, i, 0, nq, g, schema))
		for fi, f := range pending {
			g.M.Update(f.Points)
			c.H.Steps = append(c.H.Steps, f)
			c.Queries = append(c.Queries, genQueries(t, i, fi+1, nq, g, schema))
		}
		pending = nil
	}
	if rapid.IntRange(0, 19).Draw(t, "huge") == 0 {
		// candidates: written points whose document sets the text field
		type cand struct{ step, point int }
		var cands []cand
		for si, st := range c.H.Steps {
			if (st.Kind == "insert" || st.Kind == "update") && !strings.HasPrefix(st.Note, "rejected") {
				for pi, p := range st.Points {
					if _, ok := p.Doc[gen.PText].(string); ok {
						cands = append(cands, cand{si, pi})
					}
				}
			}
		}
		if len(cands) > 0 {
			k := rapid.IntRange(0, len(cands)-1).Draw(t, "hugeAt")
			c.Huge = &HugeDoc{Step: cands[k].step, Point: cands[k].point, Word: rapid.SampledFrom([]string{"ring", "frodo", "wizard"}).Draw(t, "hugeWord"),
				Count: rapid.SampledFrom([]int{255, 256, 32768, 65535, 65536, 65537, 70000}).Draw(t, "hugeCount"), Tail: rapid.SampledFrom([]string{"", "shire", "ring ring"}).Draw(t, "hugeTail")}
			for si := c.Huge.Step; si < len(c.Queries); si++ {
				c.Queries[si] = append(c.Queries[si], oracle.TextQuery{Value: c.Huge.Word, Operator: models.OperatorContainsAny, Limit: 3}, oracle.TextQuery{Value: c.Huge.Word + " shire", Operator: models.OperatorContainsAll, Limit: 75})
			}
		}
	}
	c.H.Rename = gen.MaybeRename(t, c.H.Schema)
	return c
}

func execCase(c Case) (res vt.Result) {
	rec := vt.R()
	h := c.expand()
	if c.Bulk != nil {
		h, c.Queries = c.bulk()
		rec.Count("cases_with_more_than_a_thousand_matching_documents", 1)
	}
	if c.Huge != nil {
		rec.Count("cases_with_a_huge_document", 1)
	}
	dir, cleanup := drive.CaseDir()
	defer cleanup()
	path := filepath.Join(dir, "sharddb.bbolt")
	mgr := drive.Manager(h.CacheLimit)
	s, err := drive.OpenNamed(path, h.Schema, h.MaxPointSize, mgr, h.Rename)
	if err != nil {
		return vt.Result{Err: fmt.Errorf("open: %v", err)}
	}
	defer func() { s.Close() }()
	m := model.NewCollection(h.Schema, h.MaxPointSize)
	m.SizeNames = h.Rename
	if len(h.Rename) > 0 {
		vt.R().Count("cases_with_renamed_properties", 1)
	}
	base := runtime.NumGoroutine()
	rewrites := 0
	nontrivial := false
	fail := func(i int, f string, a ...any) vt.Result {
		res.Err = fmt.Errorf("step %d (%s): %s", i, h.Steps[i].Kind, fmt.Sprintf(f, a...))
		return res
	}
	for i, st := range h.Steps {
		before := m.Clone()
		switch st.Kind {
		case "insert":
			reason := m.Insert(st.Points)
			err := s.Insert(st.Points)
			if (err != nil) != (reason != "") {
				return fail(i, "insert returned %v, model says %q", err, reason)
			}
			if reason != "" {
				m = before
				drive.Quiesce(base)
			}
		case "update":
			ids, reason := m.Update(st.Points)
			_, err := s.Update(st.Points)
			if (err != nil) != (reason != "") {
				return fail(i, "update returned %v, model says %q", err, reason)
			}
			if reason != "" {
				m = before
				drive.Quiesce(base)
			} else {
				for _, id := range ids {
					a, _ := model.FieldString(before.Docs[id], gen.PText)
					b, _ := model.FieldString(m.Docs[id], gen.PText)
					if a != b {
						rewrites++
					}
				}
			}
		case "delete":
			ids := m.Delete(st.Ids)
			if _, err := s.Delete(st.Ids); err != nil {
				return fail(i, "delete failed: %v", err)
			}
			rewrites += len(ids)
		case "reopen":
			if err := s.Close(); err != nil {
				return fail(i, "close: %v", err)
			}
			if s, err = drive.OpenNamed(path, h.Schema, h.MaxPointSize, mgr, h.Rename); err != nil {
				return fail(i, "reopen: %v", err)
			}
		case "evict":
			s.EvictCaches()
		}
		if err := drive.StrayVerdict(s); err != nil {
			return fail(i, "%v", err)
		}
		var cold *drive.Shard
		if i%3 == 2 || i == len(h.Steps)-1 {
			cp := filepath.Join(dir, fmt.Sprintf("copy-%d.bbolt", i))
			if err := drive.CopyFile(path, cp); err != nil {
				return fail(i, "copy: %v", err)
			}
			if cold, err = drive.OpenNamed(cp, h.Schema, h.MaxPointSize, cache.NewManager(-1), h.Rename); err != nil {
				return fail(i, "open cold copy: %v", err)
			}
		}
		for qi, q := range c.Queries[i] {
			for _, inst := range []struct {
				s    *drive.Shard
				name string
			}{{s, "the running instance"}, {cold, "a cold copy"}} {
				if inst.s == nil {
					continue
				}
				rows, err := inst.s.Search(models.SearchRequest{Query: q.ToQuery()})
				if err != nil {
					if cold != nil {
						cold.Close()
					}
					return fail(i, "query %d %+v on %s failed: %v", qi, q, inst.name, err)
				}
				matching, err := oracle.CheckText(m, q, rows)
				if err != nil {
					if cold != nil {
						cold.Close()
					}
					return fail(i, "query %d {value %q op %s limit %d filter %v} on %s: %v", qi, q.Value, q.Operator, q.Limit, q.Filter != nil, inst.name, err)
				}
				if len(model.QueryTerms(q.Value)) >= 2 && rewrites > 0 {
					nontrivial = true
					if matching > q.Limit {
						rec.Count("nontrivial_with_cut", 1)
					}
				}
			}
			rec.Count("queries", 1)
		}
		if cold != nil {
			cold.Close()
		}
		if err := drive.StrayVerdict(s); err != nil {
			return fail(i, "during queries: %v", err)
		}
	}
	rec.Count("text_rewrites_or_deletes", int64(rewrites))
	res.NonTrivial = nontrivial
	return res
}

func TestPropText(t *testing.T)   { vt.Check(t, "text", genCase, execCase) }
func TestReplayText(t *testing.T) { vt.Replay(t, "text", execCase) }
