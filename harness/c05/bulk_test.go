package c05

import (
	"fmt"
	"strings"
	"testing"

	"github.com/semafind/semadb/models"
	"pgregory.net/rapid"
	"verif/gen"
	"verif/model"
	"verif/oracle"
	"verif/vt"
)

// Corpora in which one query matches more than a thousand documents. The job `text` works with a
// handful of documents; everything that is done per match (scoring, sorting, cutting at the limit) or
// that is sized by the number of matches only shows with many of them. One word occurs in every document,
// followed by 0-49 filler words, so the matches fall into fifty distinct score classes of a few dozen
// documents each and the `limit` best form a definite set up to the class at the cut.

type BulkText struct {
	N     int   `json:"n"`     // documents of the first insert
	Seed  int   `json:"seed"`  // arrangement of the filler lengths
	Limit []int `json:"limit"` // limits of the queries
}

func bulkText(i, seed int) string {
	fill := (i*7 + seed) % 50
	words := []string{"wizard", "shire", "mordor", "elf"}
	var b strings.Builder
	b.WriteString("ring")
	for k := 0; k < fill; k++ {
		b.WriteByte(' ')
		b.WriteString(words[(i+k)%len(words)])
	}
	return b.String()
}

// bulk writes the case out: one insert of N documents, a deletion of some of the best ones, rewrites
// that shorten others; three queries after every step.
func (c Case) bulk() (gen.History, [][]oracle.TextQuery) {
	bt := c.Bulk
	h := gen.History{Schema: models.IndexSchema{gen.PText: {Type: models.IndexTypeText, Text: &models.IndexTextParameters{Analyser: "standard"}}}, MaxPointSize: 1 << 20, CacheLimit: c.H.CacheLimit}
	ins := gen.Step{Kind: "insert"}
	for i := 0; i < bt.N; i++ {
		ins.Points = append(ins.Points, model.Point{Id: gen.BulkId(i), Doc: model.Doc{gen.PText: bulkText(i, bt.Seed), "i": int64(i)}})
	}
	del := gen.Step{Kind: "delete"}
	upd := gen.Step{Kind: "update"}
	for i := 0; i < bt.N; i++ {
		switch {
		case (i*7+bt.Seed)%50 == 0 && i%3 == 0:
			del.Ids = append(del.Ids, gen.BulkId(i)) // a third of the best class goes
		case (i*7+bt.Seed)%50 == 30 && len(upd.Points) < 90:
			upd.Points = append(upd.Points, model.Point{Id: gen.BulkId(i), Doc: model.Doc{gen.PText: "ring ring"}}) // and some of a middle class become the best
		}
	}
	h.Steps = []gen.Step{ins, del, upd, {Kind: "reopen"}}
	qs := func() []oracle.TextQuery {
		var l []oracle.TextQuery
		for k, lim := range bt.Limit {
			q := oracle.TextQuery{Value: "ring", Operator: models.OperatorContainsAny, Limit: lim}
			switch k % 3 {
			case 1:
				q.Value, q.Operator = "ring wizard", models.OperatorContainsAll
			case 2:
				q.Value = "wizard elf"
			}
			l = append(l, q)
		}
		return l
	}
	return h, [][]oracle.TextQuery{qs(), qs(), qs(), qs()}
}

func genBulkCase(t *rapid.T) Case {
	c := Case{Bulk: &BulkText{N: rapid.SampledFrom([]int{1025, 1100, 1500, 2047, 2049, 2600}).Draw(t, "n"), Seed: rapid.IntRange(0, 49).Draw(t, "seed")}}
	c.H.CacheLimit = rapid.SampledFrom([]int64{-1, -1, 0, 50000}).Draw(t, "cacheLimit")
	for k := 0; k < 3; k++ {
		c.Bulk.Limit = append(c.Bulk.Limit, rapid.SampledFrom([]int{1, 10, 40, 75}).Draw(t, fmt.Sprintf("limit%d", k)))
	}
	return c
}

func TestPropBulkText(t *testing.T)   { vt.Check(t, "bulk", genBulkCase, execCase) }
func TestReplayBulkText(t *testing.T) { vt.Replay(t, "bulk", execCase) }
