package c13

import (
	"crypto/sha256"
	"fmt"
	"slices"
	"testing"

	"github.com/google/uuid"
	"github.com/semafind/semadb/cluster"
	"pgregory.net/rapid"
	"verif/vt"
)

func TestMain(m *testing.M) { vt.Main(m, "C13") }

// Case is one routing scenario.
type Case struct {
	Key     string   `json:"key"`
	Servers []string `json:"servers"`
	Perm    []int    `json:"perm"`   // permutation of indexes of Servers
	Added   string   `json:"added"`  // server not in Servers
	Remove  int      `json:"remove"` // index of the server to remove
	TopK    int      `json:"topK"`
}

// genLong draws a string of one of the lengths around which fixed buffers, length bytes and block sizes
// of hash functions change (user ids and host names have no length limit of their own).
func genLong(t *rapid.T, label string) string {
	n := rapid.SampledFrom([]int{31, 32, 33, 63, 64, 65, 127, 128, 129, 200, 230, 241, 242, 255, 256, 257, 300, 511, 512, 1000, 1024, 4096, 65536}).Draw(t, label+"-len")
	unit := rapid.StringMatching(`[a-z0-9]{1,7}`).Draw(t, label+"-unit")
	b := make([]byte, 0, n+8)
	for len(b) < n {
		b = append(b, unit...)
	}
	return string(b[:n])
}

func genServerName(t *rapid.T, label string) string {
	switch rapid.IntRange(0, 4).Draw(t, label+"-kind") {
	case 4:
		if rapid.IntRange(0, 3).Draw(t, label+"-islong") == 0 {
			return genLong(t, label+"-long") + fmt.Sprintf(".example:%d", rapid.IntRange(1, 65535).Draw(t, label+"-lp"))
		}
		return fmt.Sprintf("10.1.%d.%d:11001", rapid.IntRange(0, 3).Draw(t, label+"-la"), rapid.IntRange(0, 255).Draw(t, label+"-lb"))
	case 0:
		return fmt.Sprintf("semadb-%d.semadb.svc.cluster.local:%d", rapid.IntRange(0, 40).Draw(t, label+"-n"), rapid.IntRange(1, 65535).Draw(t, label+"-p"))
	case 1:
		return fmt.Sprintf("10.0.%d.%d:11001", rapid.IntRange(0, 3).Draw(t, label+"-a"), rapid.IntRange(0, 255).Draw(t, label+"-b"))
	case 2:
		return rapid.StringMatching(`[a-c]{1,3}`).Draw(t, label+"-short")
	default:
		return rapid.String().Draw(t, label+"-any")
	}
}

func genKey(t *rapid.T) string {
	switch rapid.IntRange(0, 4).Draw(t, "key-kind") {
	case 4:
		return genLong(t, "key-long")
	case 0:
		b := rapid.SliceOfN(rapid.Byte(), 16, 16).Draw(t, "uuid-bytes")
		u, _ := uuid.FromBytes(b)
		return u.String()
	case 1:
		return rapid.StringMatching(`[a-c]{0,4}`).Draw(t, "key-short")
	case 2:
		return rapid.StringMatching(`user[0-9]{1,6}`).Draw(t, "key-user")
	default:
		return rapid.String().Draw(t, "key-any")
	}
}

// tiedServers are two host names that receive the same 64-bit score for every key of five bytes (the hash
// is not collision resistant: a difference in one 8-byte lane is cancelled in the same lane of the next
// 32-byte stripe, and that lane does not see a five byte key). Random names never tie, so the pair is part
// of the generator: with both in the list the owner has to be the same for every order of the list.
var tiedServers = [2]string{
	"sdb68uhz2cn-0.semadb.cluster.local.4ahaa0ak.internal.example:11001",
	"sdbgffef6am-0.semadb.cluster.local.am0o3hh0.internal.example:11001",
}

func genCase(t *rapid.T) Case {
	n := rapid.IntRange(1, 16).Draw(t, "n")
	seen := map[string]bool{}
	servers := make([]string, 0, n)
	tied := n >= 2 && rapid.IntRange(0, 7).Draw(t, "tied") == 0
	if tied {
		servers = append(servers, tiedServers[0], tiedServers[1])
		seen[tiedServers[0]], seen[tiedServers[1]] = true, true
	}
	for len(servers) < n {
		s := genServerName(t, fmt.Sprintf("s%d", len(servers)))
		if seen[s] {
			s = s + fmt.Sprintf("#%d", len(servers)) // construction instead of rejection
			if seen[s] {
				continue
			}
		}
		seen[s] = true
		servers = append(servers, s)
	}
	perm := rapid.Permutation(seqInts(n)).Draw(t, "perm")
	added := genServerName(t, "added")
	for seen[added] {
		added += "+"
	}
	key := genKey(t)
	if tied {
		key = rapid.StringMatching(`[a-z0-9]{5}`).Draw(t, "key-five")
	}
	return Case{
		Key:     key,
		Servers: servers,
		Perm:    perm,
		Added:   added,
		Remove:  rapid.IntRange(0, n-1).Draw(t, "remove"),
		TopK:    rapid.IntRange(0, n+2).Draw(t, "topk"),
	}
}

func seqInts(n int) []int {
	r := make([]int, n)
	for i := range r {
		r[i] = i
	}
	return r
}

func execCase(c Case) vt.Result {
	rec := vt.R()
	n := len(c.Servers)
	res := vt.Result{}
	fail := func(f string, a ...any) vt.Result { res.Err = fmt.Errorf(f, a...); return res }
	orig := slices.Clone(c.Servers)
	full := cluster.RendezvousHash(c.Key, c.Servers, n)
	if !slices.Equal(orig, c.Servers) {
		return fail("RendezvousHash mutated its server list argument")
	}
	// the full ranking is a permutation of the servers
	if len(full) != n {
		return fail("full ranking has %d entries for %d servers", len(full), n)
	}
	a, b := slices.Clone(full), slices.Clone(c.Servers)
	slices.Sort(a)
	slices.Sort(b)
	if !slices.Equal(a, b) {
		return fail("full ranking %q is not a permutation of the servers %q", full, c.Servers)
	}
	// determinism
	if again := cluster.RendezvousHash(c.Key, c.Servers, n); !slices.Equal(full, again) {
		return fail("two calls disagree: %q vs %q", full, again)
	}
	// order independence
	permuted := make([]string, n)
	identity := true
	for i, p := range c.Perm {
		permuted[i] = c.Servers[p]
		if p != i {
			identity = false
		}
	}
	if got := cluster.RendezvousHash(c.Key, permuted, n); !slices.Equal(full, got) {
		return fail("ranking depends on server order: %q (order %q) vs %q (order %q)", full, c.Servers, got, permuted)
	}
	// top-k is a prefix of the full ranking, capped at n
	k := c.TopK
	got := cluster.RendezvousHash(c.Key, permuted, k)
	want := full[:min(k, n)]
	if !slices.Equal(got, want) {
		return fail("top-%d = %q, want prefix %q of the full ranking", k, got, want)
	}
	owner := full[0]
	if o := cluster.RendezvousHash(c.Key, permuted, 1); len(o) != 1 || o[0] != owner {
		return fail("top-1 %q is not the head %q of the ranking", o, owner)
	}
	// adding a server: the owner stays or becomes the new server
	withAdded := append(slices.Clone(permuted), c.Added)
	o2 := cluster.RendezvousHash(c.Key, withAdded, 1)[0]
	if o2 != owner && o2 != c.Added {
		return fail("adding %q moved key %q from %q to %q", c.Added, c.Key, owner, o2)
	}
	if o2 == c.Added {
		rec.Count("moved_to_added", 1)
	}
	// removing a server: owner unchanged unless it was removed
	if n > 1 {
		removed := c.Servers[c.Remove]
		rest := make([]string, 0, n-1)
		for _, s := range permuted {
			if s != removed {
				rest = append(rest, s)
			}
		}
		o3 := cluster.RendezvousHash(c.Key, rest, 1)[0]
		if owner != removed && o3 != owner {
			return fail("removing %q moved key %q from %q to %q", removed, c.Key, owner, o3)
		}
		if owner == removed {
			rec.Count("owner_removed", 1)
			if n > 1 && o3 != full[1] {
				return fail("after removing the owner the key went to %q, not to the runner-up %q", o3, full[1])
			}
		}
	}
	rec.Count(fmt.Sprintf("servers_%02d", n), 1)
	if slices.Contains(c.Servers, tiedServers[0]) && slices.Contains(c.Servers, tiedServers[1]) && len(c.Key) == 5 {
		rec.Count("two_servers_with_equal_scores", 1)
		if full[0] == tiedServers[0] || full[0] == tiedServers[1] {
			rec.Count("tie_for_the_first_place", 1)
		}
	}
	res.NonTrivial = n >= 3 && !identity
	return res
}

func TestPropRouting(t *testing.T)   { vt.Check(t, "routing", genCase, execCase) }
func TestReplayRouting(t *testing.T) { vt.Replay(t, "routing", execCase) }

// BalanceCase: every server owns a share of a large key set.
type BalanceCase struct {
	Servers []string `json:"servers"`
	Salt    string   `json:"salt"`
	UserIds bool     `json:"userIds"`
}

func genBalance(t *rapid.T) BalanceCase {
	c := genCase(t)
	return BalanceCase{Servers: c.Servers, Salt: rapid.StringMatching(`[a-z0-9]{0,8}`).Draw(t, "salt"), UserIds: rapid.Bool().Draw(t, "userIds")}
}

func execBalance(c BalanceCase) vt.Result {
	n := len(c.Servers)
	total := 2000 * n
	owned := map[string]int{}
	for i := 0; i < total; i++ {
		var key string
		h := sha256.Sum256([]byte(fmt.Sprintf("%s/%d", c.Salt, i)))
		if c.UserIds {
			key = fmt.Sprintf("user-%s-%x", c.Salt, h[:4])
		} else {
			u, _ := uuid.FromBytes(h[:16])
			key = u.String()
		}
		owned[cluster.RendezvousHash(key, c.Servers, 1)[0]]++
	}
	fair := total / n
	for _, s := range c.Servers {
		if owned[s]*10 < fair {
			return vt.Result{Err: fmt.Errorf("server %q owns %d of %d keys (fair share %d, floor %d) among %q", s, owned[s], total, fair, fair/10, c.Servers)}
		}
	}
	vt.R().Count("balance_cases", 1)
	return vt.Result{NonTrivial: n >= 2}
}

func TestPropBalance(t *testing.T)   { vt.Check(t, "balance", genBalance, execBalance) }
func TestReplayBalance(t *testing.T) { vt.Replay(t, "balance", execBalance) }
