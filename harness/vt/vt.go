// Package vt is the common test scaffolding of the verification harness: it
// runs a property as "generate a plain case value with rapid, execute it
// against the real code with an explicit oracle", keeps the counters that end
// up in the evidence file, and writes the (shrunk) failing case as a JSON replay
// file that can be re-executed without rapid.
package vt

import (
	"crypto/sha256"
	"encoding/hex"
	"encoding/json"
	"fmt"
	"os"
	"path/filepath"
	"runtime/debug"
	"sort"
	"strconv"
	"sync"
	"testing"
	"time"

	"pgregory.net/rapid"
)

// Recorder collects what a run covered. One per test process.
type Recorder struct {
	mu          sync.Mutex
	Property    string
	Evaluations int64
	nontrivial  map[string]struct{}
	Counters    map[string]int64
	Samples     []any
	sampleSeen  int64
	Findings    []Finding
	Violations  []Finding
	Notes       []string
	start       time.Time
}

// Finding is either a violation or an occurrence of a catalogued defect.
type Finding struct {
	Property  string `json:"property"`
	Id        string `json:"id,omitempty"`        // catalogue id (e.g. D10) when the harness recognised a listed defect
	Signature string `json:"signature,omitempty"` // short stable description of what failed
	Replay    string `json:"replay,omitempty"`
	Message   string `json:"message,omitempty"`
}

var (
	global     *Recorder
	globalOnce sync.Once
)

// R returns the process-wide recorder.
func R() *Recorder {
	globalOnce.Do(func() {
		global = &Recorder{
			nontrivial: map[string]struct{}{},
			Counters:   map[string]int64{},
			start:      time.Now(),
		}
	})
	return global
}

// Count adds n to a named counter (class distribution of generated cases).
func (r *Recorder) Count(name string, n int64) {
	r.mu.Lock()
	r.Counters[name] += n
	r.mu.Unlock()
}

// Max keeps the maximum of a named gauge.
func (r *Recorder) Max(name string, v int64) {
	r.mu.Lock()
	if v > r.Counters[name] {
		r.Counters[name] = v
	}
	r.mu.Unlock()
}

// Eval counts one executed case.
func (r *Recorder) Eval() {
	r.mu.Lock()
	r.Evaluations++
	r.mu.Unlock()
}

// NonTrivial records a case (by fingerprint) that satisfies the property's
// non-triviality rule.
func (r *Recorder) NonTrivial(fingerprint string) {
	r.mu.Lock()
	r.nontrivial[fingerprint] = struct{}{}
	r.mu.Unlock()
}

// Sample offers a case for the sample reservoir (first 3 kept, then sparse).
func (r *Recorder) Sample(v any) {
	r.mu.Lock()
	defer r.mu.Unlock()
	r.sampleSeen++
	if len(r.Samples) < 3 {
		r.Samples = append(r.Samples, v)
		return
	}
	// deterministic sparse replacement: keep cases number 10, 100, 1000, ...
	n := r.sampleSeen
	for n >= 10 && n%10 == 0 {
		n /= 10
	}
	if n == 1 && len(r.Samples) < 6 {
		r.Samples = append(r.Samples, v)
	}
}

// Known records an occurrence of a catalogued defect (never a test failure).
func (r *Recorder) Known(id, signature, message string) {
	r.mu.Lock()
	defer r.mu.Unlock()
	for _, f := range r.Findings {
		if f.Id == id && f.Signature == signature {
			return
		}
	}
	r.Findings = append(r.Findings, Finding{Property: r.Property, Id: id, Signature: signature, Message: message})
}

// KnownCount reports how many catalogued findings have been observed so far.
func (r *Recorder) KnownCount() int {
	r.mu.Lock()
	defer r.mu.Unlock()
	return len(r.Findings)
}

// Violation records a violation with its replay file.
func (r *Recorder) Violation(signature, replay, message string) {
	r.mu.Lock()
	defer r.mu.Unlock()
	if len(message) > 4000 {
		message = message[:4000] + "…"
	}
	r.Violations = append(r.Violations, Finding{Property: r.Property, Signature: signature, Replay: replay, Message: message})
}

func (r *Recorder) Note(s string) {
	r.mu.Lock()
	r.Notes = append(r.Notes, s)
	r.mu.Unlock()
}

type statsFile struct {
	Property           string           `json:"property"`
	Evaluations        int64            `json:"evaluations"`
	NonTrivial         []string         `json:"nontrivial"`
	Counters           map[string]int64 `json:"counters"`
	Samples            []any            `json:"samples"`
	Findings           []Finding        `json:"findings"`
	Violations         []Finding        `json:"violations"`
	Notes              []string         `json:"notes"`
	WallS              float64          `json:"wall_s"`
	Seed               uint64           `json:"seed"`
	RequestedChecks    int              `json:"requested_checks"`
	DistinctNonTrivial int              `json:"distinct_nontrivial"`
}

// Flush writes the stats file named by VERIF_STATS (if set).
func (r *Recorder) Flush() {
	path := os.Getenv("VERIF_STATS")
	if path == "" {
		return
	}
	r.mu.Lock()
	defer r.mu.Unlock()
	nt := make([]string, 0, len(r.nontrivial))
	for k := range r.nontrivial {
		nt = append(nt, k)
	}
	sort.Strings(nt)
	sf := statsFile{
		Property: r.Property, Evaluations: r.Evaluations, NonTrivial: nt, Counters: r.Counters,
		Samples: r.Samples, Findings: r.Findings, Violations: r.Violations, Notes: r.Notes,
		WallS: time.Since(r.start).Seconds(), DistinctNonTrivial: len(nt),
	}
	b, err := json.Marshal(sf)
	if err != nil {
		// samples not serialisable: drop them rather than lose the run
		sf.Samples = []any{fmt.Sprintf("unserialisable samples: %v", err)}
		b, _ = json.Marshal(sf)
	}
	tmp := path + ".tmp"
	if err := os.WriteFile(tmp, b, 0644); err == nil {
		os.Rename(tmp, path)
	}
}

var exitHooks []func()

// OnExit registers a cleanup run after the tests of the process.
func OnExit(f func()) { exitHooks = append(exitHooks, f) }

// Main is the TestMain body shared by all property packages.
func Main(m *testing.M, property string) {
	R().Property = property
	code := m.Run()
	R().Flush()
	for _, f := range exitHooks {
		f()
	}
	os.Exit(code)
}

// Fingerprint hashes a JSON-serialisable value.
func Fingerprint(v any) string {
	b, err := json.Marshal(v)
	if err != nil {
		b = []byte(fmt.Sprintf("%#v", v))
	}
	h := sha256.Sum256(b)
	return hex.EncodeToString(h[:8])
}

// Tier returns "quick" or "thorough".
func Tier() string {
	if os.Getenv("VERIF_TIER") == "thorough" {
		return "thorough"
	}
	return "quick"
}

// Thorough reports whether the thorough tier is selected.
func Thorough() bool { return Tier() == "thorough" }

// EnvInt reads an integer environment variable with a default.
func EnvInt(name string, def int) int {
	if s := os.Getenv(name); s != "" {
		if v, err := strconv.Atoi(s); err == nil {
			return v
		}
	}
	return def
}

// ScratchDir returns a fresh scratch directory (tmpfs when available), removed
// by the returned cleanup.
func ScratchDir(prefix string) (string, func()) {
	base := os.Getenv("VERIF_SCRATCH")
	if base == "" {
		if st, err := os.Stat("/dev/shm"); err == nil && st.IsDir() {
			base = "/dev/shm"
		} else {
			base = os.TempDir()
		}
	}
	dir, err := os.MkdirTemp(base, "verif-"+prefix+"-")
	if err != nil {
		panic(err)
	}
	return dir, func() { os.RemoveAll(dir) }
}

// ReplayDir is where failing cases are written.
func ReplayDir() string {
	d := os.Getenv("VERIF_REPLAY_DIR")
	if d == "" {
		d = filepath.Join(os.TempDir(), "verif-replays")
	}
	os.MkdirAll(d, 0755)
	return d
}

// Result of executing one case.
type Result struct {
	// NonTrivial says whether the case satisfied the non-triviality rule.
	NonTrivial bool
	// Err non-nil means the oracle was violated.
	Err error
}

// JournalCases makes Check write every case to the journal file (VERIF_JOURNAL)
// before executing it, so that a case that kills the process can be recovered
// by the driver.
var JournalCases = true

// ReplayFile is the on-disk form of a failing case.
type ReplayFile struct {
	Property string          `json:"property"`
	Test     string          `json:"test"`
	Error    string          `json:"error"`
	Case     json.RawMessage `json:"case"`
}

// Check runs a generate-then-execute property under rapid. gen must draw every
// random choice from t; exec must be a deterministic function of the case (up
// to the nondeterminism the oracle tolerates). The last failing case of the
// shrink is left in the replay file.
func Check[C any](t *testing.T, name string, gen func(*rapid.T) C, exec func(C) Result) {
	t.Helper()
	rec := R()
	replayPath := filepath.Join(ReplayDir(), fmt.Sprintf("%s-%s-%d.json", rec.Property, name, os.Getpid()))
	var lastErr error
	failed := false
	os.RemoveAll(filepath.Join("testdata", "rapid"))
	// rapid reports a failure with Fatalf (Goexit), so the bookkeeping runs deferred
	defer func() {
		if failed || t.Failed() {
			msg := "test failed without oracle error (panic or rapid error)"
			if lastErr != nil {
				msg = lastErr.Error()
			}
			if !failed {
				replayPath = ""
			}
			rec.Violation(name, replayPath, msg)
		}
	}()
	rapid.Check(t, func(rt *rapid.T) {
		c := gen(rt)
		rec.Eval()
		if JournalCases {
			if jp := os.Getenv("VERIF_JOURNAL"); jp != "" {
				writeReplay(jp, rec.Property, name, c, fmt.Errorf("the test process died while executing this case"))
			}
		}
		res := guarded(exec, c)
		if res.NonTrivial {
			rec.NonTrivial(Fingerprint(c))
		}
		rec.Sample(c)
		if res.Err != nil {
			failed = true
			lastErr = res.Err
			writeReplay(replayPath, rec.Property, name, c, res.Err)
			rt.Fatalf("%s/%s: %v", rec.Property, name, res.Err)
		}
	})
}

// guarded runs exec and turns a panic of the calling goroutine (inside the code under test or the
// oracle) into an oracle error, so that the case is saved as a replay like any other failure.
func guarded[C any](exec func(C) Result, c C) (res Result) {
	defer func() {
		if p := recover(); p != nil {
			res.Err = fmt.Errorf("panic while executing the case: %v\n%s", p, debug.Stack())
		}
	}()
	return exec(c)
}

func writeReplay(path, property, test string, c any, err error) {
	cb, jerr := json.MarshalIndent(c, "", " ")
	if jerr != nil {
		cb = []byte(fmt.Sprintf("%q", fmt.Sprintf("unserialisable case: %v: %#v", jerr, c)))
	}
	rf := ReplayFile{Property: property, Test: test, Error: err.Error(), Case: cb}
	b, _ := json.MarshalIndent(rf, "", " ")
	os.WriteFile(path, b, 0644)
}

// WriteReplay is exported for checks that build their replay files themselves
// (schedule-based checks, child-process journals).
func WriteReplay(name string, c any, err error) string {
	rec := R()
	p := filepath.Join(ReplayDir(), fmt.Sprintf("%s-%s-%d.json", rec.Property, name, os.Getpid()))
	writeReplay(p, rec.Property, name, c, err)
	return p
}

// Replay executes saved cases (VERIF_REPLAY = one file, else every file under
// corpus dir that names this test) through exec, bypassing rapid.
func Replay[C any](t *testing.T, name string, exec func(C) Result) {
	t.Helper()
	rec := R()
	var files []string
	if f := os.Getenv("VERIF_REPLAY"); f != "" {
		files = []string{f}
	} else if d := os.Getenv("VERIF_CORPUS"); d != "" {
		m, _ := filepath.Glob(filepath.Join(d, "*.json"))
		sort.Strings(m)
		files = m
	}
	for _, f := range files {
		b, err := os.ReadFile(f)
		if err != nil {
			t.Errorf("replay %s: %v", f, err)
			continue
		}
		var rf ReplayFile
		if err := json.Unmarshal(b, &rf); err != nil {
			t.Errorf("replay %s: %v", f, err)
			continue
		}
		if rf.Test != name {
			continue
		}
		var c C
		if err := json.Unmarshal(rf.Case, &c); err != nil {
			t.Errorf("replay %s: bad case: %v", f, err)
			continue
		}
		rec.Eval()
		rec.Count("replayed", 1)
		res := guarded(exec, c)
		if res.NonTrivial {
			rec.NonTrivial(Fingerprint(c))
		}
		rec.Sample(c)
		if res.Err != nil {
			rec.Violation(name, f, res.Err.Error())
			t.Errorf("replay %s: %v", f, res.Err)
		}
	}
}
