package c17

import (
	"errors"
	"fmt"
	"math"
	"net"
	"path/filepath"
	"sort"
	"strings"
	"sync"
	"testing"
	"time"

	"github.com/google/uuid"
	"github.com/semafind/semadb/cluster"
	"github.com/semafind/semadb/cluster/mrpc"
	"github.com/semafind/semadb/models"
	"pgregory.net/rapid"
	"verif/drive"
	"verif/model"
	"verif/vt"
)

func TestMain(m *testing.M) {
	vt.OnExit(drive.Cleanup)
	vt.Main(m, "C17")
}

// Step of a multi-shard history.
type Step struct {
	Kind string `json:"kind"` // insert | update | delete | search
	Via  int    `json:"via"`  // entry node
	// ViaGateway: in a case with a gateway the request enters through it instead
	ViaGateway bool `json:"viaGateway,omitempty"`
	Down       int  `json:"down"` // -1, or the node that is unavailable during this request (never the entry node)
	// Hang: the Down node is not unreachable but hung: it accepts the requests and does not answer within
	// the RPC timeout (only in cases with a 1 s timeout)
	Hang bool `json:"hang,omitempty"`
	// Wedge: the unavailable server is down and something else accepts TCP connections at its address and
	// never answers (a frozen process whose listen queue still accepts, a black-holed address): the
	// connection handshake of the RPC layer itself gets no answer
	Wedge  bool          `json:"wedge,omitempty"`
	Points []model.Point `json:"points,omitempty"`
	Ids    []uuid.UUID   `json:"ids,omitempty"`
	Search *SearchSpec   `json:"search,omitempty"`
	// Oversize: index of the update point that carries a field so large that the merged document
	// exceeds the plan's maximum point size: the shard holding it rejects its whole part of the batch
	Oversize int `json:"oversize,omitempty"` // 1-based, 0 = none
}

type SearchSpec struct {
	Kind    string              `json:"kind"`           // range | all | near | tags
	Tags    []string            `json:"tags,omitempty"` // tags: values of a containsAll / containsAny query on the case-insensitive string array
	TagsAll bool                `json:"tagsAll,omitempty"`
	Lo      int64               `json:"lo"`
	Hi      int64               `json:"hi"`
	Vector  []float32           `json:"vector,omitempty"`
	VLimit  int                 `json:"vlimit,omitempty"`
	Weight  *float32            `json:"weight,omitempty"`
	Sort    []models.SortOption `json:"sort,omitempty"`
	Offset  int                 `json:"offset"`
	Limit   int                 `json:"limit"`
}

type Case struct {
	// HangCase: the nodes run with an RPC timeout of one second and "down" steps may be hung peers
	HangCase bool `json:"hangCase,omitempty"`
	// Gateway: a further node that is not in the server list (it stores nothing, every request it takes is
	// routed to the listed servers); its own list names exactly the storage servers
	Gateway bool `json:"gateway,omitempty"`
	// ZeroRetries: the nodes are configured with rpcRetries: 0 (the value a configuration file that omits
	// the key gets); a call is still attempted once
	ZeroRetries        bool   `json:"zeroRetries,omitempty"`
	Nodes              int    `json:"nodes"`
	MaxShardPointCount int64  `json:"maxShardPointCount"`
	Steps              []Step `json:"steps"`
}

var schema = models.IndexSchema{
	"n":    {Type: models.IndexTypeInteger},
	"tag":  {Type: models.IndexTypeString, String: &models.IndexStringParameters{CaseSensitive: true}},
	"vec":  {Type: models.IndexTypeVectorFlat, VectorFlat: &models.IndexVectorFlatParameters{VectorSize: 2, DistanceMetric: models.DistanceEuclidean}},
	"tags": {Type: models.IndexTypeStringArray, StringArray: &models.IndexStringArrayParameters{IndexStringParameters: models.IndexStringParameters{CaseSensitive: false}}},
}

func poolIds(n int) []uuid.UUID {
	ids := make([]uuid.UUID, n)
	for i := range ids {
		var u uuid.UUID
		u[0], u[1], u[6], u[8], u[15] = byte(i*53), byte(i), 0x40, 0x80, byte(200-i)
		ids[i] = u
	}
	return ids
}

func genDoc(t *rapid.T, label string) model.Doc {
	n := int64(rapid.IntRange(-3, 6).Draw(t, label+"-n"))
	if rapid.IntRange(0, 7).Draw(t, label+"-nbig") == 0 {
		// sort keys far apart (their difference does not fit an int64)
		n = rapid.SampledFrom([]int64{math.MinInt64, math.MinInt64 + 1, -9000000000000000000, 9000000000000000000, math.MaxInt64 - 1, math.MaxInt64}).Draw(t, label+"-nbigv")
	}
	d := model.Doc{"n": n, "tag": rapid.SampledFrom([]string{"a", "b", "c"}).Draw(t, label+"-tag"),
		"vec": []float32{float32(rapid.IntRange(-4, 4).Draw(t, label+"-x")), float32(rapid.IntRange(-4, 4).Draw(t, label+"-y"))}}
	if rapid.IntRange(0, 3).Draw(t, label+"-rank") > 0 {
		d["rank"] = int64(rapid.IntRange(0, 3).Draw(t, label+"-rk"))
	}
	if rapid.IntRange(0, 3).Draw(t, label+"-nested") > 0 {
		d["meta"] = map[string]any{"rank": int64(rapid.IntRange(0, 5).Draw(t, label+"-mrk"))} // a sort key below a map
	}
	if rapid.IntRange(0, 3).Draw(t, label+"-hastags") > 0 {
		d["tags"] = rapid.SliceOfNDistinct(rapid.SampledFrom([]string{"Go", "go", "RUST", "rust", "Zig"}), 1, 3, rapid.ID[string]).Draw(t, label+"-tags")
	}
	return d
}

func genCase(t *rapid.T) Case {
	c := Case{Nodes: rapid.IntRange(1, 3).Draw(t, "nodes"), MaxShardPointCount: int64(rapid.IntRange(2, 5).Draw(t, "mspc"))}
	c.HangCase = c.Nodes > 1 && rapid.IntRange(0, 11).Draw(t, "hangCase") == 0
	c.Gateway = rapid.IntRange(0, 4).Draw(t, "gateway") == 0
	c.ZeroRetries = !c.HangCase && rapid.IntRange(0, 5).Draw(t, "zeroRetries") == 0
	hangsLeft := 2
	pool := poolIds(24)
	stored := map[uuid.UUID]bool{}
	n := rapid.IntRange(2, 10).Draw(t, "nsteps")
	if vt.Thorough() {
		n = rapid.IntRange(2, 20).Draw(t, "nstepsT")
	}
	for i := 0; i < n; i++ {
		st := Step{Via: rapid.IntRange(0, c.Nodes-1).Draw(t, fmt.Sprintf("via%d", i)), Down: -1}
		st.ViaGateway = c.Gateway && rapid.Bool().Draw(t, fmt.Sprintf("viagw%d", i))
		k := rapid.IntRange(0, 9).Draw(t, fmt.Sprintf("k%d", i))
		if i == 0 {
			k = 0
		}
		// a server restarts between two requests (same address, same data): the other nodes are left
		// with a dead cached connection to it
		if i > 0 && c.Nodes > 1 && rapid.IntRange(0, 7).Draw(t, fmt.Sprintf("restart%d", i)) == 0 {
			c.Steps = append(c.Steps, Step{Kind: "restart", Via: rapid.IntRange(0, c.Nodes-1).Draw(t, fmt.Sprintf("restartNode%d", i)), Down: -1})
		}
		switch {
		case k <= 3:
			st.Kind = "insert"
			var free []uuid.UUID
			for _, id := range pool {
				if !stored[id] {
					free = append(free, id)
				}
			}
			cnt := 0
			if len(free) > 0 {
				cnt = rapid.IntRange(1, min(8, len(free))).Draw(t, fmt.Sprintf("ni%d", i))
			}
			perm := rapid.Permutation(free).Draw(t, fmt.Sprintf("ins%d", i))
			for j := 0; j < cnt; j++ {
				st.Points = append(st.Points, model.Point{Id: perm[j], Doc: genDoc(t, fmt.Sprintf("d%d.%d", i, j))})
				stored[perm[j]] = true
			}
		case k <= 5:
			st.Kind = "update"
			cnt := rapid.IntRange(1, 5).Draw(t, fmt.Sprintf("nu%d", i))
			seen := map[uuid.UUID]bool{}
			// one update request in four may name an id more than once (merged in order)
			dupOK := rapid.IntRange(0, 3).Draw(t, fmt.Sprintf("udup%d", i)) == 0
			if rapid.IntRange(0, 4).Draw(t, fmt.Sprintf("ubig%d", i)) == 0 {
				// a long request (the API takes 100 points per update) that names ids again and again with
				// conflicting values: the order of the occurrences of an id decides what is stored
				cnt, dupOK = rapid.IntRange(13, 40).Draw(t, fmt.Sprintf("nubig%d", i)), true
			}
			for j := 0; j < cnt; j++ {
				id := rapid.SampledFrom(pool).Draw(t, fmt.Sprintf("u%d.%d", i, j))
				if seen[id] && !dupOK {
					continue
				}
				seen[id] = true
				d := model.Doc{"tag": rapid.SampledFrom([]string{"a", "b", "z"}).Draw(t, fmt.Sprintf("ut%d.%d", i, j))}
				if rapid.Bool().Draw(t, fmt.Sprintf("un%d.%d", i, j)) {
					d["n"] = int64(rapid.IntRange(-3, 6).Draw(t, fmt.Sprintf("unv%d.%d", i, j)))
				}
				st.Points = append(st.Points, model.Point{Id: id, Doc: d})
			}
			if len(st.Points) > 0 && rapid.IntRange(0, 3).Draw(t, fmt.Sprintf("over%d", i)) == 0 {
				st.Oversize = 1 + rapid.IntRange(0, len(st.Points)-1).Draw(t, fmt.Sprintf("overi%d", i))
			}
		case k == 6:
			st.Kind = "delete"
			cnt := rapid.IntRange(1, 5).Draw(t, fmt.Sprintf("nd%d", i))
			seen := map[uuid.UUID]bool{}
			dupOK := rapid.IntRange(0, 3).Draw(t, fmt.Sprintf("ddup%d", i)) == 0
			for j := 0; j < cnt; j++ {
				id := rapid.SampledFrom(pool).Draw(t, fmt.Sprintf("del%d.%d", i, j))
				if !seen[id] || dupOK {
					seen[id] = true
					st.Ids = append(st.Ids, id)
				}
			}
		default:
			st.Kind = "search"
			sp := &SearchSpec{Kind: rapid.SampledFrom([]string{"range", "all", "near", "near", "tags"}).Draw(t, fmt.Sprintf("sk%d", i))}
			if sp.Kind == "tags" {
				// values that repeat themselves once the case is folded
				sp.Tags = rapid.SliceOfN(rapid.SampledFrom([]string{"Go", "go", "GO", "RUST", "rust", "Zig", "zig"}), 1, 4).Draw(t, fmt.Sprintf("stags%d", i))
				sp.TagsAll = rapid.Bool().Draw(t, fmt.Sprintf("stagsall%d", i))
			}
			sp.Lo = int64(rapid.IntRange(-4, 6).Draw(t, fmt.Sprintf("lo%d", i)))
			sp.Hi = sp.Lo + int64(rapid.IntRange(1, 8).Draw(t, fmt.Sprintf("hi%d", i)))
			sp.Vector = []float32{float32(rapid.IntRange(-4, 4).Draw(t, fmt.Sprintf("qx%d", i))), float32(rapid.IntRange(-4, 4).Draw(t, fmt.Sprintf("qy%d", i)))}
			sp.VLimit = rapid.IntRange(1, 30).Draw(t, fmt.Sprintf("vl%d", i))
			if rapid.IntRange(0, 2).Draw(t, fmt.Sprintf("w%d", i)) == 0 {
				w := rapid.SampledFrom([]float32{0.5, 2, -1}).Draw(t, fmt.Sprintf("wv%d", i))
				sp.Weight = &w
			}
			if rapid.IntRange(0, 2).Draw(t, fmt.Sprintf("hs%d", i)) == 0 {
				sp.Sort = append(sp.Sort, models.SortOption{Property: rapid.SampledFrom([]string{"n", "rank", "tag", "meta.rank", "meta.rank"}).Draw(t, fmt.Sprintf("sp%d", i)), Descending: rapid.Bool().Draw(t, fmt.Sprintf("sd%d", i))})
				if rapid.Bool().Draw(t, fmt.Sprintf("s2%d", i)) {
					sp.Sort = append(sp.Sort, models.SortOption{Property: "n", Descending: rapid.Bool().Draw(t, fmt.Sprintf("sd2%d", i))})
				}
			}
			sp.Offset = rapid.SampledFrom([]int{0, 0, 1, 2, 3, 6}).Draw(t, fmt.Sprintf("off%d", i))
			sp.Limit = rapid.SampledFrom([]int{1, 2, 5, 10, 100}).Draw(t, fmt.Sprintf("lim%d", i))
			st.Search = sp
		}
		if c.Nodes > 1 && st.Kind != "insert" && rapid.IntRange(0, 3).Draw(t, fmt.Sprintf("down%d", i)) == 0 {
			st.Down = (st.Via + 1 + rapid.IntRange(0, c.Nodes-2).Draw(t, fmt.Sprintf("downn%d", i))) % c.Nodes
			if c.HangCase && hangsLeft > 0 && (st.Kind == "update" || st.Kind == "delete") {
				st.Hang = true
				hangsLeft--
				if rapid.IntRange(0, 2).Draw(t, fmt.Sprintf("wedge%d", i)) == 0 {
					st.Hang, st.Wedge = false, true
				}
			}
		}
		if st.Kind == "delete" && st.Down < 0 {
			// ids deleted while a server was unavailable may survive: they are never inserted again
			// (ids must stay unique per collection), so only fault-free deletions free an id
			for _, id := range st.Ids {
				delete(stored, id)
			}
		}
		c.Steps = append(c.Steps, st)
	}
	return c
}

func (sp SearchSpec) request() models.SearchRequest {
	var q models.Query
	switch sp.Kind {
	case "range":
		q = models.Query{Property: "n", Integer: &models.SearchIntegerOptions{Value: sp.Lo, EndValue: sp.Hi, Operator: models.OperatorInRange}}
	case "all":
		q = models.Query{Property: "n", Integer: &models.SearchIntegerOptions{Value: math.MinInt64, EndValue: math.MaxInt64, Operator: models.OperatorInRange}}
	case "tags":
		op := models.OperatorContainsAny
		if sp.TagsAll {
			op = models.OperatorContainsAll
		}
		q = models.Query{Property: "tags", StringArray: &models.SearchStringArrayOptions{Value: append([]string{}, sp.Tags...), Operator: op}}
	default:
		q = models.Query{Property: "vec", VectorFlat: &models.SearchVectorFlatOptions{Vector: sp.Vector, Operator: models.OperatorNear, Limit: sp.VLimit, Weight: sp.Weight}}
	}
	return models.SearchRequest{Query: q, Select: []string{"*"}, Sort: sp.Sort, Offset: sp.Offset, Limit: sp.Limit}
}

type env struct {
	nodes   []*cluster.ClusterNode
	specs   []drive.NodeSpec
	servers []string
	plan    models.UserPlan
}

func (e *env) collection(via int) (models.Collection, error) {
	col, err := e.nodes[via].GetCollection("alice", "col")
	col.UserPlan = e.plan
	return col, err
}

// locate asks every shard (through node via) which of the ids it holds.
func (e *env) locate(via int, ids []uuid.UUID) (map[uuid.UUID][]string, map[string]string, error) {
	col, err := e.collection(via)
	if err != nil {
		return nil, nil, err
	}
	vals := make([]string, len(ids))
	for i, id := range ids {
		vals[i] = id.String()
	}
	where := map[uuid.UUID][]string{}
	serverOf := map[string]string{}
	for _, sh := range col.ShardIds {
		srv := cluster.RendezvousHash(sh, e.servers, 1)[0]
		serverOf[sh] = srv
		if len(vals) == 0 {
			continue
		}
		req := cluster.RPCSearchPointsRequest{RPCRequestArgs: cluster.RPCRequestArgs{Source: e.specs[via].Name(), Dest: srv}, Collection: col, ShardId: sh,
			SearchRequest: models.SearchRequest{Query: models.Query{Property: "_id", StringArray: &models.SearchStringArrayOptions{Value: vals, Operator: models.OperatorContainsAny}}}}
		var resp cluster.RPCSearchPointsResponse
		if err := e.nodes[via].RPCSearchPoints(&req, &resp); err != nil {
			return nil, nil, fmt.Errorf("shard %s on %s: %v", sh, srv, err)
		}
		for _, p := range resp.Points {
			where[p.Id] = append(where[p.Id], sh)
		}
	}
	return where, serverOf, nil
}

func execCase(c Case) (res vt.Result) {
	rec := vt.R()
	dir, cleanup := drive.CaseDir()
	defer cleanup()
	e := &env{plan: drive.UserPlan(5, 1000, 1<<16)}
	for k := 0; k < c.Nodes; k++ {
		host := drive.LoopbackHost(k + 1)
		e.specs = append(e.specs, drive.NodeSpec{Host: host, Port: drive.FreePort(host)})
		e.servers = append(e.servers, e.specs[k].Name())
	}
	nodeOpts := drive.ClusterOpts{MaxShardPointCount: c.MaxShardPointCount, ShardTimeout: 2, RpcTimeout: 5, RpcRetries: 1}
	if c.ZeroRetries {
		nodeOpts.RpcRetries, nodeOpts.ZeroRetries = 0, true
		rec.Count("cases_with_rpc_retries_0", 1)
	}
	if c.HangCase {
		nodeOpts.RpcTimeout = 1
	}
	hangRelease := make(chan struct{})
	defer close(hangRelease)
	// every node lists the servers in an order of its own (itself first), as separately written
	// configurations do: routing must not depend on it
	serversOf := func(k int) []string {
		return append(append([]string{}, e.servers[k:]...), e.servers[:k]...)
	}
	for k := 0; k < c.Nodes; k++ {
		n, err := drive.NewClusterNode(filepath.Join(dir, fmt.Sprintf("node%d", k)), e.specs[k], serversOf(k), nodeOpts, c.Nodes > 1 || c.Gateway)
		if err != nil {
			return vt.Result{Err: fmt.Errorf("node %d: %v", k, err)}
		}
		e.nodes = append(e.nodes, n)
	}
	if c.Gateway {
		host := drive.LoopbackHost(c.Nodes + 1)
		spec := drive.NodeSpec{Host: host, Port: drive.FreePort(host)}
		gw, err := drive.NewClusterNode(filepath.Join(dir, "gateway"), spec, append([]string{}, e.servers...), nodeOpts, true)
		if err != nil {
			return vt.Result{Err: fmt.Errorf("gateway: %v", err)}
		}
		e.nodes = append(e.nodes, gw)
		e.specs = append(e.specs, spec)
		rec.Count("cases_with_a_gateway", 1)
	}
	defer func() {
		cluster.VerifFaultFn.Store(nil)
		mrpc.VerifRequestFn.Store(nil)
		for _, n := range e.nodes {
			if n != nil {
				n.Close()
			}
		}
	}()
	if err := e.nodes[0].CreateCollection(models.Collection{UserId: "alice", Id: "col", Replicas: 1, UserPlan: e.plan, IndexSchema: schema}); err != nil {
		return vt.Result{Err: fmt.Errorf("create collection: %v", err)}
	}
	m := model.NewCollection(schema, 1<<16)
	pool := poolIds(24)
	maxShards, faults := 0, 0
	for i, st := range c.Steps {
		fail := func(f string, a ...any) vt.Result {
			res.Err = fmt.Errorf("step %d (%s via node %d, node down: %d): %s", i, st.Kind, st.Via, st.Down, fmt.Sprintf(f, a...))
			return res
		}
		if st.Kind == "restart" {
			if c.Nodes < 2 || st.Via >= len(e.nodes) {
				continue
			}
			if err := drive.StopClusterNode(e.nodes[st.Via], e.specs[st.Via]); err != nil {
				return fail("closing the node: %v", err)
			}
			n, err := drive.NewClusterNode(filepath.Join(dir, fmt.Sprintf("node%d", st.Via)), e.specs[st.Via], serversOf(st.Via), nodeOpts, true)
			if err != nil {
				return fail("restarting the node: %v", err)
			}
			e.nodes[st.Via] = n
			rec.Count("server_restarts", 1)
			continue
		}
		via := st.Via
		if c.Gateway && st.ViaGateway {
			via = c.Nodes
		}
		viaServer := ""
		if via < len(e.servers) {
			viaServer = e.servers[via]
		}
		col, err := e.collection(via)
		if err != nil {
			return fail("get collection: %v", err)
		}
		// where does every pool id live before the step?
		where, serverOf, err := e.locate(via, pool)
		if err != nil {
			return fail("locating points: %v", err)
		}
		downServer := ""
		stopHang := func() {}
		if st.Down >= 0 && st.Wedge && c.HangCase && st.Down < c.Nodes && st.Down != via {
			// the server is gone and its address accepts connections that nobody serves
			downServer = e.servers[st.Down]
			k := st.Down
			if err := drive.StopClusterNode(e.nodes[k], e.specs[k]); err != nil {
				return fail("closing the node: %v", err)
			}
			e.nodes[k] = nil
			ln, err := net.Listen("tcp", e.specs[k].Name())
			if err != nil {
				return fail("harness: listening at the stopped node's address: %v", err)
			}
			var held []net.Conn
			var heldMu sync.Mutex
			go func() {
				for {
					conn, err := ln.Accept()
					if err != nil {
						return
					}
					heldMu.Lock()
					held = append(held, conn)
					heldMu.Unlock()
				}
			}()
			stopHang = func() {
				ln.Close()
				heldMu.Lock()
				for _, conn := range held {
					conn.Close()
				}
				heldMu.Unlock()
				if n, err := drive.NewClusterNode(filepath.Join(dir, fmt.Sprintf("node%d", k)), e.specs[k], serversOf(k), nodeOpts, true); err == nil {
					e.nodes[k] = n
				}
			}
			faults++
			rec.Count("steps_with_a_wedged_peer", 1)
			// a request that needs that server must come back (as with any unavailable server)
			probeDone := make(chan struct{})
			go func() {
				defer close(probeDone)
				e.nodes[via].GetShardsInfo(col)
			}()
			select {
			case <-probeDone:
			case <-time.After(20 * time.Second):
				return fail("a request through node %d does not return within 20 s (RPC timeout 1 s, 1 attempt) while server %d accepts connections without answering the RPC handshake", via, k)
			}
		} else if st.Down >= 0 && st.Hang && c.HangCase {
			// a hung peer: its requests are held unanswered; afterwards its connections are reset (the held
			// requests are never executed) and the other nodes reconnect
			downServer = e.servers[st.Down]
			end := drive.HangServer(e.specs[st.Down], hangRelease)
			spec := e.specs[st.Down]
			stopHang = func() { end(); drive.DropServerConns(spec) }
			faults++
			rec.Count("steps_with_a_hung_peer", 1)
		} else if st.Down >= 0 {
			downServer = e.servers[st.Down]
			ds := downServer
			fn := func(point string, _ int) error {
				if point == "route:"+ds {
					return errors.New("verif: server unavailable")
				}
				return nil
			}
			cluster.VerifFaultFn.Store(&fn)
			faults++
		}
		unreachable := func(id uuid.UUID) bool {
			for _, sh := range where[id] {
				if serverOf[sh] == downServer {
					return true
				}
			}
			return false
		}
		anyShardDown := false
		for _, sh := range col.ShardIds {
			if serverOf[sh] == downServer && downServer != "" {
				anyShardDown = true
			}
		}
		switch st.Kind {
		case "insert":
			failed, err := e.nodes[via].InsertPoints(col, drive.ToPoints(st.Points))
			if err != nil {
				return fail("insert failed: %v", err)
			}
			if len(failed) > 0 {
				return fail("insert of fresh ids reported failed ranges: %+v", failed)
			}
			m.Insert(st.Points)
		case "update":
			rejectedShards := map[string]bool{}
			if st.Oversize > 0 && st.Oversize <= len(st.Points) {
				big := st.Points[st.Oversize-1]
				big.Doc = model.CloneDoc(big.Doc)
				big.Doc["blob"] = strings.Repeat("x", 70000)
				st.Points[st.Oversize-1] = big
				if _, ok := m.Docs[big.Id]; ok {
					for _, sh := range where[big.Id] {
						if serverOf[sh] != downServer {
							rejectedShards[sh] = true
							rec.Count("shard_rejected_oversize_update", 1)
						}
					}
				}
			}
			inRejected := func(id uuid.UUID) bool {
				for _, sh := range where[id] {
					if rejectedShards[sh] {
						return true
					}
				}
				return false
			}
			failed, err := e.nodes[via].UpdatePoints(col, drive.ToPoints(st.Points))
			if err != nil {
				return fail("update failed: %v", err)
			}
			failedSet := map[uuid.UUID]string{}
			requested, listed := map[uuid.UUID]int{}, map[uuid.UUID]int{}
			for _, p := range st.Points {
				requested[p.Id]++
			}
			if len(requested) < len(st.Points) {
				rec.Count("update_requests_repeating_an_id", 1)
			}
			for _, f := range failed {
				listed[f.Id]++
				if listed[f.Id] > requested[f.Id] {
					return fail("id %s is listed %d times as failed, the request names it %d times", f.Id, listed[f.Id], requested[f.Id])
				}
				failedSet[f.Id] = f.Err
			}
			// an error answer breaks the RPC connection it travelled on: other calls of the same request that are
			// in flight to the same server may fail with it. For ids living on such a server either outcome is
			// accepted as long as the response tells the truth (verified below by reading every point back)
			rejectedServers := map[string]bool{}
			for sh := range rejectedShards {
				rejectedServers[serverOf[sh]] = true
			}
			collateral := func(id uuid.UUID) bool {
				for _, sh := range where[id] {
					if rejectedServers[serverOf[sh]] && serverOf[sh] != viaServer {
						return true
					}
				}
				return false
			}
			var apply []model.Point
			ambiguous := 0
			for _, p := range st.Points {
				_, exists := m.Docs[p.Id]
				processed := exists && !unreachable(p.Id) && !inRejected(p.Id)
				msg, isFailed := failedSet[p.Id]
				if exists && !unreachable(p.Id) && !inRejected(p.Id) && collateral(p.Id) {
					// another shard of the same server rejected its part of the batch in this very request. An
					// error answer must not disturb the other calls travelling on the same connection (it once
					// did: D17, repaired), so nothing is relaxed here; the class is only counted
					rec.Count("ids_on_a_server_whose_connection_carried_an_error", 1)
				}
				if processed == isFailed {
					return fail("id %s: stored=%v on-unavailable-server=%v in-a-shard-that-rejected-its-batch=%v, but listed-as-failed=%v (%q)", p.Id, exists, unreachable(p.Id), inRejected(p.Id), isFailed, msg)
				}
				if isFailed {
					incomplete := anyShardDown || len(rejectedShards) > 0
					if incomplete == (msg == "not found") {
						return fail("id %s failed with %q although not every shard answered=%v", p.Id, msg, incomplete)
					}
				}
				if processed {
					apply = append(apply, p)
				}
			}
			if ambiguous == 0 && len(failedSet) != countUnprocessed(st.Points, m, func(id uuid.UUID) bool { return unreachable(id) || inRejected(id) }) {
				return fail("failed list %v does not match the requested ids that no shard processed", failed)
			}
			m.Update(apply)
		case "delete":
			failed, err := e.nodes[via].DeletePoints(col, st.Ids)
			if err != nil {
				return fail("delete failed: %v", err)
			}
			failedSet := map[uuid.UUID]string{}
			for _, f := range failed {
				failedSet[f.Id] = f.Err
			}
			var apply []uuid.UUID
			for _, id := range st.Ids {
				_, exists := m.Docs[id]
				processed := exists && !unreachable(id)
				msg, isFailed := failedSet[id]
				if processed == isFailed {
					return fail("id %s: stored=%v on-unavailable-server=%v, but listed-as-failed=%v (%q)", id, exists, unreachable(id), isFailed, msg)
				}
				if isFailed && anyShardDown == (msg == "not found") {
					return fail("id %s failed with %q although a shard server was unavailable=%v", id, msg, anyShardDown)
				}
				if processed {
					apply = append(apply, id)
				}
			}
			m.Delete(apply)
		case "search":
			req := st.Search.request()
			results, err := e.nodes[via].SearchPoints(col, drive.CopyRequest(req))
			if err != nil {
				if !anyShardDown {
					return fail("search failed although every shard server is available: %v", err)
				}
				rec.Count("search_errors_with_server_down", 1)
			} else if err := checkSearch(m, *st.Search, req, results, len(col.ShardIds), !anyShardDown && c.MaxShardPointCount <= 10); err != nil {
				return fail("%v", err)
			}
		}
		cluster.VerifFaultFn.Store(nil)
		stopHang()
		// every stored point is found exactly once, with its document, through every node
		for via := range e.nodes {
			w2, _, err := e.locate(via, pool)
			if err != nil {
				return fail("afterwards, through node %d: %v", via, err)
			}
			for _, id := range pool {
				_, exists := m.Docs[id]
				if exists && len(w2[id]) != 1 {
					return fail("afterwards, through node %d: stored point %s is held by shards %v (exactly one expected)", via, id, w2[id])
				}
				if !exists && len(w2[id]) != 0 {
					return fail("afterwards, through node %d: point %s should not exist but is held by shards %v", via, id, w2[id])
				}
			}
			col2, err := e.collection(via)
			if err != nil {
				return fail("get collection through node %d: %v", via, err)
			}
			vals := make([]string, len(pool))
			for k, id := range pool {
				vals[k] = id.String()
			}
			rows, err := e.nodes[via].SearchPoints(col2, models.SearchRequest{Query: models.Query{Property: "_id", StringArray: &models.SearchStringArrayOptions{Value: vals, Operator: models.OperatorContainsAny}}, Select: []string{"*"}, Limit: 100})
			if err != nil {
				return fail("read by id through node %d: %v", via, err)
			}
			if len(rows) != len(m.Docs) {
				return fail("read of all ids through node %d returns %d points, %d are stored", via, len(rows), len(m.Docs))
			}
			for _, r := range rows {
				want, ok := m.Docs[r.Point.Id]
				doc := map[string]any(r.DecodedData)
				if doc == nil && len(r.Point.Data) > 0 {
					if doc, err = model.Decode(r.Point.Data); err != nil {
						return fail("undecodable document of %s: %v", r.Point.Id, err)
					}
				}
				if !ok || !model.DocEqual(map[string]any(want), doc) {
					return fail("through node %d point %s reads %s, expected %s", via, r.Point.Id, model.Show(doc), model.Show(map[string]any(want)))
				}
			}
			if len(col2.ShardIds) > maxShards {
				maxShards = len(col2.ShardIds)
			}
		}
	}
	rec.Max("max_shards", int64(maxShards))
	rec.Count(fmt.Sprintf("nodes_%d", c.Nodes), 1)
	res.NonTrivial = maxShards >= 2 && (c.Nodes >= 2 || faults > 0)
	return res
}

// countUnprocessed counts the distinct requested ids that no shard processed.
func countUnprocessed(points []model.Point, m *model.Collection, unreachable func(uuid.UUID) bool) int {
	n := 0
	seen := map[uuid.UUID]bool{}
	for _, p := range points {
		if seen[p.Id] {
			continue
		}
		seen[p.Id] = true
		if _, ok := m.Docs[p.Id]; !ok || unreachable(p.Id) {
			n++
		}
	}
	return n
}

// matches says whether a stored document satisfies a filter-kind search (range | all | tags).
func (sp SearchSpec) matches(d model.Doc) bool {
	switch sp.Kind {
	case "range":
		n, ok := model.FieldInt(d, "n")
		return ok && n >= sp.Lo && n <= sp.Hi
	case "all":
		_, ok := model.FieldInt(d, "n")
		return ok
	case "tags":
		have := map[string]bool{}
		if l, ok := model.Canon(d["tags"]).([]any); ok {
			for _, e := range l {
				if s, ok := e.(string); ok {
					have[strings.ToLower(s)] = true
				}
			}
		}
		all, any := true, false
		for _, v := range sp.Tags {
			if have[strings.ToLower(v)] {
				any = true
			} else {
				all = false
			}
		}
		if sp.TagsAll {
			return all
		}
		return any
	}
	return false
}

func checkSearch(m *model.Collection, sp SearchSpec, req models.SearchRequest, results []models.SearchResult, nshards int, complete bool) error {
	if len(results) > sp.Limit {
		return fmt.Errorf("%d rows for limit %d", len(results), sp.Limit)
	}
	if sp.Kind != "near" {
		// a filter: every row satisfies it; and when every shard answered, no shard holds more matches than
		// a shard is asked for, nothing is skipped and the limit is not reached, every match is there
		want := 0
		for _, d := range m.Docs {
			if sp.matches(d) {
				want++
			}
		}
		for i, r := range results {
			if d, ok := m.Docs[r.Point.Id]; ok && !sp.matches(d) {
				return fmt.Errorf("row %d: %s does not satisfy the filter (%s %v all=%v): %s", i, r.Point.Id, sp.Kind, sp.Tags, sp.TagsAll, model.Show(map[string]any(d)))
			}
		}
		if complete && sp.Offset == 0 && want <= sp.Limit && len(results) != want {
			return fmt.Errorf("%d rows, %d stored points satisfy the filter (%s lo=%d hi=%d tags=%v all=%v, limit %d)", len(results), want, sp.Kind, sp.Lo, sp.Hi, sp.Tags, sp.TagsAll, sp.Limit)
		}
	}
	seen := map[uuid.UUID]bool{}
	var prev models.SearchResult
	for i, r := range results {
		id := r.Point.Id
		if seen[id] {
			return fmt.Errorf("row %d: point %s returned twice", i, id)
		}
		seen[id] = true
		want, ok := m.Docs[id]
		if !ok {
			return fmt.Errorf("row %d: %s is not a stored point", i, id)
		}
		doc := map[string]any(r.DecodedData)
		if doc == nil && len(r.Point.Data) > 0 {
			var err error
			if doc, err = model.Decode(r.Point.Data); err != nil {
				return err
			}
		}
		if !model.DocEqual(map[string]any(want), doc) {
			return fmt.Errorf("row %d: %s carries %s, stored document is %s", i, id, model.Show(doc), model.Show(map[string]any(want)))
		}
		switch sp.Kind {
		case "range":
			n, _ := model.FieldInt(want, "n")
			if n < sp.Lo || n > sp.Hi {
				return fmt.Errorf("row %d: %s has n=%d outside [%d,%d]", i, id, n, sp.Lo, sp.Hi)
			}
		case "near":
			vec, _ := model.FieldVector(want, "vec")
			ref, tol, _ := model.RefDistance(models.DistanceEuclidean, sp.Vector, vec)
			if r.Distance == nil || math.Abs(float64(*r.Distance)-ref) > tol {
				return fmt.Errorf("row %d: %s reports distance %v, reference %v", i, id, r.Distance, ref)
			}
			w := float32(1)
			if sp.Weight != nil {
				w = *sp.Weight
			}
			if r.HybridScore != -1*w*(*r.Distance) {
				return fmt.Errorf("row %d: hybrid %v, expected %v", i, r.HybridScore, -1*w*(*r.Distance))
			}
		}
		if i > 0 {
			if len(sp.Sort) > 0 {
				if cmpSort(m.Docs[prev.Point.Id], want, sp.Sort) > 0 {
					return fmt.Errorf("rows %d and %d are not ordered by the sort keys %v (missing last)", i-1, i, sp.Sort)
				}
			} else if nshards > 1 && r.HybridScore > prev.HybridScore {
				return fmt.Errorf("rows %d and %d: hybrid score %v after %v, rows merged from %d shards are not ordered highest first", i-1, i, r.HybridScore, prev.HybridScore, nshards)
			} else if nshards == 1 && r.Distance != nil && prev.Distance != nil && *r.Distance < *prev.Distance {
				// a single shard's answer is not merged: a single vector search keeps its own order (nearest first)
				return fmt.Errorf("rows %d and %d: distance %v after %v in a single-shard vector search", i-1, i, *r.Distance, *prev.Distance)
			}
		}
		prev = r
	}
	return nil
}

func cmpSort(a, b model.Doc, opts []models.SortOption) int {
	for _, o := range opts {
		av, aok := model.Lookup(a, o.Property)
		bv, bok := model.Lookup(b, o.Property)
		switch {
		case aok && !bok:
			return -1
		case !aok && bok:
			return 1
		case !aok && !bok:
			continue
		}
		c := 0
		switch x := av.(type) {
		case int64:
			y := bv.(int64)
			if x < y {
				c = -1
			} else if x > y {
				c = 1
			}
		case string:
			c = strings.Compare(x, bv.(string))
		}
		if o.Descending {
			c = -c
		}
		if c != 0 {
			return c
		}
	}
	return 0
}

var _ = sort.Strings

func TestPropFanout(t *testing.T)   { vt.Check(t, "fanout", genCase, execCase) }
func TestReplayFanout(t *testing.T) { vt.Replay(t, "fanout", execCase) }
