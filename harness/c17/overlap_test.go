package c17

import (
	"fmt"
	"path/filepath"
	"testing"
	"time"

	"github.com/google/uuid"
	"github.com/semafind/semadb/cluster"
	"github.com/semafind/semadb/diskstore"
	"github.com/semafind/semadb/models"
	"github.com/semafind/semadb/shard"
	"pgregory.net/rapid"
	"verif/drive"
	"verif/model"
	"verif/vt"
)

// Two operations of one node in flight to the same server at the same time. A node keeps one RPC
// connection per server and multiplexes its calls on it; what happens to one call (here: it runs into
// the RPC time-out because its shard is busy) must not decide the fate of another call that the server
// answers within that call's own time. The harness keeps a shard busy by holding the storage engine's
// write lock of its file (what a long write batch does), so the server keeps reading requests and only
// the calls that need that shard wait.
//
//   t0        operation X (update or delete naming a point of the busy shard) starts at node `via`;
//             its call to the busy shard on server R will run into the time-out (2 s)
//   t0+1.2s   operation Y (insert, update or delete on another collection) starts at the same node; one
//             of its shards on R is kept busy as well, so its call is pending when X times out
//   X returns (t0+2s); 50 ms later Y's shard is let go: the server answers Y after 0.9 s, well inside
//             Y's own 2 s
//
// Y must be answered as if X had never been issued: nothing listed as failed, its effect there exactly
// once. X itself is not judged beyond returning (a call that times out may still be executed later).

type OverlapCase struct {
	Nodes int    `json:"nodes"` // 2-3 servers
	Via   int    `json:"via"`   // the node both operations go through
	XKind string `json:"xKind"` // update | delete
	YKind string `json:"yKind"` // insert | update | delete
	// YIds: which of the second collection's points Y names (indexes into its id pool), besides the one
	// living in the busy shard
	YIds []int `json:"yIds"`
}

func genOverlapCase(t *rapid.T) OverlapCase {
	c := OverlapCase{Nodes: rapid.IntRange(2, 3).Draw(t, "nodes")}
	c.Via = rapid.IntRange(0, c.Nodes-1).Draw(t, "via")
	c.XKind = rapid.SampledFrom([]string{"update", "delete"}).Draw(t, "xKind")
	c.YKind = rapid.SampledFrom([]string{"insert", "update", "delete"}).Draw(t, "yKind")
	c.YIds = rapid.SliceOfNDistinct(rapid.IntRange(0, 11), 0, 4, rapid.ID[int]).Draw(t, "yIds")
	return c
}

// holdShard keeps the write lock of a shard's database until release is closed.
func holdShard(node *cluster.ClusterNode, col models.Collection, shardId string, release <-chan struct{}) (held chan struct{}, done chan error, err error) {
	var db diskstore.DiskStore
	if err := node.VerifShardManager().DoWithShard(col, shardId, func(s *shard.Shard) error { db = s.VerifDB(); return nil }); err != nil {
		return nil, nil, err
	}
	held, done = make(chan struct{}), make(chan error, 1)
	go func() {
		done <- db.Write(func(bm diskstore.BucketManager) error {
			close(held)
			<-release
			return nil
		})
	}()
	select {
	case <-held:
	case <-time.After(10 * time.Second):
		return nil, nil, fmt.Errorf("harness: the write lock of shard %s is not free", shardId)
	}
	return held, done, nil
}

func execOverlapCase(c OverlapCase) (res vt.Result) {
	rec := vt.R()
	dir, cleanup := drive.CaseDir()
	defer cleanup()
	e := &env{plan: drive.UserPlan(5, 1000, 1<<16)}
	for k := 0; k < c.Nodes; k++ {
		host := drive.LoopbackHost(k + 1)
		e.specs = append(e.specs, drive.NodeSpec{Host: host, Port: drive.FreePort(host)})
		e.servers = append(e.servers, e.specs[k].Name())
	}
	nodeOpts := drive.ClusterOpts{MaxShardPointCount: 3, ShardTimeout: 600, RpcTimeout: 2, RpcRetries: 1}
	for k := 0; k < c.Nodes; k++ {
		n, err := drive.NewClusterNode(filepath.Join(dir, fmt.Sprintf("node%d", k)), e.specs[k], e.servers, nodeOpts, true)
		if err != nil {
			return vt.Result{Err: fmt.Errorf("node %d: %v", k, err)}
		}
		e.nodes = append(e.nodes, n)
	}
	defer func() {
		for _, n := range e.nodes {
			n.Close()
		}
	}()
	via := e.nodes[c.Via]
	viaServer := e.servers[c.Via]
	// two collections of 12 points in shards of 3
	pools := map[string][]uuid.UUID{}
	cols := map[string]models.Collection{}
	for ci, name := range []string{"busy", "other"} {
		if err := via.CreateCollection(models.Collection{UserId: "alice", Id: name, Replicas: 1, UserPlan: e.plan, IndexSchema: schema}); err != nil {
			return vt.Result{Err: fmt.Errorf("create collection: %v", err)}
		}
		col, err := via.GetCollection("alice", name)
		if err != nil {
			return vt.Result{Err: err}
		}
		col.UserPlan = e.plan
		ids := poolIds(24)[ci*12 : ci*12+12]
		pools[name] = ids
		for b := 0; b < 4; b++ {
			var pts []model.Point
			for _, id := range ids[b*3 : b*3+3] {
				pts = append(pts, model.Point{Id: id, Doc: model.Doc{"n": int64(b), "tag": "a"}})
			}
			if name == "other" && b == 3 && c.YKind == "insert" {
				pts = pts[:1] // the last shard keeps room for the two points Y inserts itself
			}
			failed, err := via.InsertPoints(col, drive.ToPoints(pts))
			if err != nil || len(failed) > 0 {
				return vt.Result{Err: fmt.Errorf("populating %s: %v %+v", name, err, failed)}
			}
			if col, err = via.GetCollection("alice", name); err != nil {
				return vt.Result{Err: err}
			}
			col.UserPlan = e.plan
		}
		cols[name] = col
	}
	// where do the points live? (asked shard by shard through the node)
	locate := func(name string) (map[uuid.UUID]string, map[string]string, error) {
		col := cols[name]
		vals := make([]string, len(pools[name]))
		for i, id := range pools[name] {
			vals[i] = id.String()
		}
		where, serverOf := map[uuid.UUID]string{}, map[string]string{}
		for _, sh := range col.ShardIds {
			srv := cluster.RendezvousHash(sh, e.servers, 1)[0]
			serverOf[sh] = srv
			req := cluster.RPCSearchPointsRequest{RPCRequestArgs: cluster.RPCRequestArgs{Source: viaServer, Dest: srv}, Collection: col, ShardId: sh,
				SearchRequest: models.SearchRequest{Query: models.Query{Property: "_id", StringArray: &models.SearchStringArrayOptions{Value: vals, Operator: models.OperatorContainsAny}}, Limit: 100}}
			var resp cluster.RPCSearchPointsResponse
			if err := via.RPCSearchPoints(&req, &resp); err != nil {
				return nil, nil, fmt.Errorf("shard %s on %s: %v", sh, srv, err)
			}
			for _, p := range resp.Points {
				where[p.Id] = sh
			}
		}
		return where, serverOf, nil
	}
	whereBusy, serverBusy, err := locate("busy")
	if err != nil {
		return vt.Result{Err: err}
	}
	whereOther, serverOther, err := locate("other")
	if err != nil {
		return vt.Result{Err: err}
	}
	// a remote server that holds a shard of both collections
	var xShard, yShard, remote string
	for sh, srv := range serverBusy {
		if srv == viaServer {
			continue
		}
		for sh2, srv2 := range serverOther {
			if srv2 == srv && (xShard == "" || sh+sh2 < xShard+yShard) {
				xShard, yShard, remote = sh, sh2, srv
			}
		}
	}
	if remote == "" {
		rec.Count("overlap_cases_without_a_common_remote_server", 1)
		return vt.Result{}
	}
	remoteNode := e.nodes[indexOf(e.servers, remote)]
	var xId uuid.UUID
	for id, sh := range whereBusy {
		if sh == xShard && (xId == uuid.UUID{} || id.String() < xId.String()) {
			xId = id
		}
	}
	// Y: for update / delete the ids of the case plus one point of the shard that will be busy; for insert
	// the two points left out above (they go to the collection's last shard, which has room for them: that
	// one is kept busy)
	var yPoints []model.Point
	yIdSet := map[uuid.UUID]bool{}
	if c.YKind == "insert" {
		last := cols["other"].ShardIds[len(cols["other"].ShardIds)-1]
		if serverOther[last] != remote {
			rec.Count("overlap_insert_cases_whose_open_shard_is_elsewhere", 1)
			return vt.Result{}
		}
		yShard = last
		for _, id := range pools["other"][10:12] {
			yIdSet[id] = true
		}
	} else {
		for _, k := range c.YIds {
			if k < 9 {
				yIdSet[pools["other"][k]] = true
			}
		}
		for id, sh := range whereOther {
			if sh == yShard {
				yIdSet[id] = true
				break
			}
		}
	}
	for _, id := range pools["other"] {
		if yIdSet[id] {
			yPoints = append(yPoints, model.Point{Id: id, Doc: model.Doc{"n": int64(77), "tag": "y"}})
		}
	}
	releaseX, releaseY := make(chan struct{}), make(chan struct{})
	xReleased, yReleased := false, false
	defer func() {
		if !xReleased {
			close(releaseX)
		}
		if !yReleased {
			close(releaseY)
		}
	}()
	_, xHoldDone, err := holdShard(remoteNode, cols["busy"], xShard, releaseX)
	if err != nil {
		return vt.Result{Err: err}
	}
	_, yHoldDone, err := holdShard(remoteNode, cols["other"], yShard, releaseY)
	if err != nil {
		return vt.Result{Err: err}
	}
	// X
	xDone := make(chan string, 1)
	t0 := time.Now()
	go func() {
		var failed []cluster.FailedPoint
		var err error
		if c.XKind == "update" {
			failed, err = via.UpdatePoints(cols["busy"], drive.ToPoints([]model.Point{{Id: xId, Doc: model.Doc{"n": int64(5)}}}))
		} else {
			failed, err = via.DeletePoints(cols["busy"], []uuid.UUID{xId})
		}
		xDone <- fmt.Sprintf("%v %+v", err, failed)
	}()
	time.Sleep(1200 * time.Millisecond)
	// Y
	type yResult struct {
		failedRanges []cluster.FailedRange
		failedPoints []cluster.FailedPoint
		err          error
	}
	yDone := make(chan yResult, 1)
	yStart := time.Now()
	go func() {
		var r yResult
		switch c.YKind {
		case "insert":
			r.failedRanges, r.err = via.InsertPoints(cols["other"], drive.ToPoints(yPoints))
		case "update":
			r.failedPoints, r.err = via.UpdatePoints(cols["other"], drive.ToPoints(yPoints))
		default:
			ids := make([]uuid.UUID, len(yPoints))
			for i, p := range yPoints {
				ids[i] = p.Id
			}
			r.failedPoints, r.err = via.DeletePoints(cols["other"], ids)
		}
		yDone <- r
	}()
	var xAnswer string
	select {
	case xAnswer = <-xDone:
	case y := <-yDone:
		// Y came back while its shard is still busy: its call to that shard cannot have been answered
		if time.Since(yStart) > 1600*time.Millisecond {
			rec.Count("overlap_cases_not_judged_harness_late", 1) // Y may have met its own time-out
			return vt.Result{}
		}
		return vt.Result{NonTrivial: true, Err: fmt.Errorf("%s on the second collection returned after %v although its shard %s on %s is still busy (%s on the first collection in flight to the same server since %v): %v %+v %+v",
			c.YKind, time.Since(yStart), yShard, remote, c.XKind, time.Since(t0), y.err, y.failedRanges, y.failedPoints)}
	case <-time.After(20 * time.Second):
		return vt.Result{Err: fmt.Errorf("%s naming a point of a busy shard has not returned after 20 s (RPC time-out 2 s, one attempt)", c.XKind)}
	}
	xTook := time.Since(t0)
	time.Sleep(50 * time.Millisecond)
	close(releaseY)
	yReleased = true
	<-yHoldDone
	late := time.Since(yStart) > 1600*time.Millisecond
	var y yResult
	select {
	case y = <-yDone:
	case <-time.After(20 * time.Second):
		return vt.Result{Err: fmt.Errorf("%s on the second collection has not returned 20 s after its shard became free", c.YKind)}
	}
	close(releaseX)
	xReleased = true
	<-xHoldDone
	time.Sleep(100 * time.Millisecond) // the server now executes X's call, which nobody waits for any more
	if late {
		// the harness itself was too slow (loaded machine): Y may have met its own time-out
		rec.Count("overlap_cases_not_judged_harness_late", 1)
		return vt.Result{}
	}
	rec.Count("overlap_"+c.XKind+"_times_out_while_"+c.YKind+"_is_pending_on_the_same_server", 1)
	if y.err != nil || len(y.failedRanges) > 0 || len(y.failedPoints) > 0 {
		return vt.Result{NonTrivial: true, Err: fmt.Errorf("%s of %d points of the second collection (answered by server %s %v after it was sent, time-out 2 s) reports failures: %v %+v %+v; meanwhile %s on the first collection had timed out on the same server after %v (%s)",
			c.YKind, len(yPoints), remote, time.Since(yStart).Round(10*time.Millisecond), y.err, y.failedRanges, y.failedPoints, c.XKind, xTook.Round(10*time.Millisecond), xAnswer)}
	}
	// Y's effect is there exactly once
	col, err := via.GetCollection("alice", "other")
	if err != nil {
		return vt.Result{Err: err}
	}
	col.UserPlan = e.plan
	vals := make([]string, len(pools["other"]))
	for i, id := range pools["other"] {
		vals[i] = id.String()
	}
	rows, err := via.SearchPoints(col, models.SearchRequest{Query: models.Query{Property: "_id", StringArray: &models.SearchStringArrayOptions{Value: vals, Operator: models.OperatorContainsAny}}, Select: []string{"*"}, Limit: 75})
	if err != nil {
		return vt.Result{Err: fmt.Errorf("reading the second collection: %v", err)}
	}
	seen := map[uuid.UUID]int{}
	for _, r := range rows {
		seen[r.Point.Id]++
		doc := map[string]any(r.DecodedData)
		if doc == nil && len(r.Point.Data) > 0 {
			doc, _ = model.Decode(r.Point.Data)
		}
		tag, _ := doc["tag"].(string)
		if yIdSet[r.Point.Id] && c.YKind != "delete" && tag != "y" {
			return vt.Result{NonTrivial: true, Err: fmt.Errorf("%s of %s reported success, the stored document is %v (%d bytes)", c.YKind, r.Point.Id, doc, len(r.Point.Data))}
		}
	}
	for i, id := range pools["other"] {
		want := 1
		if c.YKind == "delete" && yIdSet[id] {
			want = 0
		}
		if c.YKind == "insert" && i >= 10 && !yIdSet[id] {
			want = 0
		}
		if seen[id] != want {
			return vt.Result{NonTrivial: true, Err: fmt.Errorf("after the %s point %s is found %d times, expected %d", c.YKind, id, seen[id], want)}
		}
	}
	return vt.Result{NonTrivial: true}
}

func indexOf(l []string, s string) int {
	for i, x := range l {
		if x == s {
			return i
		}
	}
	return -1
}

func TestPropOverlap(t *testing.T)   { vt.Check(t, "overlap", genOverlapCase, execOverlapCase) }
func TestReplayOverlap(t *testing.T) { vt.Replay(t, "overlap", execOverlapCase) }
