package c08

import (
	"fmt"
	"math"
	"testing"

	"github.com/google/uuid"
	"github.com/semafind/semadb/models"
	"github.com/semafind/semadb/shard/cache"
	"pgregory.net/rapid"
	"verif/drive"
	"verif/gen"
	"verif/model"
	"verif/vt"
)

// TrainCase: answers are a function of the committed history only, so the parameters a binary quantiser
// learns from the stored vectors (the per-dimension mean) must be the same whenever the same history is
// executed: on either backend and on every repetition. The vectors mix magnitudes so that the order of a
// floating-point summation matters, and contain components that sit exactly at the mean.
type TrainCase struct {
	Dim     int        `json:"dim"`
	Metric  string     `json:"metric"`
	Vamana  bool       `json:"vamana"`
	Batches [][]uint32 `json:"batches"` // float32 bit patterns, Dim per point, points grouped in insert batches
	Query   []uint32   `json:"query"`
	Repeats int        `json:"repeats"`
}

var trainValues = []float32{0, 0, 1, -1, 1, -1, 0.5, -0.5, 2e-37, -2e-37, 3e-8, -3e-8, 1e7, -1e7, 16777216, -16777216, 1e30, -1e30}

func genTrain(t *rapid.T) TrainCase {
	c := TrainCase{Dim: rapid.IntRange(1, 3).Draw(t, "dim"), Metric: rapid.SampledFrom([]string{models.DistanceEuclidean, models.DistanceDot}).Draw(t, "metric"),
		Repeats: 10}
	// flat indexes only: a graph index gives its entry node a random vector, which takes part in the mean,
	// so its learned threshold differs from execution to execution by construction (graph answers are
	// approximate and are not compared across executions anywhere)
	nb := rapid.IntRange(1, 3).Draw(t, "nbatches")
	for b := 0; b < nb; b++ {
		var batch []uint32
		np := rapid.IntRange(1, 6).Draw(t, fmt.Sprintf("np%d", b))
		for i := 0; i < np*c.Dim; i++ {
			batch = append(batch, math.Float32bits(rapid.SampledFrom(trainValues).Draw(t, fmt.Sprintf("v%d.%d", b, i))))
		}
		c.Batches = append(c.Batches, batch)
	}
	for i := 0; i < c.Dim; i++ {
		c.Query = append(c.Query, math.Float32bits(rapid.SampledFrom(trainValues).Draw(t, fmt.Sprintf("q%d", i))))
	}
	return c
}

func execTrain(c TrainCase) (res vt.Result) {
	rec := vt.R()
	total := 0
	for _, b := range c.Batches {
		total += len(b) / c.Dim
	}
	// the quantiser trains at the end of the last batch
	trigger := total
	if c.Vamana {
		trigger = total + 1 // the graph counts its entry node
	}
	q := &models.Quantizer{Type: models.QuantizerBinary, Binary: &models.BinaryQuantizerParamaters{TriggerThreshold: trigger, DistanceMetric: models.DistanceHamming}}
	schema := models.IndexSchema{}
	prop := gen.PFlat
	if c.Vamana {
		prop = gen.PVamana
		schema[prop] = models.IndexSchemaValue{Type: models.IndexTypeVectorVamana, VectorVamana: &models.IndexVectorVamanaParameters{VectorSize: uint(c.Dim), DistanceMetric: c.Metric, SearchSize: 75, DegreeBound: 64, Alpha: 1.2, Quantizer: q}}
	} else {
		schema[prop] = models.IndexSchemaValue{Type: models.IndexTypeVectorFlat, VectorFlat: &models.IndexVectorFlatParameters{VectorSize: uint(c.Dim), DistanceMetric: c.Metric, Quantizer: q}}
	}
	query := make([]float32, c.Dim)
	for i, b := range c.Query {
		query[i] = math.Float32frombits(b)
	}
	var first string
	for rep := 0; rep < c.Repeats; rep++ {
		path := ""
		cleanup := func() {}
		if rep%2 == 1 {
			var dir string
			dir, cleanup = drive.CaseDir()
			path = dir + "/sharddb.bbolt"
		}
		s, err := drive.Open(path, schema, 1<<20, cache.NewManager(-1))
		if err != nil {
			cleanup()
			return vt.Result{Err: err}
		}
		n := 0
		for _, b := range c.Batches {
			var pts []model.Point
			for i := 0; i+c.Dim <= len(b); i += c.Dim {
				vec := make([]float32, c.Dim)
				for k := range vec {
					vec[k] = math.Float32frombits(b[i+k])
				}
				n++
				var id uuid.UUID
				id[0], id[6], id[8], id[15] = byte(n*29), 0x40, 0x80, byte(n)
				pts = append(pts, model.Point{Id: id, Doc: model.Doc{prop: vec}})
			}
			if err := s.Insert(pts); err != nil {
				s.Close()
				cleanup()
				return vt.Result{Err: fmt.Errorf("insert: %v", err)}
			}
		}
		vb, _, err := s.VecInfo(prop)
		if err != nil {
			s.Close()
			cleanup()
			return vt.Result{Err: err}
		}
		var rows []drive.Row
		if c.Vamana {
			rows, err = s.Search(models.SearchRequest{Query: models.Query{Property: prop, VectorVamana: &models.SearchVectorVamanaOptions{Vector: query, Operator: models.OperatorNear, SearchSize: 75, Limit: 75}}})
		} else {
			rows, err = s.Search(models.SearchRequest{Query: models.Query{Property: prop, VectorFlat: &models.SearchVectorFlatOptions{Vector: query, Operator: models.OperatorNear, Limit: 75}}})
		}
		s.Close()
		cleanup()
		if err != nil {
			return vt.Result{Err: fmt.Errorf("search: %v", err)}
		}
		obs := fmt.Sprintf("threshold bits %x;", bitsOf(vb.Threshold))
		dist := map[string]float32{}
		for _, r := range rows {
			dist[r.Id.String()[:8]] = *r.Distance
		}
		obs += fmt.Sprintf(" distances %v", dist)
		if rep == 0 {
			first = obs
			if len(vb.Threshold) > 0 {
				rec.Count("trained_histories", 1)
			}
		} else if obs != first {
			backend := "in-memory"
			if rep%2 == 1 {
				backend = "file"
			}
			return vt.Result{Err: fmt.Errorf("the same history of %d points in %d batches, executed again (repetition %d, %s backend), gives another state: %s  VERSUS the first execution: %s", total, len(c.Batches), rep, backend, obs, first)}
		}
	}
	return vt.Result{NonTrivial: total >= 3}
}

func bitsOf(v []float32) []uint32 {
	r := make([]uint32, len(v))
	for i, f := range v {
		r[i] = math.Float32bits(f)
	}
	return r
}

func TestPropTraining(t *testing.T)   { vt.Check(t, "training", genTrain, execTrain) }
func TestReplayTraining(t *testing.T) { vt.Replay(t, "training", execTrain) }
