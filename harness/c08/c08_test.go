package c08

import (
	"fmt"
	"sort"
	"testing"

	"github.com/google/uuid"
	"github.com/semafind/semadb/models"
	"github.com/semafind/semadb/shard/cache"
	"pgregory.net/rapid"
	"verif/drive"
	"verif/gen"
	"verif/model"
	"verif/oracle"
	"verif/run"
	"verif/vt"
)

func TestMain(m *testing.M) {
	vt.OnExit(drive.Cleanup)
	vt.Main(m, "C08")
}

type Case struct {
	H       gen.History      `json:"history"`
	Queries [][]models.Query `json:"queries"`
}

func genCase(t *rapid.T) Case {
	so := gen.SchemaOpts{Filters: true, MinProps: 1, Flat: rapid.IntRange(0, 2).Draw(t, "flat") > 0, Vamana: rapid.IntRange(0, 2).Draw(t, "vamana") > 0,
		Text: rapid.Bool().Draw(t, "text"), MaxDim: rapid.SampledFrom([]int{3, 8}).Draw(t, "maxDim"), Quantizer: true}
	ho := gen.HistoryOpts{MaxSteps: 8, MaxBatch: 10, PoolSize: rapid.SampledFrom([]int{10, 30}).Draw(t, "pool"),
		AllowRejected: rapid.IntRange(0, 3).Draw(t, "allowRejected") == 0, Evict: true, ExtraFields: true,
		FieldProb: rapid.SampledFrom([]int{50, 85, 100}).Draw(t, "fieldProb")}
	// the same id more than once in one update batch (merged in order; the indices must see the net change)
	ho.AllowDupUpdate = rapid.IntRange(0, 3).Draw(t, "dupUpdate") == 0
	nq := 5
	if vt.Thorough() {
		ho.MaxSteps, ho.MaxBatch, nq = 14, 25, 8
		ho.PoolSize = rapid.SampledFrom([]int{10, 30, 60}).Draw(t, "poolT")
	}
	schema := gen.Schema(t, so)
	// shape "chain": collinear points inserted one at a time give a sparse chain-like graph; deleting
	// consecutive inner points then orphans the tail, which is re-attached to the entry node
	chain := so.Vamana && rapid.IntRange(0, 3).Draw(t, "chain") == 0
	if chain {
		sv := schema[gen.PVamana]
		p := *sv.VectorVamana
		p.DistanceMetric, p.Quantizer, p.VectorSize = models.DistanceEuclidean, nil, uint(rapid.IntRange(1, 2).Draw(t, "chainDim"))
		sv.VectorVamana = &p
		schema[gen.PVamana] = sv
	}
	// shape "train": a binary quantiser that learns its threshold after a few points; some points are
	// persisted before the training, the next batch crosses the trigger, then early points are deleted
	// (their pre-training records must not come back on a cold read)
	train := !chain && (so.Flat || so.Vamana) && rapid.IntRange(0, 3).Draw(t, "train") == 0
	trainTrigger := 0
	var trainProps []string
	if train {
		trainTrigger = rapid.IntRange(3, 6).Draw(t, "trainTrigger")
		bq := &models.Quantizer{Type: models.QuantizerBinary, Binary: &models.BinaryQuantizerParamaters{TriggerThreshold: trainTrigger,
			DistanceMetric: rapid.SampledFrom([]string{models.DistanceHamming, models.DistanceJaccard}).Draw(t, "trainBitMetric")}}
		fix := func(m string) string {
			if m == models.DistanceEuclidean || m == models.DistanceDot || m == models.DistanceCosine {
				return m
			}
			return models.DistanceEuclidean
		}
		if sv, ok := schema[gen.PFlat]; ok {
			p := *sv.VectorFlat
			p.DistanceMetric, p.Quantizer = fix(p.DistanceMetric), bq
			sv.VectorFlat = &p
			schema[gen.PFlat] = sv
			trainProps = append(trainProps, gen.PFlat)
		}
		if sv, ok := schema[gen.PVamana]; ok {
			p := *sv.VectorVamana
			p.DistanceMetric, p.Quantizer = fix(p.DistanceMetric), bq
			sv.VectorVamana = &p
			schema[gen.PVamana] = sv
			trainProps = append(trainProps, gen.PVamana)
		}
	}
	c := Case{H: gen.History{Schema: schema, MaxPointSize: 1 << 20, CacheLimit: -1}}
	if !chain && !train && rapid.IntRange(0, 3).Draw(t, "smallPoints") == 0 {
		// a small per-point size limit: some inserts and merged updates overflow it and are rejected in the
		// middle of a batch, after other points of the batch have already reached the indexes
		c.H.MaxPointSize = rapid.IntRange(100, 400).Draw(t, "maxPointSize")
	}
	g := gen.NewHistoryGen(t, schema, c.H.MaxPointSize, ho)
	n := rapid.IntRange(1, ho.MaxSteps).Draw(t, "nsteps")
	var trainEarly []uuid.UUID
	if train {
		n = 3 + rapid.IntRange(0, 3).Draw(t, "trainTail")
	}
	trainInsert := func(label string, from, cnt int) gen.Step {
		st := gen.Step{Kind: "insert", Note: "train"}
		for k := 0; k < cnt && from+k < len(g.Pool); k++ {
			doc := gen.GenDoc(t, fmt.Sprintf("%s%d-", label, k), schema, ho)
			for _, prop := range trainProps {
				dim, metric := 0, ""
				if prop == gen.PFlat {
					dim, metric = int(schema[prop].VectorFlat.VectorSize), schema[prop].VectorFlat.DistanceMetric
				} else {
					dim, metric = int(schema[prop].VectorVamana.VectorSize), schema[prop].VectorVamana.DistanceMetric
				}
				doc[prop] = gen.GenVector(t, fmt.Sprintf("%s%d-%s", label, k, prop), dim, metric)
			}
			st.Points = append(st.Points, model.Point{Id: g.Pool[from+k], Doc: doc})
		}
		g.M.Insert(st.Points)
		return st
	}
	var chainIds []uuid.UUID
	chainLen := 0
	if chain {
		chainLen = rapid.IntRange(4, 7).Draw(t, "chainLen")
		n = chainLen + rapid.IntRange(1, 3).Draw(t, "chainTail")
	}
	// shape "train, mixed": the quantiser is still untrained; one update batch gives vectors to points that
	// had none and removes ("_delete") the vectors of others, so that the number of vectors passes the
	// trigger inside the batch but ends below it: whether the index trains must not depend on what the
	// shared cache holds (the running instance has answered searches, copies start cold)
	trainMixed := train && rapid.IntRange(0, 2).Draw(t, "trainMixed") == 0
	var mixedBare []uuid.UUID
	for i := 0; i < n; i++ {
		var st gen.Step
		switch {
		case trainMixed && i == 0:
			k := rapid.IntRange(1, trainTrigger-1).Draw(t, "mixedEarly")
			st = trainInsert("mixedA", 0, k)
			for _, p := range st.Points {
				trainEarly = append(trainEarly, p.Id)
			}
			bare := gen.Step{Kind: "insert"}
			for j := 0; j < trainTrigger+2 && k+j < len(g.Pool); j++ {
				doc := gen.GenDoc(t, fmt.Sprintf("mixedBare%d-", j), schema, ho)
				for _, prop := range trainProps {
					delete(doc, prop)
				}
				bare.Points = append(bare.Points, model.Point{Id: g.Pool[k+j], Doc: doc})
				mixedBare = append(mixedBare, g.Pool[k+j])
			}
			g.M.Insert(bare.Points)
			st.Points = append(st.Points, bare.Points...)
		case trainMixed && i == 1:
			extra := rapid.IntRange(0, min(1, len(trainEarly)-1)).Draw(t, "mixedExtra")
			add := trainTrigger - len(trainEarly) + extra
			remove := rapid.IntRange(extra+1, len(trainEarly)).Draw(t, "mixedRemove")
			st = gen.Step{Kind: "update", Note: "train: vectors added and removed in one batch around the trigger"}
			vec := func(label, prop string) []float32 {
				if prop == gen.PFlat {
					return gen.GenVector(t, label, int(schema[prop].VectorFlat.VectorSize), schema[prop].VectorFlat.DistanceMetric)
				}
				return gen.GenVector(t, label, int(schema[prop].VectorVamana.VectorSize), schema[prop].VectorVamana.DistanceMetric)
			}
			var pts []model.Point
			for j := 0; j < add && j < len(mixedBare); j++ {
				d := model.Doc{}
				for _, prop := range trainProps {
					d[prop] = vec(fmt.Sprintf("mixedAdd%d-%s", j, prop), prop)
				}
				pts = append(pts, model.Point{Id: mixedBare[j], Doc: d})
			}
			for j := 0; j < remove; j++ {
				d := model.Doc{}
				for _, prop := range trainProps {
					d[prop] = model.DeleteValue
				}
				pts = append(pts, model.Point{Id: trainEarly[j], Doc: d})
			}
			// adds first, removals first, or interleaved
			perm := rapid.Permutation(seqInts(len(pts))).Draw(t, "mixedOrder")
			for _, k := range perm {
				st.Points = append(st.Points, pts[k])
			}
			g.M.Update(st.Points)
		case train && i == 0:
			st = trainInsert("trainA", 0, rapid.IntRange(1, trainTrigger-1).Draw(t, "trainEarly"))
			for _, p := range st.Points {
				trainEarly = append(trainEarly, p.Id)
			}
		case train && i == 1:
			st = trainInsert("trainB", len(trainEarly), trainTrigger)
		case train && i == 2:
			k := rapid.IntRange(1, len(trainEarly)).Draw(t, "trainDel")
			st = gen.Step{Kind: "delete", Ids: append([]uuid.UUID{}, trainEarly[:k]...), Note: "train: delete points persisted before the training"}
			g.M.Delete(st.Ids)
		case chain && i < chainLen:
			free := g.Pool[i]
			doc := gen.GenDoc(t, fmt.Sprintf("chain%d-", i), schema, ho)
			vec := make([]float32, int(schema[gen.PVamana].VectorVamana.VectorSize))
			vec[0] = float32(i + 1)
			doc[gen.PVamana] = vec
			st = gen.Step{Kind: "insert", Points: []model.Point{{Id: free, Doc: doc}}, Note: "chain"}
			g.M.Insert(st.Points)
			chainIds = append(chainIds, free)
		case chain && i == chainLen:
			lo := rapid.IntRange(0, chainLen-3).Draw(t, "chainDelLo")
			k := rapid.IntRange(2, min(3, chainLen-1-lo)).Draw(t, "chainDelK")
			st = gen.Step{Kind: "delete", Ids: append([]uuid.UUID{}, chainIds[lo:lo+k]...), Note: "chain inner delete"}
			g.M.Delete(st.Ids)
		default:
			st = g.Next()
		}
		c.H.Steps = append(c.H.Steps, st)
		if false {
			c.H.Steps = append(c.H.Steps, g.Next())
		}
		var qs []models.Query
		k := rapid.IntRange(1, nq).Draw(t, fmt.Sprintf("nq%d", i))
		for j := 0; j < k; j++ {
			q := gen.AnyQuery(t, fmt.Sprintf("q%d.%d", i, j), g.M, g.Pool)
			gen.MustValid(q, schema)
			qs = append(qs, q)
		}
		if _, hasFlat := schema[gen.PFlat]; trainMixed && hasFlat && i <= 1 {
			// a flat search reads every stored vector into the shared cache of the running instance
			q := gen.RankLeaf(t, fmt.Sprintf("qflat%d", i), g.M, g.Pool, gen.PFlat)
			gen.MustValid(q, schema)
			qs = append(qs, q)
		}
		c.Queries = append(c.Queries, qs)
	}
	c.H.Rename = gen.MaybeRename(t, c.H.Schema)
	return c
}

func poolOf(h gen.History) []uuid.UUID {
	set := map[uuid.UUID]bool{}
	for _, st := range h.Steps {
		for _, p := range st.Points {
			set[p.Id] = true
		}
		for _, id := range st.Ids {
			set[id] = true
		}
	}
	var pool []uuid.UUID
	for id := range set {
		pool = append(pool, id)
	}
	sort.Slice(pool, func(i, j int) bool { return pool[i].String() < pool[j].String() })
	return pool
}

func execCase(c Case) (res vt.Result) {
	rec := vt.R()
	r, err := run.New(c.H) // A: bbolt + unlimited shared cache, never reopened
	if err != nil {
		return vt.Result{Err: err}
	}
	defer r.Close()
	// E: the in-memory backend with a manager of its own
	memShard, err := drive.OpenNamed("", c.H.Schema, c.H.MaxPointSize, cache.NewManager(-1), c.H.Rename)
	if err != nil {
		return vt.Result{Err: err}
	}
	defer memShard.Close()
	// E2: the in-memory backend with the cache disabled (every operation reads the buckets)
	memCold, err := drive.OpenNamed("", c.H.Schema, c.H.MaxPointSize, nil, c.H.Rename)
	if err != nil {
		return vt.Result{Err: err}
	}
	defer memCold.Close()
	pool := poolOf(c.H)
	fixed := oracle.Suite(c.H.Schema)
	opts := oracle.ObserveOpts{GraphLists: true}
	hasQuantOrGraph := false
	for _, sv := range c.H.Schema {
		if sv.Type == models.IndexTypeVectorVamana || (sv.Type == models.IndexTypeVectorFlat && (sv.VectorFlat.Quantizer != nil || sv.VectorFlat.DistanceMetric == models.DistanceHamming || sv.VectorFlat.DistanceMetric == models.DistanceJaccard)) {
			hasQuantOrGraph = true
		}
	}
	mutated := false
	nontrivial := false
	fail := func(i int, f string, a ...any) vt.Result {
		res.Err = fmt.Errorf("step %d (%s): %s", i, c.H.Steps[i].Kind, fmt.Sprintf(f, a...))
		return res
	}
	for i, st := range c.H.Steps {
		info, err := r.Apply(st)
		if err != nil {
			return fail(i, "%v", err)
		}
		if info.Wrote {
			// the same successful batch on the in-memory backend
			var merr error
			switch st.Kind {
			case "insert":
				merr = memShard.Insert(st.Points)
			case "update":
				_, merr = memShard.Update(st.Points)
			case "delete":
				_, merr = memShard.Delete(st.Ids)
			}
			if merr != nil {
				return fail(i, "the in-memory backend rejected a batch the file backend accepted: %v", merr)
			}
			switch st.Kind {
			case "insert":
				merr = memCold.Insert(st.Points)
			case "update":
				_, merr = memCold.Update(st.Points)
			case "delete":
				_, merr = memCold.Delete(st.Ids)
			}
			if merr != nil {
				return fail(i, "the in-memory backend with the cache disabled rejected a batch the file backend accepted: %v", merr)
			}
		}
		suite := append(append([]models.Query{}, fixed...), c.Queries[i]...)
		obsA, err := oracle.Observe(r.S, pool, suite, opts)
		if err != nil {
			return fail(i, "running instance (warm): %v", err)
		}
		variants := []struct {
			name string
			mgr  *cache.Manager
		}{{"a cold reopen of a copy with a fresh cache", cache.NewManager(-1)}, {"a copy opened with the cache disabled", nil}, {"a copy opened with a 1-byte cache limit", cache.NewManager(1)}}
		for _, v := range variants {
			inst, err := r.Copy(v.mgr)
			if err != nil {
				return fail(i, "%s: %v", v.name, err)
			}
			obs, err := oracle.Observe(inst, pool, suite, opts)
			if err == nil && v.mgr != nil {
				// once more, now possibly served from the instance's own cache
				var obs2 oracle.Observation
				obs2, err = oracle.Observe(inst, pool, suite, opts)
				if err == nil {
					if d := obs.Diff(obs2); d != "" {
						err = fmt.Errorf("two observations of the same instance differ: %s", d)
					}
				}
			}
			inst.Close()
			if err != nil {
				return fail(i, "%s: %v", v.name, err)
			}
			if d := obsA.Diff(obs); d != "" {
				return fail(i, "the warm running instance and %s answer differently: %s", v.name, d)
			}
		}
		// A just after eviction of its caches
		r.S.EvictCaches()
		obsEvicted, err := oracle.Observe(r.S, pool, suite, opts)
		if err != nil {
			return fail(i, "running instance after eviction: %v", err)
		}
		if d := obsA.Diff(obsEvicted); d != "" {
			return fail(i, "the running instance answers differently before and after its caches were evicted: %s", d)
		}
		// against the model
		if err := oracle.CheckDocs(r.S, r.M, pool); err != nil {
			return fail(i, "file backend: %v", err)
		}
		if err := oracle.CheckSuiteAgainstModel(r.S, r.M, suite); err != nil {
			return fail(i, "file backend: %v", err)
		}
		if err := oracle.CheckDocs(memShard, r.M, pool); err != nil {
			return fail(i, "in-memory backend: %v", err)
		}
		if err := oracle.CheckSuiteAgainstModel(memShard, r.M, suite); err != nil {
			return fail(i, "in-memory backend: %v", err)
		}
		if err := oracle.CheckDocs(memCold, r.M, pool); err != nil {
			return fail(i, "in-memory backend with the cache disabled: %v", err)
		}
		if err := oracle.CheckSuiteAgainstModel(memCold, r.M, suite); err != nil {
			return fail(i, "in-memory backend with the cache disabled: %v", err)
		}
		// exact indexes: the two backends agree on everything but graph lists
		obsMem, err := oracle.Observe(memShard, pool, suite, oracle.ObserveOpts{})
		if err != nil {
			return fail(i, "in-memory backend: %v", err)
		}
		obsFile, err := oracle.Observe(r.S, pool, suite, oracle.ObserveOpts{})
		if err != nil {
			return fail(i, "%v", err)
		}
		if d := obsFile.Diff(obsMem); d != "" && !learnedQuantiser(c.H.Schema) {
			return fail(i, "file backend and in-memory backend answer differently: %s", d)
		}
		// the same history on an instance that never had a cache: what an index learns from its data (a
		// quantiser's threshold) must not depend on what a cache happened to hold when the batch arrived
		obsMemCold, err := oracle.Observe(memCold, pool, suite, oracle.ObserveOpts{})
		if err != nil {
			return fail(i, "in-memory backend with the cache disabled: %v", err)
		}
		if d := obsMem.Diff(obsMemCold); d != "" {
			return fail(i, "two in-memory instances given the same batches, one with a shared cache and one with the cache disabled, answer differently: %s", d)
		}
		if err := drive.StrayVerdict(r.S); err != nil {
			return fail(i, "%v", err)
		}
		if info.Wrote && (st.Kind == "update" || st.Kind == "delete") && (len(info.Updated) > 0 || len(info.Deleted) > 0) {
			mutated = true
		} else if info.Wrote && mutated && hasQuantOrGraph {
			nontrivial = true
		}
		if mutated && hasQuantOrGraph && info.Wrote {
			nontrivial = true
		}
		rec.Count("steps", 1)
		rec.Count("instances_compared", 5)
	}
	// finally: close and reopen the very same file
	before, err := oracle.Observe(r.S, pool, fixed, oracle.ObserveOpts{GraphLists: true, RawBuckets: true})
	if err != nil {
		return vt.Result{Err: err}
	}
	if _, err := r.Apply(gen.Step{Kind: "reopen"}); err != nil {
		return vt.Result{Err: fmt.Errorf("final reopen: %v", err)}
	}
	after, err := oracle.Observe(r.S, pool, fixed, oracle.ObserveOpts{GraphLists: true, RawBuckets: true})
	if err != nil {
		return vt.Result{Err: fmt.Errorf("after the final reopen: %v", err)}
	}
	if d := before.Diff(after); d != "" {
		return vt.Result{Err: fmt.Errorf("closing and reopening the shard changed what it answers: %s", d)}
	}
	res.NonTrivial = nontrivial
	return res
}

// learnedQuantiser: with a learned binary threshold the moment of training may
// legitimately differ between the flat index of two instances only if ... it
// does not: both see the same batches. Kept as a hook, always false.
func learnedQuantiser(models.IndexSchema) bool { return false }

var _ = model.Show

func TestPropDurable(t *testing.T)   { vt.Check(t, "durable", genCase, execCase) }
func TestReplayDurable(t *testing.T) { vt.Replay(t, "durable", execCase) }

func seqInts(n int) []int {
	r := make([]int, n)
	for i := range r {
		r[i] = i
	}
	return r
}
