package c11

import (
	"errors"
	"fmt"
	"regexp"
	"runtime"
	"strconv"
	"strings"
	"sync"
	"testing"
	"time"

	"github.com/rs/zerolog"
	"github.com/semafind/semadb/shard/cache"
	"pgregory.net/rapid"
	"verif/vt"
)

func TestMain(m *testing.M) {
	zerolog.SetGlobalLevel(zerolog.FatalLevel) // a fatal log call exits the process: its message must be visible
	vt.Main(m, "C11")
}

// Access is one With call of a transaction program.
type Access struct {
	Name         string `json:"name"`
	ReadOnly     bool   `json:"readOnly"`
	CreateFails  bool   `json:"createFails"`  // the construct function fails if it is called
	CallbackFail bool   `json:"callbackFail"` // the callback reports an error
	// PauseAtLookup: if the call finds the cache in the manager, it parks right after that lookup (manager
	// lock released, cache lock not yet tried) until the schedule moves the transaction again
	PauseAtLookup bool `json:"pauseAtLookup,omitempty"`
	// NotFoundErr: a failing callback reports an error that wraps cache.ErrNotFound (what an index gets
	// from its item cache for a missing item and passes on) instead of a plain one
	NotFoundErr bool `json:"notFoundErr,omitempty"`
}

// Program is what one transaction does.
type Program struct {
	Accesses   []Access `json:"accesses"`
	CommitFail bool     `json:"commitFail"`
}

// Case: programs plus the schedule. A schedule entry i < len(Programs) moves
// transaction i one step (issue its next call / end its running callback /
// commit); entry len(Programs)+k releases cache name k.
type Case struct {
	MaxSize  int64     `json:"maxSize"`
	Names    []string  `json:"names"`
	Programs []Program `json:"programs"`
	Schedule []int     `json:"schedule"`
}

func genCase(t *rapid.T) Case {
	c := Case{MaxSize: rapid.SampledFrom([]int64{-1, -1, 0, 15, 25, 1000}).Draw(t, "maxSize")}
	c.Names = []string{"a", "b"}[:rapid.IntRange(1, 2).Draw(t, "nnames")]
	ntx := rapid.IntRange(1, 3).Draw(t, "ntx")
	for i := 0; i < ntx; i++ {
		var p Program
		n := rapid.IntRange(1, 4).Draw(t, fmt.Sprintf("nacc%d", i))
		// write accesses in ascending name order (two-phase locking precondition of every real caller:
		// a storage transaction is the only writer; here several writers may coexist, so order them)
		lastWrite := ""
		for j := 0; j < n; j++ {
			a := Access{Name: rapid.SampledFrom(c.Names).Draw(t, fmt.Sprintf("name%d.%d", i, j)), ReadOnly: rapid.Bool().Draw(t, fmt.Sprintf("ro%d.%d", i, j))}
			if !a.ReadOnly {
				if a.Name < lastWrite {
					a.Name = lastWrite
				}
				lastWrite = a.Name
			}
			a.CreateFails = rapid.IntRange(0, 7).Draw(t, fmt.Sprintf("cf%d.%d", i, j)) == 0
			a.CallbackFail = rapid.IntRange(0, 5).Draw(t, fmt.Sprintf("cbf%d.%d", i, j)) == 0
			a.PauseAtLookup = rapid.IntRange(0, 3).Draw(t, fmt.Sprintf("pal%d.%d", i, j)) == 0
			a.NotFoundErr = a.CallbackFail && rapid.IntRange(0, 2).Draw(t, fmt.Sprintf("nf%d.%d", i, j)) == 0
			p.Accesses = append(p.Accesses, a)
		}
		p.CommitFail = rapid.IntRange(0, 4).Draw(t, fmt.Sprintf("commitFail%d", i)) == 0
		c.Programs = append(c.Programs, p)
	}
	ns := rapid.IntRange(0, 30).Draw(t, "nsched")
	for i := 0; i < ns; i++ {
		hi := ntx - 1
		if rapid.IntRange(0, 7).Draw(t, fmt.Sprintf("rel%d", i)) == 0 {
			hi = ntx + len(c.Names) - 1
		}
		c.Schedule = append(c.Schedule, rapid.IntRange(0, hi).Draw(t, fmt.Sprintf("s%d", i)))
	}
	return c
}

// ---------------------------------------------------------------------------

type object struct {
	id      int
	name    string
	version int  // committed version of the name this object reflects
	dead    bool // must never be handed out again
	size    int64
	// pendingOf: the object was constructed inside a transaction that had already written this
	// cache, so it reflects that transaction's uncommitted writes (the construct function reads
	// through the transaction's own storage view)
	pendingOf *txRun
}

func (o *object) SizeInMemory() int64 { return o.size }

type txState int

const (
	stIdle    txState = iota // waiting for the scheduler to let it issue the next call
	stIssuing                // inside With, not (yet) in the callback
	stInCallback
	stCommitting
	stDone
)

type txRun struct {
	idx      int
	prog     Program
	goid     int64
	state    txState
	step     int
	tokens   chan struct{} // scheduler -> tx: proceed
	parked   chan struct{} // tx -> scheduler: I reached a parking point (idle / in callback / done)
	failed   bool          // a With call of this transaction returned an error
	startVer map[string]int
	// what it owns
	written map[string]*object // objects it had a successful or running write callback on
	pending []*object          // objects constructed through this transaction's uncommitted view
	errs    []error
}

type world struct {
	lookupPauses int
	mu           sync.Mutex
	c            Case
	mgr          *cache.Manager
	nextObj      int
	committed    map[string]int
	owner        map[*object]*txRun          // write owner between first write callback and commit
	inside       map[*object]map[*txRun]bool // transactions currently inside a callback on the object
	txs          []*txRun
	violation    error
	trace        []string
}

func (w *world) logf(f string, a ...any) {
	w.trace = append(w.trace, fmt.Sprintf(f, a...))
}

func (w *world) violate(f string, a ...any) {
	w.mu.Lock()
	defer w.mu.Unlock()
	if w.violation == nil {
		w.violation = fmt.Errorf(f, a...)
	}
}

var errPlanned = errors.New("planned failure")

var headerRe = regexp.MustCompile(`(?m)^goroutine (\d+) \[([^\]]+)\]:`)

// goroutineStatus returns the scheduler status text of a goroutine ("" if gone).
func goroutineStatus(goid int64) string {
	buf := make([]byte, 1<<20)
	n := runtime.Stack(buf, true)
	for _, m := range headerRe.FindAllStringSubmatch(string(buf[:n]), -1) {
		if id, _ := strconv.ParseInt(m[1], 10, 64); id == goid {
			return m[2]
		}
	}
	return ""
}

func isLockWait(status string) bool {
	return strings.HasPrefix(status, "sync.Mutex.Lock") || strings.HasPrefix(status, "sync.RWMutex.Lock") || strings.HasPrefix(status, "sync.RWMutex.RLock") || strings.HasPrefix(status, "semacquire")
}

// statuses returns the scheduler status of every goroutine by id.
func statuses() map[int64]string {
	buf := make([]byte, 1<<20)
	n := runtime.Stack(buf, true)
	for n == len(buf) {
		// the dump did not fit: a goroutine missing from it would be taken for gone
		buf = make([]byte, 2*len(buf))
		n = runtime.Stack(buf, true)
	}
	out := map[int64]string{}
	for _, m := range headerRe.FindAllStringSubmatch(string(buf[:n]), -1) {
		id, _ := strconv.ParseInt(m[1], 10, 64)
		out[id] = m[2]
	}
	return out
}

func isHarnessWait(status string) bool {
	return strings.HasPrefix(status, "chan receive") || strings.HasPrefix(status, "chan send") || strings.HasPrefix(status, "select")
}

// stableLockWait: transaction t waits on a lock and no other participant is
// running (everyone else is parked on a harness channel, waits on a lock, or is
// gone), so nothing can release the lock without a move of the scheduler.
func (w *world) stableLockWait(t *txRun) bool {
	st := statuses()
	if !isLockWait(st[t.goid]) {
		return false
	}
	for _, o := range w.txs {
		if o == t || o.goid == 0 {
			continue
		}
		s, alive := st[o.goid]
		if alive && !isHarnessWait(s) && !isLockWait(s) {
			return false
		}
	}
	// nobody else in the process may be able to run either (a helper goroutine that holds one of the
	// short-lived mutexes would release it in a moment): apart from the calling scheduler goroutine, every
	// goroutine has to be parked
	me := goidOf()
	for id, s := range st {
		if id == me {
			continue
		}
		if strings.HasPrefix(s, "running") || strings.HasPrefix(s, "runnable") || strings.HasPrefix(s, "syscall") || strings.HasPrefix(s, "sleep") {
			return false
		}
	}
	return true
}

// settle waits until transaction t is parked at a harness point or blocked on a
// lock inside the manager; it returns true when it is blocked on a lock.
func (w *world) settle(t *txRun) (blocked bool) {
	for i := 0; ; i++ {
		select {
		case <-t.parked:
			return false
		default:
		}
		if w.stableLockWait(t) {
			// confirm three more times, giving everybody a chance to run in between
			confirmed := true
			for k := 0; k < 3 && confirmed; k++ {
				runtime.Gosched()
				time.Sleep(300 * time.Microsecond)
				select {
				case <-t.parked:
					return false
				default:
				}
				confirmed = w.stableLockWait(t)
			}
			if confirmed {
				return true
			}
		}
		if i > 100000 {
			w.violate("transaction %d neither parks nor blocks (goroutine status %q)", t.idx, goroutineStatus(t.goid))
			return true
		}
		runtime.Gosched()
		if i%20 == 19 {
			time.Sleep(20 * time.Microsecond)
		}
	}
}

func (w *world) runTx(t *txRun) {
	t.goid = goidOf()
	tx := w.mgr.NewTransaction()
	w.mu.Lock()
	t.startVer = map[string]int{}
	for k, v := range w.committed {
		t.startVer[k] = v
	}
	w.mu.Unlock()
	t.parked <- struct{}{} // ready
	for t.step = 0; t.step < len(t.prog.Accesses); t.step++ {
		<-t.tokens
		a := t.prog.Accesses[t.step]
		w.mu.Lock()
		t.state = stIssuing
		w.mu.Unlock()
		callbackRan := false
		err := tx.With(a.Name, a.ReadOnly, func() (cache.Cachable, error) {
			if a.CreateFails {
				return nil, errPlanned
			}
			w.mu.Lock()
			defer w.mu.Unlock()
			w.nextObj++
			o := &object{id: w.nextObj, name: a.Name, version: w.committed[a.Name], size: 10}
			w.logf("tx%d creates object %d for %s at version %d (pending own writes: %v)", t.idx, o.id, a.Name, o.version, o.pendingOf != nil)
			return o, nil
		}, func(c cache.Cachable) error {
			callbackRan = true
			o := c.(*object)
			w.mu.Lock()
			w.logf("tx%d step %d callback on object %d (%s, readOnly=%v)", t.idx, t.step, o.id, a.Name, a.ReadOnly)
			if o.name != a.Name {
				w.violation = firstErr(w.violation, fmt.Errorf("tx%d asked for cache %q and was handed object %d of cache %q", t.idx, a.Name, o.id, o.name))
			}
			if o.dead {
				w.violation = firstErr(w.violation, fmt.Errorf("tx%d was handed object %d of cache %q which was discarded earlier (failed callback or failed transaction)", t.idx, o.id, a.Name))
			}
			// (a transaction that is inside Commit releases its locks one by one before the harness can
			// update its books: it no longer counts as holding the cache)
			if ow, ok := w.owner[o]; ok && ow != t && ow.state != stCommitting {
				w.violation = firstErr(w.violation, fmt.Errorf("tx%d (readOnly=%v) was handed object %d of cache %q while tx%d holds it for writing and has not committed", t.idx, a.ReadOnly, o.id, a.Name, ow.idx))
			}
			if o.version < t.startVer[a.Name] && w.owner[o] != t {
				w.violation = firstErr(w.violation, fmt.Errorf("tx%d was handed object %d of cache %q reflecting committed version %d, but version %d was committed before this transaction began (stale cache survived a commit)", t.idx, o.id, a.Name, o.version, t.startVer[a.Name]))
			}
			if !a.ReadOnly {
				for other := range w.inside[o] {
					if other != t {
						w.violation = firstErr(w.violation, fmt.Errorf("tx%d was handed object %d of cache %q for writing while tx%d is still inside a callback on it", t.idx, o.id, a.Name, other.idx))
					}
				}
				w.owner[o] = t
				t.written[a.Name] = o
			}
			if w.inside[o] == nil {
				w.inside[o] = map[*txRun]bool{}
			}
			w.inside[o][t] = true
			t.state = stInCallback
			w.mu.Unlock()
			t.parked <- struct{}{}
			<-t.tokens // the scheduler ends the callback
			w.mu.Lock()
			defer w.mu.Unlock()
			delete(w.inside[o], t)
			t.state = stIssuing
			if a.CallbackFail {
				o.dead = true
				if a.NotFoundErr {
					return fmt.Errorf("planned failure: item 7: %w", cache.ErrNotFound)
				}
				return errPlanned
			}
			return nil
		})
		w.mu.Lock()
		if err != nil {
			t.failed = true
		} else if t.failed {
			w.violation = firstErr(w.violation, fmt.Errorf("tx%d: a With call succeeded after an earlier call of the same transaction had failed", t.idx))
		}
		if err == nil && !callbackRan {
			w.violation = firstErr(w.violation, fmt.Errorf("tx%d: With returned nil without running the callback", t.idx))
		}
		if err == nil && (a.CreateFails && callbackRan) {
			// fine: the construct function was not needed
		}
		t.state = stIdle
		w.mu.Unlock()
		t.parked <- struct{}{}
	}
	<-t.tokens
	w.mu.Lock()
	t.state = stCommitting
	failed := t.failed || t.prog.CommitFail
	w.mu.Unlock()
	tx.Commit(t.prog.CommitFail)
	w.mu.Lock()
	for name, o := range t.written {
		if w.owner[o] == t {
			delete(w.owner, o)
		}
		if failed {
			o.dead = true
		} else {
			w.committed[name]++
			o.version = w.committed[name]
		}
	}
	for _, o := range t.pending {
		o.pendingOf = nil
		if failed {
			o.dead = true // built from writes that were rolled back
		} else {
			o.version = w.committed[o.name]
		}
	}
	w.logf("tx%d committed (failed=%v)", t.idx, failed)
	t.state = stDone
	w.mu.Unlock()
	t.parked <- struct{}{}
}

func firstErr(a, b error) error {
	if a != nil {
		return a
	}
	return b
}

func goidOf() int64 {
	var buf [64]byte
	n := runtime.Stack(buf[:], false)
	s := strings.TrimPrefix(string(buf[:n]), "goroutine ")
	var id int64
	for i := 0; i < len(s) && s[i] >= '0' && s[i] <= '9'; i++ {
		id = id*10 + int64(s[i]-'0')
	}
	return id
}

func execCase(c Case) (res vt.Result) {
	rec := vt.R()
	w := &world{c: c, mgr: cache.NewManager(c.MaxSize), committed: map[string]int{}, owner: map[*object]*txRun{}, inside: map[*object]map[*txRun]bool{}}
	blockedNow := map[int]bool{}
	for i, p := range c.Programs {
		t := &txRun{idx: i, prog: p, tokens: make(chan struct{}), parked: make(chan struct{}, 4), written: map[string]*object{}}
		w.txs = append(w.txs, t)
	}
	for _, t := range w.txs {
		go w.runTx(t)
		<-t.parked
	}
	// the pause point between the lookup of an existing cache and the attempt to lock it
	lookupFn := func(name string, readOnly bool) {
		id := goidOf()
		for _, t := range w.txs {
			if t.goid != id {
				continue
			}
			w.mu.Lock()
			pause := t.state == stIssuing && t.step < len(t.prog.Accesses) && t.prog.Accesses[t.step].PauseAtLookup
			if pause {
				w.logf("tx%d step %d found cache %s in the manager and pauses before locking it (readOnly=%v)", t.idx, t.step, name, readOnly)
				w.lookupPauses++
			}
			w.mu.Unlock()
			if pause {
				t.parked <- struct{}{}
				<-t.tokens
			}
			return
		}
	}
	cache.VerifLookupFn.Store(&lookupFn)
	defer cache.VerifLookupFn.Store(nil)
	overlapped, hadFailure, sawBlockedReader := false, false, false
	// move transaction i one step if it is able to move
	move := func(i int) bool {
		t := w.txs[i]
		w.mu.Lock()
		st := t.state
		w.mu.Unlock()
		if st == stDone {
			return false
		}
		if blockedNow[i] {
			// it is blocked inside the manager: see whether it got through meanwhile
			if w.settle(t) {
				return false
			}
			blockedNow[i] = false
			return true
		}
		t.tokens <- struct{}{}
		if w.settle(t) {
			blockedNow[i] = true
			// a reader must never block behind a writer of another transaction
			w.mu.Lock()
			if t.state == stIssuing && t.step < len(t.prog.Accesses) && t.prog.Accesses[t.step].ReadOnly {
				name := t.prog.Accesses[t.step].Name
				for o, ow := range w.owner {
					if o.name == name && ow != t {
						sawBlockedReader = true
						w.violation = firstErr(w.violation, fmt.Errorf("tx%d's read access to cache %q blocks (goroutine waits on a lock) while tx%d holds the cache for writing: readers must continue on a private cold copy", t.idx, name, ow.idx))
					}
				}
			}
			w.mu.Unlock()
		}
		return true
	}
	inFlight := func() int {
		n := 0
		w.mu.Lock()
		for _, t := range w.txs {
			if t.state != stDone && (t.step > 0 || t.state != stIdle) {
				n++
			}
		}
		w.mu.Unlock()
		return n
	}
	for _, s := range c.Schedule {
		if w.violation != nil {
			break
		}
		if s >= len(w.txs) {
			name := c.Names[(s-len(w.txs))%len(c.Names)]
			w.mgr.Release(name)
			w.mu.Lock()
			w.logf("release %s", name)
			w.mu.Unlock()
			hadFailure = true
			continue
		}
		move(s)
		if inFlight() >= 2 {
			overlapped = true
		}
	}
	// drain: drive every transaction to completion
	for round := 0; w.violation == nil; round++ {
		progress, alldone := false, true
		for i, t := range w.txs {
			w.mu.Lock()
			done := t.state == stDone
			w.mu.Unlock()
			if done {
				continue
			}
			alldone = false
			if move(i) {
				progress = true
			}
		}
		if alldone {
			break
		}
		if !progress {
			var who []string
			for i, t := range w.txs {
				if blockedNow[i] {
					who = append(who, fmt.Sprintf("tx%d at access %d (%s)", i, t.step, goroutineStatus(t.goid)))
				}
			}
			w.violate("no transaction can make progress although every callback was released: %v are parked on locks inside the cache manager (lost unlock or deadlock)", who)
			break
		}
		if round > 200 {
			w.violate("drain did not terminate")
		}
	}
	if w.violation == nil {
		// afterwards a fresh transaction can write every cache and commit
		done := make(chan struct{})
		var goid int64
		ready := make(chan struct{})
		go func() {
			goid = goidOf()
			close(ready)
			tx := w.mgr.NewTransaction()
			for _, name := range c.Names {
				_ = tx.With(name, false, func() (cache.Cachable, error) {
					w.mu.Lock()
					defer w.mu.Unlock()
					w.nextObj++
					return &object{id: w.nextObj, name: name, version: w.committed[name], size: 10}, nil
				}, func(cc cache.Cachable) error {
					o := cc.(*object)
					w.mu.Lock()
					defer w.mu.Unlock()
					if o.dead {
						w.violation = firstErr(w.violation, fmt.Errorf("after all transactions ended a fresh writer was handed discarded object %d of cache %q", o.id, name))
					}
					if o.version < w.committed[name] {
						w.violation = firstErr(w.violation, fmt.Errorf("after all transactions ended a fresh writer was handed object %d of cache %q at version %d, committed version is %d (stale cache)", o.id, name, o.version, w.committed[name]))
					}
					return nil
				})
			}
			tx.Commit(false)
			close(done)
		}()
		<-ready
		for i := 0; ; i++ {
			select {
			case <-done:
			default:
				if st := goroutineStatus(goid); isLockWait(st) {
					time.Sleep(2 * time.Millisecond)
					select {
					case <-done:
					default:
						if st2 := goroutineStatus(goid); isLockWait(st2) {
							w.violate("after every transaction committed or aborted, a new writing transaction blocks on a lock (%s): a lock was never released", st2)
						}
					}
				} else if i < 2000000 {
					runtime.Gosched()
					continue
				}
			}
			break
		}
	}
	for _, p := range c.Programs {
		if p.CommitFail {
			hadFailure = true
		}
		for _, a := range p.Accesses {
			if a.CallbackFail || a.CreateFails {
				hadFailure = true
			}
		}
	}
	_ = sawBlockedReader
	rec.Count(fmt.Sprintf("maxSize_%d", c.MaxSize), 1)
	rec.Count("pauses_between_lookup_and_lock", int64(w.lookupPauses))
	if w.violation != nil {
		res.Err = fmt.Errorf("%v\ntrace:\n  %s", w.violation, strings.Join(w.trace, "\n  "))
		// leave the stuck goroutines behind; they hold no shared state with later cases
		return res
	}
	// overlap on one name with a writer
	writerOverlap := false
	if overlapped {
		names := map[string]int{}
		writers := map[string]bool{}
		for _, p := range c.Programs {
			seen := map[string]bool{}
			for _, a := range p.Accesses {
				if !seen[a.Name] {
					names[a.Name]++
					seen[a.Name] = true
				}
				if !a.ReadOnly {
					writers[a.Name] = true
				}
			}
		}
		for n, k := range names {
			if k >= 2 && writers[n] {
				writerOverlap = true
			}
		}
	}
	res.NonTrivial = writerOverlap && hadFailure
	return res
}

func TestPropSchedules(t *testing.T)   { vt.Check(t, "schedules", genCase, execCase) }
func TestReplaySchedules(t *testing.T) { vt.Replay(t, "schedules", execCase) }
