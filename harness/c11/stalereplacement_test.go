package c11

import (
	"fmt"
	"os"
	"path/filepath"
	"sort"
	"strings"
	"sync"
	"sync/atomic"
	"testing"
	"time"

	"github.com/google/uuid"
	"github.com/semafind/semadb/models"
	"pgregory.net/rapid"
	"verif/drive"
	"verif/gen"
	"verif/model"
	"verif/vt"
)

// The cache protocol as the shard uses it (shard/shard.go is one of C11's anchors): a write batch commits
// its storage transaction first and its cache transaction afterwards. This job forces the schedules in
// which that order matters. A first batch is held at one of its writes; meanwhile its index cache leaves
// the manager through ordinary pruning (the index is bigger than the limit, or a search on another shard
// of the node takes the node over the limit) and a search on the shard registers a replacement built from
// the storage as it was before the batch. The first batch then commits its storage transaction and is
// held before control returns to the shard (before its cache commit); a second batch is started in that
// gap. "A later transaction rebuilds [an evicted cache] from committed storage": whatever the second batch
// is handed, after both batches are acknowledged every stored point has to be found by the vector search,
// on the running shard and after reopening the file with a new cache manager.

type StaleCase struct {
	Index    string `json:"index"`    // vamana | flat
	OwnPrune bool   `json:"ownPrune"` // the cache limit is smaller than the index (else: another shard's search prunes)
	Pre      int    `json:"pre"`      // points stored before the first batch
	N1       int    `json:"n1"`       // points of the first batch
	Pause    string `json:"pause"`    // where the first batch is held: <bucket kind>:<key or "first">, or "none"
	Reader   bool   `json:"reader"`   // a search on the shard while the first batch is held
	Third    string `json:"third"`    // insert | update | delete: the second batch
	Gap      bool   `json:"gap"`      // the second batch starts between storage commit and cache commit of the first
}

func genStale(t *rapid.T) StaleCase {
	return StaleCase{
		Index:    rapid.SampledFrom([]string{"vamana", "vamana", "vamana", "flat"}).Draw(t, "index"),
		OwnPrune: rapid.Bool().Draw(t, "ownPrune"),
		Pre:      rapid.IntRange(0, 4).Draw(t, "pre"),
		N1:       rapid.IntRange(1, 12).Draw(t, "n1"),
		Pause:    rapid.SampledFrom([]string{"index:_vamanaMaxNodeId", "internal:pointCount", "index:first", "points:first", "internal:first", "index:_vamanaMaxNodeId", "internal:pointCount", "none"}).Draw(t, "pause"),
		Reader:   rapid.IntRange(0, 5).Draw(t, "reader") != 0,
		Third:    rapid.SampledFrom([]string{"insert", "insert", "update", "delete"}).Draw(t, "third"),
		Gap:      rapid.IntRange(0, 5).Draw(t, "gap") != 0,
	}
}

func stalePoint(prop string, i int) model.Point {
	var id uuid.UUID
	id[0], id[1], id[6], id[8], id[15] = byte(i), byte(i>>8), 0x40, 0x80, 7
	return model.Point{Id: id, Doc: model.Doc{prop: []float32{float32(i%17) + 1, float32(i/3) - 2}}}
}

func execStale(c StaleCase) (res vt.Result) {
	rec := vt.R()
	dir, cleanup := drive.CaseDir()
	stuck := false
	maxSize := int64(1800)
	if c.OwnPrune {
		maxSize = 100
	}
	mgr := drive.Manager(maxSize)
	prop, typ := gen.PVamana, models.IndexTypeVectorVamana
	schema := models.IndexSchema{prop: {Type: typ, VectorVamana: &models.IndexVectorVamanaParameters{VectorSize: 2, DistanceMetric: models.DistanceEuclidean, SearchSize: 75, DegreeBound: 64, Alpha: 1.2}}}
	if c.Index == "flat" {
		prop, typ = gen.PFlat, models.IndexTypeVectorFlat
		schema = models.IndexSchema{prop: {Type: typ, VectorFlat: &models.IndexVectorFlatParameters{VectorSize: 2, DistanceMetric: models.DistanceEuclidean}}}
	}
	os.MkdirAll(filepath.Join(dir, "s1"), 0755)
	os.MkdirAll(filepath.Join(dir, "s2"), 0755)
	s, err := drive.Open(filepath.Join(dir, "s1", "sharddb.bbolt"), schema, 1<<20, mgr)
	if err != nil {
		cleanup()
		return vt.Result{Err: fmt.Errorf("harness: %v", err)}
	}
	var other *drive.Shard
	defer func() {
		s.Proxy.SetHooks(nil)
		if stuck {
			return
		}
		if s != nil {
			s.Close()
		}
		if other != nil {
			other.Close()
		}
		cleanup()
	}()
	readerStraddled := false // (see below, where the first batch is held)
	fail := func(f string, a ...any) vt.Result {
		if readerStraddled {
			// whatever goes wrong after a search has straddled the first batch's commit is what the catalogued
			// finding D5 (C09) describes; this job judges the schedules in which no search does
			rec.Known("D5", "stalereplacement: after a search that straddled the first batch's commit", fmt.Sprintf(f, a...))
			rec.Count("cases_attributed_to_D5_search_straddled_the_commit", 1)
			return vt.Result{}
		}
		res.Err = fmt.Errorf("%s index, cache limit %d, %d points stored, first batch of %d held at %s, second batch %s (in the gap: %v): %s", c.Index, maxSize, c.Pre, c.N1, c.Pause, c.Third, c.Gap, fmt.Sprintf(f, a...))
		return res
	}
	search := func(sh *drive.Shard) (map[uuid.UUID]bool, error) {
		q := models.Query{Property: prop}
		if c.Index == "flat" {
			q.VectorFlat = &models.SearchVectorFlatOptions{Vector: []float32{1, 1}, Limit: 75, Operator: "near"}
		} else {
			q.VectorVamana = &models.SearchVectorVamanaOptions{Vector: []float32{1, 1}, SearchSize: 75, Limit: 75, Operator: "near"}
		}
		rows, err := sh.Search(models.SearchRequest{Query: q, Limit: 75})
		if err != nil {
			return nil, err
		}
		got := map[uuid.UUID]bool{}
		for _, r := range rows {
			got[r.Id] = true
		}
		return got, nil
	}
	searchOther := func() error { return nil }
	if !c.OwnPrune {
		osch := models.IndexSchema{gen.PFlat: {Type: models.IndexTypeVectorFlat, VectorFlat: &models.IndexVectorFlatParameters{VectorSize: 2, DistanceMetric: models.DistanceEuclidean}}}
		other, err = drive.Open(filepath.Join(dir, "s2", "sharddb.bbolt"), osch, 1<<20, mgr)
		if err != nil {
			return vt.Result{Err: fmt.Errorf("harness: %v", err)}
		}
		var pts []model.Point
		for i := 0; i < 100; i++ {
			pts = append(pts, stalePoint(gen.PFlat, 1000+i))
		}
		if err := other.Insert(pts); err != nil {
			return vt.Result{Err: fmt.Errorf("harness: %v", err)}
		}
		searchOther = func() error {
			_, err := other.Search(models.SearchRequest{Query: models.Query{Property: gen.PFlat, VectorFlat: &models.SearchVectorFlatOptions{Vector: []float32{1, 1}, Limit: 5, Operator: "near"}}, Limit: 5})
			return err
		}
		if err := searchOther(); err != nil {
			return fail("search on the other shard: %v", err)
		}
	}
	want := map[uuid.UUID]bool{}
	var pre []model.Point
	for i := 0; i < c.Pre; i++ {
		pre = append(pre, stalePoint(prop, i))
		want[pre[i].Id] = true
	}
	if len(pre) > 0 {
		if err := s.Insert(pre); err != nil {
			return fail("storing the first points: %v", err)
		}
	}
	// ---- the first batch, held at one of its writes and again after its storage commit
	bucketOf := map[string]string{"index": fmt.Sprintf("index/%s/%s", typ, prop), "internal": "internal", "points": "points"}
	pauseBucket, pauseKey := "", ""
	if c.Pause != "none" {
		parts := strings.SplitN(c.Pause, ":", 2)
		pauseBucket, pauseKey = bucketOf[parts[0]], parts[1]
	}
	putReached, putGo := make(chan struct{}), make(chan struct{})
	gapReached, gapGo := make(chan struct{}), make(chan struct{})
	var putOnce, gapOnce sync.Once
	var first atomic.Int64 // sequence number of the first batch's storage transaction
	var armed atomic.Bool
	armed.Store(true)
	s.Proxy.SetHooks(&drive.Hooks{
		TxBegin: func(tx *drive.ProxyTx) {
			if tx.Write && armed.Load() {
				first.CompareAndSwap(0, tx.Seq)
			}
		},
		Put: func(tx *drive.ProxyTx, bucket string, key []byte) {
			if !tx.Write || tx.Seq != first.Load() || pauseBucket == "" || bucket != pauseBucket {
				return
			}
			if pauseKey == "first" || string(key) == pauseKey {
				putOnce.Do(func() { close(putReached); <-putGo })
			}
		},
		TxEnd: func(tx *drive.ProxyTx, err error) {
			if tx.Write && tx.Seq == first.Load() && c.Gap {
				gapOnce.Do(func() { close(gapReached); <-gapGo })
			}
		}})
	var batch1 []model.Point
	for i := 0; i < c.N1; i++ {
		batch1 = append(batch1, stalePoint(prop, 100+i))
		want[batch1[i].Id] = true
	}
	release := func(ch chan struct{}) {
		defer func() { recover() }()
		close(ch)
	}
	firstDone := make(chan error, 1)
	go func() { firstDone <- s.Insert(batch1) }()
	held := false
	if pauseBucket != "" {
		select {
		case <-putReached:
			held = true
		case err := <-firstDone:
			firstDone <- err
		case <-gapReached:
			// the batch has no such write: it is already at the end of its storage transaction
			gapReached = nil
		case <-time.After(5 * time.Second):
			stuck = true
			return fail("the first batch neither reaches the chosen write nor returns")
		}
	}
	batchLetGo := false
	// readerStraddled: the reader's search was running when the held batch was let go, so it may straddle
	// the batch's commit. A search that straddles a commit can leave a cache built from its old snapshot
	// registered as the shared cache - the known finding D5 (C09), which the next batch then builds on. What
	// this job demands of the cache manager is demanded of searches that end before the batch goes on
	if held {
		rec.Count("first_batch_held_inside_its_storage_transaction", 1)
		// (a search on any shard of the node may have to wait for a batch that is held inside a flush: the
		// pruning walks every cache of the node. Then the batch is let go and the search awaited)
		od := make(chan error, 1)
		go func() { od <- searchOther() }()
		select {
		case err := <-od:
			if err != nil {
				release(putGo)
				release(gapGo)
				<-firstDone
				return fail("search on the other shard: %v", err)
			}
		case <-time.After(300 * time.Millisecond):
			batchLetGo = true
			release(putGo)
			if err := <-od; err != nil {
				release(gapGo)
				<-firstDone
				return fail("search on the other shard: %v", err)
			}
			rec.Count("searches_that_waited_for_the_held_batch", 1)
		}
		if c.Reader {
			// (a search may have to wait for the held batch: then the batch is let go and the search awaited)
			rd := make(chan error, 1)
			// (the count is only demanded of a search that has its answer while the batch is still held: once
			// the harness has let the batch go - because the search had to wait for it, or because the machine
			// is busy and the search has not got anywhere within the 300 ms - the batch commits and a search
			// that begins after that rightly sees its points)
			var letGo atomic.Bool
			letGo.Store(batchLetGo) // (the batch may have been let go already, for the search on the other shard)
			readerStraddled = batchLetGo
			go func() {
				got, err := search(s)
				if err == nil && !letGo.Load() && len(got) != c.Pre {
					err = fmt.Errorf("a search during the uncommitted first batch finds %d points, %d are committed", len(got), c.Pre)
				}
				rd <- err
			}()
			// d5: a search that straddles the batch's commit fails (or answers) as the catalogued finding D5
			// describes; that is C09's known finding, not a verdict on the cache manager
			d5 := func(err error) vt.Result {
				release(putGo)
				release(gapGo)
				<-firstDone
				rec.Known("D5", "stalereplacement: a search that straddles the first batch's commit fails on the shared cache", err.Error())
				rec.Count("cases_attributed_to_D5_search_straddled_the_commit", 1)
				return vt.Result{}
			}
			select {
			case err := <-rd:
				if err != nil {
					if readerStraddled {
						return d5(err)
					}
					release(putGo)
					release(gapGo)
					<-firstDone
					return fail("%v", err)
				}
				rec.Count("searches_during_the_held_batch", 1)
			case <-time.After(300 * time.Millisecond):
				letGo.Store(true)
				readerStraddled = true
				release(putGo)
				if err := <-rd; err != nil {
					return d5(err)
				}
				rec.Count("searches_that_waited_for_the_held_batch", 1)
			}
		}
		release(putGo)
	}
	inGap := false
	firstGot := false
	var firstErr error
	if c.Gap && gapReached != nil {
		select {
		case <-gapReached:
			inGap = true
		case firstErr = <-firstDone:
			firstGot = true
		case <-time.After(5 * time.Second):
			stuck = true
			return fail("the first batch does not finish its storage transaction")
		}
	} else if c.Gap {
		inGap = true
	}
	if !inGap && !firstGot {
		select {
		case firstErr = <-firstDone:
			firstGot = true
		case <-time.After(20 * time.Second):
			stuck = true
			return fail("the first batch does not return")
		}
	}
	if firstGot && firstErr != nil {
		return fail("the first batch failed: %v", firstErr)
	}
	armed.Store(false)
	// ---- the second batch
	secondDone := make(chan error, 1)
	go func() {
		switch c.Third {
		case "insert":
			p := stalePoint(prop, 500)
			secondDone <- s.Insert([]model.Point{p})
		case "update":
			p := batch1[0]
			p.Doc = model.Doc{prop: []float32{9, 9}}
			_, err := s.Update([]model.Point{p})
			secondDone <- err
		default:
			_, err := s.Delete([]uuid.UUID{batch1[len(batch1)-1].Id})
			secondDone <- err
		}
	}()
	switch c.Third {
	case "insert":
		want[stalePoint(prop, 500).Id] = true
	case "delete":
		delete(want, batch1[len(batch1)-1].Id)
	}
	var secondErr error
	secondGot := false
	if inGap {
		select {
		case secondErr = <-secondDone:
			secondGot = true
			rec.Count("second_batch_ran_inside_the_gap", 1)
		case <-time.After(400 * time.Millisecond):
			// it waits for the first batch to finish: fine
			rec.Count("second_batch_waited_for_the_first", 1)
		}
		release(gapGo)
	}
	deadline := time.After(20 * time.Second)
	for !(firstGot && secondGot) {
		select {
		case firstErr = <-firstDone:
			firstGot = true
		case secondErr = <-secondDone:
			secondGot = true
		case <-deadline:
			stuck = true
			return fail("the two batches do not both return (first returned: %v, second returned: %v)", firstGot, secondGot)
		}
	}
	if firstErr != nil {
		return fail("the first batch failed: %v", firstErr)
	}
	if secondErr != nil {
		return fail("the second batch failed: %v", secondErr)
	}
	s.Proxy.SetHooks(nil)
	// ---- both batches are acknowledged
	check := func(where string, sh *drive.Shard) error {
		got, err := search(sh)
		if err != nil {
			return fmt.Errorf("%s: search: %v", where, err)
		}
		var missing, extra []string
		for id := range want {
			if !got[id] {
				missing = append(missing, id.String()[:4])
			}
		}
		for id := range got {
			if !want[id] {
				extra = append(extra, id.String()[:4])
			}
		}
		sort.Strings(missing)
		sort.Strings(extra)
		if len(missing)+len(extra) > 0 {
			return fmt.Errorf("%s: after both batches were acknowledged the vector search finds %d of %d stored points (missing %v, unexpected %v)", where, len(got)-len(extra), len(want), missing, extra)
		}
		return nil
	}
	if err := check("the running shard", s); err != nil {
		if readerStraddled {
			rec.Known("D5", "stalereplacement: a search that straddles the first batch's commit leaves a cache built from its old snapshot", err.Error())
			rec.Count("cases_attributed_to_D5_search_straddled_the_commit", 1)
			return vt.Result{}
		}
		return fail("%v", err)
	}
	path := s.Path
	if err := s.Close(); err != nil {
		s = nil
		return fail("close: %v", err)
	}
	s, err = drive.Open(path, schema, 1<<20, drive.Manager(-1))
	if err != nil {
		s = nil
		return fail("reopen: %v", err)
	}
	if err := check("the reopened file with a new cache manager", s); err != nil {
		return fail("%v", err)
	}
	rec.Count("stale_replacement_schedules", 1)
	res.NonTrivial = held && inGap
	return res
}

func TestPropStaleReplacement(t *testing.T)   { vt.Check(t, "stalereplacement", genStale, execStale) }
func TestReplayStaleReplacement(t *testing.T) { vt.Replay(t, "stalereplacement", execStale) }
