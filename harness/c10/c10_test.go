package c10

import (
	"fmt"
	"sort"
	"testing"

	"github.com/google/uuid"
	"github.com/semafind/semadb/models"
	"pgregory.net/rapid"
	"verif/drive"
	"verif/gen"
	"verif/model"
	"verif/oracle"
	"verif/run"
	"verif/vt"
)

func TestMain(m *testing.M) {
	vt.OnExit(drive.Cleanup)
	vt.Main(m, "C10")
}

type Case struct {
	H       gen.History         `json:"history"`
	Queries [][]oracle.VecQuery `json:"queries"`
}

// clustered vector: one of a few centres plus a small offset (many near-duplicates)
func genClustered(t *rapid.T, label string, dim int, metric string) []float32 {
	if metric != models.DistanceEuclidean && metric != models.DistanceDot {
		return gen.GenVector(t, label, dim, metric)
	}
	v := make([]float32, dim)
	centre := rapid.IntRange(0, 3).Draw(t, label+"-c")
	for i := range v {
		v[i] = float32(centre*10) + float32(rapid.IntRange(-2, 2).Draw(t, fmt.Sprintf("%s-%d", label, i)))/4
	}
	return v
}

func genCase(t *rapid.T) Case {
	so := gen.SchemaOpts{Vamana: true, MaxDim: 4, Quantizer: rapid.IntRange(0, 2).Draw(t, "quant") == 0,
		Metrics: []string{models.DistanceEuclidean, models.DistanceEuclidean, models.DistanceDot, models.DistanceCosine, models.DistanceHamming, models.DistanceHaversine, models.DistanceJaccard}}
	schema := gen.Schema(t, so)
	if rapid.Bool().Draw(t, "withInt") {
		schema[gen.PInt] = models.IndexSchemaValue{Type: models.IndexTypeInteger}
	}
	pool := rapid.SampledFrom([]int{50, 90, 140}).Draw(t, "pool")
	maxSteps, maxBatch := 7, 70
	if vt.Thorough() {
		pool = rapid.SampledFrom([]int{50, 90, 140, 220}).Draw(t, "poolT")
		maxSteps, maxBatch = 12, 120
	}
	ho := gen.HistoryOpts{MaxSteps: maxSteps, MaxBatch: maxBatch, PoolSize: pool, Reopen: true, Evict: true, FieldProb: 92}
	// the same id more than once in one update batch (merged in order; the indices must see the net change)
	ho.AllowDupUpdate = rapid.IntRange(0, 3).Draw(t, "dupUpdate") == 0
	c := Case{H: gen.History{Schema: schema, MaxPointSize: 1 << 20, CacheLimit: rapid.SampledFrom([]int64{-1, -1, 0, 3000}).Draw(t, "cacheLimit")}}
	if rapid.IntRange(0, 5).Draw(t, "highIds") == 0 {
		c.H.FirstNodeId = gen.GenFirstNodeId(t, "firstNode")
	}
	g := gen.NewHistoryGen(t, schema, c.H.MaxPointSize, ho)
	dim, metric := gen.VectorParams(schema[gen.PVamana])
	n := rapid.IntRange(2, maxSteps).Draw(t, "nsteps")
	// shape "late vectors": points stored without the vector (their node ids lie above everything the graph
	// has seen), one update batch that gives several of them their first vector in an arbitrary order of
	// ids, then the deletion of some of them
	late := rapid.IntRange(0, 3).Draw(t, "lateVectors") == 0
	var lateIds []uuid.UUID
	if late {
		n = max(n, 4)
	}
	for i := 0; i < n; i++ {
		var st gen.Step
		k := rapid.IntRange(0, 9).Draw(t, fmt.Sprintf("kind%d", i))
		switch {
		case late && i == 1:
			st = gen.Step{Kind: "insert", Note: "late vectors: stored without the vector"}
			for _, id := range g.Pool {
				if _, stored := g.M.Docs[id]; !stored && len(lateIds) < 6 {
					lateIds = append(lateIds, id)
				}
			}
			lateIds = lateIds[:min(len(lateIds), rapid.IntRange(2, 6).Draw(t, "nlate"))]
			for _, id := range lateIds {
				st.Points = append(st.Points, model.Point{Id: id, Doc: model.Doc{"label": "late"}})
			}
			g.M.Insert(st.Points)
		case late && i == 2 && len(lateIds) > 0:
			st = gen.Step{Kind: "update", Note: "late vectors: first vector, any order"}
			for _, j := range rapid.Permutation(seqInts(len(lateIds))).Draw(t, "lateOrder") {
				st.Points = append(st.Points, model.Point{Id: lateIds[j], Doc: model.Doc{gen.PVamana: genClustered(t, fmt.Sprintf("latev%d", j), dim, metric)}})
			}
			g.M.Update(st.Points)
		case late && i == 3 && len(lateIds) > 0:
			st = gen.Step{Kind: "delete", Note: "late vectors: delete"}
			for _, j := range rapid.Permutation(seqInts(len(lateIds))).Draw(t, "lateDel")[:rapid.IntRange(1, len(lateIds)).Draw(t, "nlateDel")] {
				st.Ids = append(st.Ids, lateIds[j])
			}
			g.M.Delete(st.Ids)
		case i == 0 || k <= 2:
			// a big insert with clustered vectors
			st = g.Insert()
			// regenerate vectors as clustered ones (the private model is patched alongside)
			if st.Note == "" {
				for pi := range st.Points {
					if _, ok := st.Points[pi].Doc[gen.PVamana]; ok && rapid.IntRange(0, 3).Draw(t, fmt.Sprintf("cl%d.%d", i, pi)) > 0 {
						v := genClustered(t, fmt.Sprintf("clv%d.%d", i, pi), dim, metric)
						st.Points[pi].Doc[gen.PVamana] = v
						g.M.Docs[st.Points[pi].Id][gen.PVamana] = append([]float32(nil), v...)
					}
				}
			}
		case k <= 4:
			// delete a whole neighbourhood: the nearest stored points of a stored point
			st = neighbourhoodDelete(t, fmt.Sprintf("nd%d", i), g)
		case k <= 7:
			st = g.Update()
		default:
			st = g.Next()
		}
		c.H.Steps = append(c.H.Steps, st)
		var qs []oracle.VecQuery
		for j := 0; j < 2; j++ {
			vec, limit, w, f := gen.VecQueryParts(t, fmt.Sprintf("q%d.%d", i, j), g.M, g.Pool, gen.PVamana, 75)
			ss := rapid.IntRange(max(25, limit), 75).Draw(t, fmt.Sprintf("ss%d.%d", i, j))
			q := oracle.VecQuery{Prop: gen.PVamana, Vector: vec, Limit: limit, SearchSize: ss, Weight: w, Filter: f}
			gen.MustValid(q.ToQuery(schema), schema)
			qs = append(qs, q)
		}
		c.Queries = append(c.Queries, qs)
	}
	c.H.Rename = gen.MaybeRename(t, c.H.Schema)
	return c
}

func seqInts(n int) []int {
	r := make([]int, n)
	for i := range r {
		r[i] = i
	}
	return r
}

func neighbourhoodDelete(t *rapid.T, label string, g *gen.HistoryGen) gen.Step {
	type cand struct {
		id uuid.UUID
		v  []float32
	}
	var cands []cand
	for _, id := range g.M.Ids() {
		if v, ok := model.FieldVector(g.M.Docs[id], gen.PVamana); ok {
			cands = append(cands, cand{id, v})
		}
	}
	if len(cands) == 0 {
		return g.Delete()
	}
	centre := cands[rapid.IntRange(0, len(cands)-1).Draw(t, label+"-centre")]
	sort.SliceStable(cands, func(i, j int) bool {
		di, _, _ := model.RefDistance(models.DistanceEuclidean, centre.v, cands[i].v)
		dj, _, _ := model.RefDistance(models.DistanceEuclidean, centre.v, cands[j].v)
		return di < dj
	})
	k := rapid.IntRange(1, min(len(cands), 40)).Draw(t, label+"-k")
	st := gen.Step{Kind: "delete", Note: "neighbourhood"}
	for _, c := range cands[:k] {
		st.Ids = append(st.Ids, c.id)
	}
	g.M.Delete(st.Ids)
	return st
}

func execCase(c Case) (res vt.Result) {
	rec := vt.R()
	r, err := run.New(c.H)
	if err != nil {
		return vt.Result{Err: err}
	}
	defer r.Close()
	params := c.H.Schema[gen.PVamana].VectorVamana
	fail := func(i int, f string, a ...any) vt.Result {
		res.Err = fmt.Errorf("step %d (%s, %d points, %d ids): %s", i, c.H.Steps[i].Kind, len(c.H.Steps[i].Points), len(c.H.Steps[i].Ids), fmt.Sprintf(f, a...))
		return res
	}
	nontrivial := false
	maxNodes := 0
	for i, st := range c.H.Steps {
		info, err := r.Apply(st)
		if err != nil {
			return fail(i, "%v", err)
		}
		ctx, err := oracle.ContextOf(r.S, r.M, gen.PVamana)
		if err != nil {
			return fail(i, "%v", err)
		}
		live := map[uuid.UUID]bool{}
		for id := range r.M.Docs {
			live[id] = true
		}
		if err := ctx.Points.Check(live); err != nil {
			return fail(i, "point store: %v", err)
		}
		if err := oracle.CheckGraph(ctx, gen.PVamana, params.DegreeBound); err != nil {
			return fail(i, "%v", err)
		}
		if err := oracle.CheckVecStore(ctx, gen.PVamana, true); err != nil {
			return fail(i, "%v", err)
		}
		if len(ctx.Bucket.Edges) > maxNodes {
			maxNodes = len(ctx.Bucket.Edges)
		}
		// classify the batch
		if info.Wrote && len(ctx.Bucket.Edges) > params.DegreeBound {
			switch st.Kind {
			case "delete":
				if len(info.Deleted) >= 2 {
					nontrivial = true
					rec.Count("multi_delete_on_big_graph", 1)
				}
			case "update":
				add, change, remove := 0, 0, 0
				for _, id := range info.Updated {
					_, was := model.FieldVector(info.Before.Docs[id], gen.PVamana)
					_, is := model.FieldVector(r.M.Docs[id], gen.PVamana)
					switch {
					case !was && is:
						add++
					case was && is:
						change++
					case was && !is:
						remove++
					}
				}
				if add > 0 && change > 0 && remove > 0 {
					nontrivial = true
					rec.Count("mixed_update_on_big_graph", 1)
				}
			}
		}
		// searches succeed and return only live points with correct distances
		for qi, q := range c.Queries[i] {
			rows, err := r.S.Search(models.SearchRequest{Query: q.ToQuery(c.H.Schema)})
			if err != nil {
				return fail(i, "search %d failed after the batch: %v", qi, err)
			}
			if err := oracle.CheckVectorRows(ctx, q, rows, false); err != nil {
				return fail(i, "search %d: %v", qi, err)
			}
		}
		if err := drive.StrayVerdict(r.S); err != nil {
			return fail(i, "during queries: %v", err)
		}
	}
	rec.Max("max_graph_nodes", int64(maxNodes))
	rec.Count("degree_bound_"+fmt.Sprint(params.DegreeBound), 1)
	res.NonTrivial = nontrivial
	return res
}

func TestPropGraph(t *testing.T)   { vt.Check(t, "graph", genCase, execCase) }
func TestReplayGraph(t *testing.T) { vt.Replay(t, "graph", execCase) }
