package c20

import (
	"fmt"
	"math"
	"math/bits"
	"testing"

	"github.com/semafind/semadb/diskstore"
	"github.com/semafind/semadb/distance"
	"github.com/semafind/semadb/distance/asm"
	"github.com/semafind/semadb/models"
	"github.com/semafind/semadb/shard/vectorstore"
	"pgregory.net/rapid"
	"verif/vt"
)

func TestMain(m *testing.M) { vt.Main(m, "C20") }

const maxLen = 4096

// KernelCase describes two vectors compactly: element i of x is
// PoolX[(AX*i+BX) mod len(PoolX)], overridden by spikes; the vectors are sliced
// at OffX / OffY out of a larger backing array, and the property is checked for
// a whole set of lengths.
type KernelCase struct {
	Class   string   `json:"class"`    // "A" exact small integers, "B" arbitrary finite floats
	PoolX   []uint32 `json:"poolX"`    // float32 bit patterns
	PoolY   []uint32 `json:"poolY"`
	AX      int      `json:"ax"`
	BX      int      `json:"bx"`
	AY      int      `json:"ay"`
	BY      int      `json:"by"`
	SpikeAt []int    `json:"spikeAt"`  // indexes (mod length) where x and y get the spike values
	SpikeX  []uint32 `json:"spikeX"`
	SpikeY  []uint32 `json:"spikeY"`
	OffX    int      `json:"offX"`
	OffY    int      `json:"offY"`
	LenLo   int      `json:"lenLo"`    // extra window of lengths checked exhaustively: [LenLo, LenLo+64)
}

var classBPool = []float32{
	0, float32(math.Copysign(0, -1)), 1, -1, 0.5, -0.5, 1e-3, -1e-3, 3.14159, -2.71828,
	math.SmallestNonzeroFloat32, -math.SmallestNonzeroFloat32, 1e-40, -1e-40, 1.1754944e-38, // denormals and min normal
	1e15, -1e15, 3e14, 65504, -65504, 1e-20, -1e-20, 16777216, 16777217, 0.1, 0.3, 1e7, -1e7,
}

func genF32(t *rapid.T, class string, label string) uint32 {
	if class == "A" {
		return math.Float32bits(float32(rapid.IntRange(-15, 15).Draw(t, label)))
	}
	if rapid.IntRange(0, 2).Draw(t, label+"-k") == 0 {
		// arbitrary finite float with |v| <= 1e15
		for {
			b := rapid.Uint32().Draw(t, label+"-bits")
			f := math.Float32frombits(b)
			if f != f || math.IsInf(float64(f), 0) || math.Abs(float64(f)) > 1e15 {
				// construction instead of rejection: clear exponent bits to bring into range
				b &= 0x807fffff | (uint32(rapid.IntRange(0, 176).Draw(t, label+"-exp")) << 23)
				f = math.Float32frombits(b)
			}
			return math.Float32bits(f)
		}
	}
	return math.Float32bits(rapid.SampledFrom(classBPool).Draw(t, label+"-pool"))
}

func genKernelCase(t *rapid.T) KernelCase {
	c := KernelCase{Class: rapid.SampledFrom([]string{"A", "A", "B"}).Draw(t, "class")}
	nx := rapid.IntRange(1, 12).Draw(t, "nx")
	ny := rapid.IntRange(1, 12).Draw(t, "ny")
	for i := 0; i < nx; i++ {
		c.PoolX = append(c.PoolX, genF32(t, c.Class, fmt.Sprintf("px%d", i)))
	}
	for i := 0; i < ny; i++ {
		c.PoolY = append(c.PoolY, genF32(t, c.Class, fmt.Sprintf("py%d", i)))
	}
	c.AX = rapid.IntRange(1, 13).Draw(t, "ax")
	c.BX = rapid.IntRange(0, 12).Draw(t, "bx")
	c.AY = rapid.IntRange(1, 13).Draw(t, "ay")
	c.BY = rapid.IntRange(0, 12).Draw(t, "by")
	ns := rapid.IntRange(0, 4).Draw(t, "nspikes")
	for i := 0; i < ns; i++ {
		c.SpikeAt = append(c.SpikeAt, rapid.IntRange(0, maxLen-1).Draw(t, "spikeAt"))
		c.SpikeX = append(c.SpikeX, genF32(t, c.Class, "spikeX"))
		c.SpikeY = append(c.SpikeY, genF32(t, c.Class, "spikeY"))
	}
	c.OffX = rapid.IntRange(0, 15).Draw(t, "offX")
	c.OffY = rapid.IntRange(0, 15).Draw(t, "offY")
	c.LenLo = rapid.IntRange(1, maxLen-64).Draw(t, "lenLo")
	return c
}

func (c KernelCase) materialise() (x, y []float32) {
	bx := make([]float32, maxLen+16)
	by := make([]float32, maxLen+16)
	// poison outside the slices so that an over-read changes the result
	for i := range bx {
		bx[i] = 7
		by[i] = 11
	}
	x = bx[c.OffX : c.OffX+maxLen]
	y = by[c.OffY : c.OffY+maxLen]
	for i := 0; i < maxLen; i++ {
		x[i] = math.Float32frombits(c.PoolX[(c.AX*i+c.BX)%len(c.PoolX)])
		y[i] = math.Float32frombits(c.PoolY[(c.AY*i+c.BY)%len(c.PoolY)])
	}
	for k, at := range c.SpikeAt {
		x[at] = math.Float32frombits(c.SpikeX[k])
		y[at] = math.Float32frombits(c.SpikeY[k])
	}
	return
}

func lengthSet(c KernelCase) []int {
	if vt.Thorough() {
		r := make([]int, maxLen)
		for i := range r {
			r[i] = i + 1
		}
		return r
	}
	seen := map[int]bool{}
	var r []int
	add := func(n int) {
		if n >= 1 && n <= maxLen && !seen[n] {
			seen[n] = true
			r = append(r, n)
		}
	}
	for n := 1; n <= 160; n++ {
		add(n)
	}
	for k := 1; k <= maxLen/32; k++ {
		add(32*k - 1)
		add(32 * k)
		add(32*k + 1)
		add(32*k + 8)
	}
	for n := c.LenLo; n < c.LenLo+64; n++ {
		add(n)
	}
	return r
}

const u32 = 1.0 / (1 << 24) // unit roundoff of float32

func execKernel(c KernelCase) vt.Result {
	rec := vt.R()
	x, y := c.materialise()
	eucl, _ := distance.GetFloatDistanceFn(models.DistanceEuclidean)
	dotD, _ := distance.GetFloatDistanceFn(models.DistanceDot)
	cosD, _ := distance.GetFloatDistanceFn(models.DistanceCosine)
	// running float64 references (prefix sums), so the whole sweep is O(maxLen)
	var dot, dotAbs, sq float64
	lens := lengthSet(c)
	want := map[int]bool{}
	for _, n := range lens {
		want[n] = true
	}
	checked := 0
	for n := 1; n <= maxLen; n++ {
		xi, yi := float64(x[n-1]), float64(y[n-1])
		dot += xi * yi
		dotAbs += math.Abs(xi * yi)
		d := xi - yi
		sq += d * d
		if !want[n] {
			continue
		}
		checked++
		xs, ys := x[:n:n], y[:n:n]
		type probe struct {
			name     string
			got, rev float32
			ref, mag float64
		}
		probes := []probe{
			{"asm.Dot", asm.Dot(xs, ys), asm.Dot(ys, xs), dot, dotAbs},
			{"asm.SquaredEuclideanDistance", asm.SquaredEuclideanDistance(xs, ys), asm.SquaredEuclideanDistance(ys, xs), sq, sq},
			{"euclidean", eucl(xs, ys), eucl(ys, xs), sq, sq},
			{"dot", dotD(xs, ys), dotD(ys, xs), -dot, dotAbs},
			{"cosine", cosD(xs, ys), cosD(ys, xs), 1 - dot, dotAbs + 1},
		}
		for _, p := range probes {
			if c.Class == "A" {
				if float64(p.got) != p.ref || float64(p.rev) != p.ref {
					return vt.Result{Err: fmt.Errorf("%s length %d offsets (%d,%d): got %v (reversed %v), exact value %v (all terms and partial sums are exactly representable)", p.name, n, c.OffX, c.OffY, p.got, p.rev, p.ref)}
				}
				continue
			}
			// float32 accumulation in any order with fused or unfused multiply-add:
			// |err| <= gamma_{n+3} * sum|terms|, plus underflow slack, plus final rounding of the reference
			bound := float64(n+8)*2*u32*p.mag + float64(n)*1e-42 + math.Abs(p.ref)*u32
			for _, g := range []float32{p.got, p.rev} {
				if g != g || math.Abs(float64(g)-p.ref) > bound {
					return vt.Result{Err: fmt.Errorf("%s length %d offsets (%d,%d): got %v, float64 reference %v, allowed error %g", p.name, n, c.OffX, c.OffY, g, p.ref, bound)}
				}
			}
		}
	}
	rec.Count("kernel_lengths_checked", int64(checked))
	rec.Count("kernel_class_"+c.Class, 1)
	distinct := map[uint32]bool{}
	for _, v := range c.PoolX {
		distinct[v] = true
	}
	for _, v := range c.PoolY {
		distinct[v] = true
	}
	return vt.Result{NonTrivial: len(distinct) >= 3 && (c.OffX%8 != 0 || c.OffY%8 != 0)}
}

func TestPropKernels(t *testing.T)   { vt.Check(t, "kernels", genKernelCase, execKernel) }
func TestReplayKernels(t *testing.T) { vt.Replay(t, "kernels", execKernel) }

// ---------------------------------------------------------------------------
// Bit distances through the binary vector store.

type BitCase struct {
	Metric    string   `json:"metric"`
	ViaQuant  bool     `json:"viaQuantizer"` // false: metric hamming/jaccard (fixed 0.5); true: euclidean + binary quantizer with Threshold
	Threshold float32  `json:"threshold"`
	Len       int      `json:"len"`
	PoolX     []uint32 `json:"poolX"`
	PoolY     []uint32 `json:"poolY"`
	AX        int      `json:"ax"`
	AY        int      `json:"ay"`
	FlipAt    []int    `json:"flipAt"`
}

func genBitCase(t *rapid.T) BitCase {
	c := BitCase{Metric: rapid.SampledFrom([]string{models.DistanceHamming, models.DistanceJaccard}).Draw(t, "metric")}
	c.ViaQuant = rapid.Bool().Draw(t, "viaQuant")
	c.Threshold = 0.5
	if c.ViaQuant {
		c.Threshold = rapid.SampledFrom([]float32{0, 0.5, -1, 1, 1e-40, 0.25, 100}).Draw(t, "threshold")
	}
	switch rapid.IntRange(0, 3).Draw(t, "lenKind") {
	case 0:
		c.Len = rapid.IntRange(1, 130).Draw(t, "lenSmall")
	case 1:
		c.Len = 64*rapid.IntRange(1, 64).Draw(t, "len64") + rapid.IntRange(-1, 1).Draw(t, "lenDelta")
	default:
		c.Len = rapid.IntRange(1, maxLen).Draw(t, "lenAny")
	}
	th := c.Threshold
	near := []float32{th, math.Nextafter32(th, 1e30), math.Nextafter32(th, -1e30), 0, 1, -1, 2 * th, th + 1, th - 1, float32(math.Inf(1)), float32(math.Inf(-1)),
		// not a number (a MessagePack body can carry it): not greater than any threshold, its bit is not set
		float32(math.NaN())}
	nx := rapid.IntRange(1, 9).Draw(t, "nx")
	ny := rapid.IntRange(1, 9).Draw(t, "ny")
	for i := 0; i < nx; i++ {
		c.PoolX = append(c.PoolX, math.Float32bits(rapid.SampledFrom(near).Draw(t, "px")))
	}
	for i := 0; i < ny; i++ {
		c.PoolY = append(c.PoolY, math.Float32bits(rapid.SampledFrom(near).Draw(t, "py")))
	}
	c.AX = rapid.IntRange(1, 11).Draw(t, "ax")
	c.AY = rapid.IntRange(1, 11).Draw(t, "ay")
	nf := rapid.IntRange(0, 4).Draw(t, "nflip")
	for i := 0; i < nf; i++ {
		c.FlipAt = append(c.FlipAt, rapid.IntRange(0, c.Len-1).Draw(t, "flipAt"))
	}
	return c
}

func execBit(c BitCase) vt.Result {
	x := make([]float32, c.Len)
	y := make([]float32, c.Len)
	for i := range x {
		x[i] = math.Float32frombits(c.PoolX[(c.AX*i)%len(c.PoolX)])
		y[i] = math.Float32frombits(c.PoolY[(c.AY*i+1)%len(c.PoolY)])
	}
	for _, at := range c.FlipAt {
		x[at] = c.Threshold + 1
		y[at] = c.Threshold - 1
	}
	metric := c.Metric
	var q *models.Quantizer
	if c.ViaQuant {
		th := c.Threshold
		q = &models.Quantizer{Type: models.QuantizerBinary, Binary: &models.BinaryQuantizerParamaters{Threshold: &th, DistanceMetric: c.Metric}}
		metric = models.DistanceEuclidean
	}
	vs, err := vectorstore.New(q, diskstore.NewMemBucket(false), metric, c.Len)
	if err != nil {
		return vt.Result{Err: fmt.Errorf("vectorstore.New: %v", err)}
	}
	px, err := vs.Set(2, x)
	if err != nil {
		return vt.Result{Err: err}
	}
	py, err := vs.Set(3, y)
	if err != nil {
		return vt.Result{Err: err}
	}
	// definition
	diff, inter, union := 0, 0, 0
	for i := range x {
		bx, by := x[i] > c.Threshold, y[i] > c.Threshold
		if bx != by {
			diff++
		}
		if bx && by {
			inter++
		}
		if bx || by {
			union++
		}
	}
	var want float32
	if c.Metric == models.DistanceHamming {
		want = float32(diff)
	} else if union > 0 {
		want = 1 - float32(inter)/float32(union)
	}
	got := map[string]float32{
		"float(x)->point(y)": vs.DistanceFromFloat(x)(py),
		"float(y)->point(x)": vs.DistanceFromFloat(y)(px),
		"point(x)->point(y)": vs.DistanceFromPoint(px)(py),
		"point(y)->point(x)": vs.DistanceFromPoint(py)(px),
	}
	for k, g := range got {
		if g != want {
			return vt.Result{Err: fmt.Errorf("%s (viaQuantizer=%v threshold=%v) length %d %s = %v, bit-count definition gives %v (diff=%d inter=%d union=%d)", c.Metric, c.ViaQuant, c.Threshold, c.Len, k, g, want, diff, inter, union)}
		}
	}
	if d := vs.DistanceFromPoint(px)(px); d != 0 {
		return vt.Result{Err: fmt.Errorf("%s distance of a point to itself is %v", c.Metric, d)}
	}
	vt.R().Count("bit_"+c.Metric, 1)
	if c.Len%64 != 0 {
		vt.R().Count("bit_len_not_multiple_of_64", 1)
	}
	return vt.Result{NonTrivial: c.Len%64 != 0 && union > 0 && diff > 0}
}

func TestPropBits(t *testing.T)   { vt.Check(t, "bits", genBitCase, execBit) }
func TestReplayBits(t *testing.T) { vt.Replay(t, "bits", execBit) }

// also the raw bit functions on arbitrary words, including set padding bits:
// the definitions are over all bits of the words handed in.
type RawBitCase struct {
	X []uint64 `json:"x"`
	Y []uint64 `json:"y"`
}

func genRawBit(t *rapid.T) RawBitCase {
	n := rapid.IntRange(1, 64).Draw(t, "words")
	g := rapid.OneOf(rapid.Uint64(), rapid.SampledFrom([]uint64{0, ^uint64(0), 1, 1 << 63}))
	return RawBitCase{X: rapid.SliceOfN(g, n, n).Draw(t, "x"), Y: rapid.SliceOfN(g, n, n).Draw(t, "y")}
}

func execRawBit(c RawBitCase) vt.Result {
	ham, _ := distance.GetBitDistanceFn(models.DistanceHamming)
	jac, _ := distance.GetBitDistanceFn(models.DistanceJaccard)
	diff, inter, union := 0, 0, 0
	for i := range c.X {
		for b := 0; b < 64; b++ {
			bx, by := c.X[i]>>b&1 == 1, c.Y[i]>>b&1 == 1
			if bx != by {
				diff++
			}
			if bx && by {
				inter++
			}
			if bx || by {
				union++
			}
		}
	}
	_ = bits.OnesCount64
	if g := ham(c.X, c.Y); g != float32(diff) || ham(c.Y, c.X) != g {
		return vt.Result{Err: fmt.Errorf("hamming = %v / %v, want %d", g, ham(c.Y, c.X), diff)}
	}
	var want float32
	if union > 0 {
		want = 1 - float32(inter)/float32(union)
	}
	if g := jac(c.X, c.Y); g != want || jac(c.Y, c.X) != g {
		return vt.Result{Err: fmt.Errorf("jaccard = %v / %v, want %v", g, jac(c.Y, c.X), want)}
	}
	return vt.Result{NonTrivial: diff > 0 && inter > 0}
}

func TestPropRawBits(t *testing.T)   { vt.Check(t, "rawbits", genRawBit, execRawBit) }
func TestReplayRawBits(t *testing.T) { vt.Replay(t, "rawbits", execRawBit) }

// ---------------------------------------------------------------------------
// Haversine against an independent, well-conditioned float64 formulation.

type HavCase struct {
	Lat1 float32 `json:"lat1"`
	Lon1 float32 `json:"lon1"`
	Lat2 float32 `json:"lat2"`
	Lon2 float32 `json:"lon2"`
}

func genCoord(t *rapid.T, lim float64, label string) float32 {
	switch rapid.IntRange(0, 3).Draw(t, label+"-k") {
	case 0:
		return float32(rapid.SampledFrom([]float64{0, lim, -lim, lim / 2, -lim / 2, 1e-6, -1e-6, lim - 1e-4}).Draw(t, label+"-b"))
	default:
		return float32(rapid.Float64Range(-lim, lim).Draw(t, label))
	}
}

func genHav(t *rapid.T) HavCase {
	c := HavCase{Lat1: genCoord(t, 90, "lat1"), Lon1: genCoord(t, 180, "lon1")}
	switch rapid.IntRange(0, 4).Draw(t, "pair") {
	case 4:
		// latitudes beyond a pole (nothing restricts a latitude to [-90, 90]; the formula is defined for
		// every angle): the same place written through the pole, or any two such places
		c.Lat1 = float32(rapid.Float64Range(90, 270).Draw(t, "beyond")) * float32(rapid.SampledFrom([]float64{1, -1}).Draw(t, "beyondSign"))
		if rapid.Bool().Draw(t, "samePlace") {
			if c.Lat1 > 0 {
				c.Lat2 = 180 - c.Lat1
			} else {
				c.Lat2 = -180 - c.Lat1
			}
			c.Lon2 = c.Lon1 + 180
			if c.Lon2 > 180 {
				c.Lon2 -= 360
			}
		} else {
			c.Lat2, c.Lon2 = genCoord(t, 360, "lat2"), genCoord(t, 180, "lon2")
		}
	case 0: // antipodal or nearly so
		c.Lat2 = -c.Lat1
		c.Lon2 = c.Lon1 + 180
		if c.Lon2 > 180 {
			c.Lon2 -= 360
		}
		if rapid.Bool().Draw(t, "perturb") {
			c.Lat2 = math.Nextafter32(c.Lat2, float32(rapid.SampledFrom([]float64{-100, 100}).Draw(t, "dir")))
		}
	case 1: // same or adjacent
		c.Lat2, c.Lon2 = c.Lat1, math.Nextafter32(c.Lon1, 1000)
		if c.Lon2 > 180 {
			c.Lon2 = c.Lon1
		}
	default:
		c.Lat2, c.Lon2 = genCoord(t, 90, "lat2"), genCoord(t, 180, "lon2")
	}
	return c
}

func execHav(c HavCase) vt.Result {
	if r := execHavOne(c); r.Err != nil {
		return r
	}
	// a sweep of antipodal pairs derived from the case: whether rounding pushes the haversine term above 1
	// depends on the latitude, so one pair per case meets it rarely
	for k := 1; k <= 96; k++ {
		lat := float32(math.Mod(float64(c.Lat1)+float64(k)*0.3717, 90))
		lon := float32(math.Mod(float64(c.Lon1)+float64(k)*1.0123, 180))
		lon2 := lon + 180
		if lon2 > 180 {
			lon2 -= 360
		}
		if r := execHavOne(HavCase{Lat1: lat, Lon1: lon, Lat2: -lat, Lon2: lon2}); r.Err != nil {
			return r
		}
	}
	return execHavOne(c)
}

func execHavOne(c HavCase) vt.Result {
	hav, _ := distance.GetFloatDistanceFn(models.DistanceHaversine)
	x, y := []float32{c.Lat1, c.Lon1}, []float32{c.Lat2, c.Lon2}
	got, rev := hav(x, y), hav(y, x)
	const R = 6371000.0
	rad := math.Pi / 180
	p1, l1, p2, l2 := float64(c.Lat1)*rad, float64(c.Lon1)*rad, float64(c.Lat2)*rad, float64(c.Lon2)*rad
	dl := l2 - l1
	// Vincenty's formula for the sphere: accurate for all distances
	num := math.Hypot(math.Cos(p2)*math.Sin(dl), math.Cos(p1)*math.Sin(p2)-math.Sin(p1)*math.Cos(p2)*math.Cos(dl))
	den := math.Sin(p1)*math.Sin(p2) + math.Cos(p1)*math.Cos(p2)*math.Cos(dl)
	want := R * math.Atan2(num, den)
	tol := 0.5 + 1e-6*want
	for _, g := range []float32{got, rev} {
		if g != g || math.Abs(float64(g)-want) > tol {
			return vt.Result{Err: fmt.Errorf("haversine(%v,%v)=%v (reversed %v), reference %v, tolerance %v m", x, y, got, rev, want, tol)}
		}
	}
	if got != rev && math.Abs(float64(got)-float64(rev)) > tol {
		return vt.Result{Err: fmt.Errorf("haversine not symmetric: %v vs %v", got, rev)}
	}
	vt.R().Count("haversine", 1)
	return vt.Result{NonTrivial: want > 1 && want < R*math.Pi-1}
}

func TestPropHaversine(t *testing.T)   { vt.Check(t, "haversine", genHav, execHav) }
func TestReplayHaversine(t *testing.T) { vt.Replay(t, "haversine", execHav) }
