package drive

import (
	"encoding/binary"
	"fmt"
	"math"

	"github.com/semafind/semadb/models"
	"verif/model"
)

// VecBucket is the decoded content of a vector index bucket (flat or graph).
type VecBucket struct {
	Vectors   map[uint64][]float32 // n<id>v
	Codes     map[uint64][]byte    // n<id>q raw bytes
	Edges     map[uint64][]uint64  // n<id>e
	Threshold []float32            // _binaryQuantizerThreshold
	Centroids []float32            // _productQuantizerFlatCentroids
	CDists    []float32
	MaxNodeId *uint64 // _vamanaMaxNodeId
	Other     []string
}

func f32s(b []byte) []float32 {
	r := make([]float32, len(b)/4)
	for i := range r {
		r[i] = math.Float32frombits(binary.LittleEndian.Uint32(b[4*i:]))
	}
	return r
}

// ParseVecBucket decodes a dumped vector bucket.
func ParseVecBucket(kv map[string][]byte) *VecBucket {
	vb := &VecBucket{Vectors: map[uint64][]float32{}, Codes: map[uint64][]byte{}, Edges: map[uint64][]uint64{}}
	for k, v := range kv {
		kb := []byte(k)
		if len(kb) == 10 && kb[0] == 'n' {
			id := binary.LittleEndian.Uint64(kb[1:9])
			switch kb[9] {
			case 'v':
				vb.Vectors[id] = f32s(v)
				continue
			case 'q':
				vb.Codes[id] = v
				continue
			case 'e':
				e := make([]uint64, len(v)/8)
				for i := range e {
					e[i] = binary.LittleEndian.Uint64(v[8*i:])
				}
				vb.Edges[id] = e
				continue
			}
		}
		switch k {
		case "_binaryQuantizerThreshold":
			vb.Threshold = f32s(v)
		case "_productQuantizerFlatCentroids":
			vb.Centroids = f32s(v)
		case "_productQuantizerCentroidDists":
			vb.CDists = f32s(v)
		case "_vamanaMaxNodeId":
			if len(v) == 8 {
				x := binary.LittleEndian.Uint64(v)
				vb.MaxNodeId = &x
			}
		default:
			vb.Other = append(vb.Other, fmt.Sprintf("%x", kb))
		}
	}
	return vb
}

// VecInfo returns the vector bucket and oracle for a vector property of a live shard.
func (s *Shard) VecInfo(prop string) (*VecBucket, *model.VecOracle, error) {
	sv := s.Col.IndexSchema[prop]
	name := fmt.Sprintf("index/%s/%s", sv.Type, prop)
	d, err := s.Dump(name)
	if err != nil {
		return nil, nil, err
	}
	vb := ParseVecBucket(d[name])
	var dim int
	var metric string
	var q *models.Quantizer
	switch sv.Type {
	case models.IndexTypeVectorFlat:
		dim, metric, q = int(sv.VectorFlat.VectorSize), sv.VectorFlat.DistanceMetric, sv.VectorFlat.Quantizer
	case models.IndexTypeVectorVamana:
		dim, metric, q = int(sv.VectorVamana.VectorSize), sv.VectorVamana.DistanceMetric, sv.VectorVamana.Quantizer
	default:
		return nil, nil, fmt.Errorf("%s is not a vector property", prop)
	}
	o, err := model.NewVecOracle(metric, dim, q, vb.Threshold, vb.Centroids)
	return vb, o, err
}
