package drive

import (
	"fmt"

	"verif/vt"
)

// StrayVerdict turns recorded use-after-transaction accesses into either the
// catalogued defect D4 (accesses through a write transaction that was rolled
// back: pipeline stages of a failed batch outliving it) or an error.
func StrayVerdict(s *Shard) error {
	strays := s.Proxy.Strays()
	var other []Stray
	d4 := 0
	for _, st := range strays {
		if st.TxWrite && !st.TxOK {
			d4++
		} else {
			other = append(other, st)
		}
	}
	if d4 > 0 {
		vt.R().Known("D4", "bucket access after rollback of a failed write batch", "pipeline stages of a failed write batch keep using the rolled-back transaction")
		vt.R().Count("d4_stray_accesses", int64(d4))
	}
	if len(other) == 0 {
		return nil
	}
	return fmt.Errorf("%d storage accesses after the end of their transaction (first: %s on bucket %s, tx write=%v committed=%v)\n%s", len(other), other[0].Op, other[0].Bucket, other[0].TxWrite, other[0].TxOK, other[0].Stack)
}
