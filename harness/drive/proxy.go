// Package drive runs semadb shards for the harness: it opens shards, installs
// the storage proxy (fault injection, crash snapshots, use-after-transaction
// detector, scheduling hooks, event log) and converts between model values and
// the shard API.
package drive

import (
	"errors"
	"fmt"
	"io"
	"os"
	"runtime"
	"strings"
	"sync"
	"sync/atomic"

	"github.com/semafind/semadb/diskstore"
)

// ErrInjected is the error returned by injected storage faults.
var ErrInjected = errors.New("verif: injected storage fault")

// Stray is an access to a bucket after its transaction ended.
type Stray struct {
	Op      string
	Bucket  string
	TxSeq   int64
	TxWrite bool
	TxOK    bool // whether the transaction had committed (false: rolled back)
	Stack   string
}

// Event is an entry of the transaction timeline.
type Event struct {
	T     int64
	Kind  string // begin-read begin-write end-read commit rollback
	TxSeq int64
}

// Plan describes the fault / snapshot to apply to the next shard call.
type Plan struct {
	FailAt       int64  // fail the first failable operation whose index is >= FailAt (0 = none)
	FailCommit   bool   // make the write transaction fail after its callback succeeded
	SnapshotAt   int64  // copy the database file when the operation counter reaches this value (0 = none)
	SnapshotPath string // destination of the snapshot
	ops          atomic.Int64
	failed       atomic.Bool
	snapped      atomic.Bool
	FailedOp     string // which operation was failed (filled in by the proxy)
	SnapErr      error
}

// Ops returns the number of storage operations seen since the plan was armed.
func (p *Plan) Ops() int64 { return p.ops.Load() }

// Fired says whether the injected failure was delivered.
func (p *Plan) Fired() bool { return p.failed.Load() }

// Hooks let a scheduler block participants at chosen points.
type Hooks struct {
	TxBegin func(tx *ProxyTx)
	TxEnd   func(tx *ProxyTx, err error) // after the transaction ended (committed or rolled back), before control returns to the shard
	// TxBodyDone is called (never blocking) when the transaction's callback has returned, before the
	// storage engine ends the transaction
	TxBodyDone func(tx *ProxyTx)
	Op         func(tx *ProxyTx, kind string, n int64)
	// FailOp is consulted after Op for operations that can report an error (also in read transactions):
	// a non-nil error is returned by the operation instead of executing it
	FailOp func(tx *ProxyTx, kind string, n int64) error
	// Put is called before a Put is executed, with the bucket and the key (it may block: a place to hold
	// a write batch at a chosen write)
	Put func(tx *ProxyTx, bucket string, key []byte)
}

// Proxy wraps a DiskStore.
type Proxy struct {
	inner diskstore.DiskStore
	path  string

	mu     sync.Mutex
	strays []Stray
	events []Event
	clock  atomic.Int64
	txSeq  atomic.Int64
	plan   atomic.Pointer[Plan]
	hooks  atomic.Pointer[Hooks]
	// totals
	OpsTotal atomic.Int64
}

func NewProxy(inner diskstore.DiskStore, path string) *Proxy {
	return &Proxy{inner: inner, path: path}
}

func (p *Proxy) Inner() diskstore.DiskStore { return p.inner }

// Arm installs a plan for the following call(s); nil disarms.
func (p *Proxy) Arm(plan *Plan) { p.plan.Store(plan) }

func (p *Proxy) SetHooks(h *Hooks) { p.hooks.Store(h) }

// Strays returns and clears the recorded use-after-transaction accesses.
func (p *Proxy) Strays() []Stray {
	p.mu.Lock()
	defer p.mu.Unlock()
	s := p.strays
	p.strays = nil
	return s
}

func (p *Proxy) Events() []Event {
	p.mu.Lock()
	defer p.mu.Unlock()
	return append([]Event(nil), p.events...)
}

// Now returns a fresh logical timestamp.
func (p *Proxy) Now() int64 { return p.clock.Add(1) }

func (p *Proxy) logEvent(kind string, seq int64) int64 {
	t := p.clock.Add(1)
	p.mu.Lock()
	p.events = append(p.events, Event{T: t, Kind: kind, TxSeq: seq})
	p.mu.Unlock()
	return t
}

// ProxyTx is one storage transaction seen through the proxy.
type ProxyTx struct {
	p        *Proxy
	Seq      int64
	Write    bool
	Goid     int64
	PreT     int64 // logical time before the storage engine was asked to begin the transaction (its snapshot is taken between PreT and BeginT)
	BeginT   int64
	PreEndT  int64 // write transactions: logical time after the callback returned, before the engine commits (the commit becomes visible between PreEndT and EndT)
	EndT     int64
	bm       diskstore.BucketManager
	ended    atomic.Bool
	ok       atomic.Bool
	inflight atomic.Int64
	ops      atomic.Int64
}

func goid() int64 {
	var buf [64]byte
	n := runtime.Stack(buf[:], false)
	// "goroutine 123 [running]:"
	s := string(buf[:n])
	s = strings.TrimPrefix(s, "goroutine ")
	var id int64
	for i := 0; i < len(s) && s[i] >= '0' && s[i] <= '9'; i++ {
		id = id*10 + int64(s[i]-'0')
	}
	return id
}

// Goid exposes the current goroutine id (used by schedulers to name participants).
func Goid() int64 { return goid() }

func (p *Proxy) Path() string { return p.inner.Path() }

func (p *Proxy) begin(bm diskstore.BucketManager, write bool, pre int64) *ProxyTx {
	tx := &ProxyTx{p: p, Seq: p.txSeq.Add(1), Write: write, Goid: goid(), bm: bm, PreT: pre}
	kind := "begin-read"
	if write {
		kind = "begin-write"
	}
	tx.BeginT = p.logEvent(kind, tx.Seq)
	if h := p.hooks.Load(); h != nil && h.TxBegin != nil {
		h.TxBegin(tx)
	}
	return tx
}

// finish marks the transaction ended and waits for forwarded calls in flight.
func (tx *ProxyTx) finish() {
	tx.ended.Store(true)
	for tx.inflight.Load() > 0 {
		runtime.Gosched()
	}
}

func (p *Proxy) Read(f func(diskstore.BucketManager) error) error {
	var tx *ProxyTx
	pre := p.clock.Add(1)
	err := p.inner.Read(func(bm diskstore.BucketManager) error {
		tx = p.begin(bm, false, pre)
		err := f(tx)
		tx.ok.Store(true)
		tx.finish()
		if h := p.hooks.Load(); h != nil && h.TxBodyDone != nil {
			h.TxBodyDone(tx)
		}
		return err
	})
	if tx != nil {
		tx.EndT = p.logEvent("end-read", tx.Seq)
		if h := p.hooks.Load(); h != nil && h.TxEnd != nil {
			h.TxEnd(tx, err)
		}
	}
	return err
}

func (p *Proxy) Write(f func(diskstore.BucketManager) error) error {
	var tx *ProxyTx
	pre := p.clock.Add(1)
	err := p.inner.Write(func(bm diskstore.BucketManager) error {
		tx = p.begin(bm, true, pre)
		err := f(tx)
		if err == nil {
			if plan := p.plan.Load(); plan != nil && plan.FailCommit && !plan.failed.Swap(true) {
				plan.FailedOp = "commit"
				err = fmt.Errorf("commit: %w", ErrInjected)
			}
		}
		tx.ok.Store(err == nil)
		tx.finish()
		tx.PreEndT = p.clock.Add(1)
		return err
	})
	if tx != nil {
		if err == nil {
			tx.EndT = p.logEvent("commit", tx.Seq)
		} else {
			tx.ok.Store(false)
			tx.EndT = p.logEvent("rollback", tx.Seq)
		}
		if h := p.hooks.Load(); h != nil && h.TxEnd != nil {
			h.TxEnd(tx, err)
		}
	}
	return err
}

func (p *Proxy) BackupToFile(path string) error { return p.inner.BackupToFile(path) }
func (p *Proxy) SizeInBytes() (int64, error)    { return p.inner.SizeInBytes() }
func (p *Proxy) Close() error                   { return p.inner.Close() }

// enter registers a forwarded call; false means the transaction is over and the
// access was recorded instead of being forwarded.
func (tx *ProxyTx) enter(op, bucket string) bool {
	tx.inflight.Add(1)
	if tx.ended.Load() {
		tx.inflight.Add(-1)
		buf := make([]byte, 6000)
		n := runtime.Stack(buf, false)
		tx.p.mu.Lock()
		if len(tx.p.strays) < 200 {
			tx.p.strays = append(tx.p.strays, Stray{Op: op, Bucket: bucket, TxSeq: tx.Seq, TxWrite: tx.Write, TxOK: tx.ok.Load(), Stack: string(buf[:n])})
		}
		tx.p.mu.Unlock()
		return false
	}
	return true
}

func (tx *ProxyTx) leave() { tx.inflight.Add(-1) }

// step counts an operation against the armed plan; it returns an error if this
// operation is the one to fail (only for failable kinds).
func (tx *ProxyTx) step(kind string, bucket string, failable bool) error {
	p := tx.p
	p.OpsTotal.Add(1)
	n := tx.ops.Add(1)
	if h := p.hooks.Load(); h != nil && h.Op != nil {
		h.Op(tx, kind, n)
	}
	if h := p.hooks.Load(); h != nil && h.FailOp != nil && failable {
		if err := h.FailOp(tx, kind, n); err != nil {
			return err
		}
	}
	plan := p.plan.Load()
	if plan == nil {
		return nil
	}
	k := plan.ops.Add(1)
	if plan.SnapshotAt > 0 && k >= plan.SnapshotAt && !plan.snapped.Swap(true) {
		plan.SnapErr = CopyFile(p.path, plan.SnapshotPath)
	}
	if failable && tx.Write && plan.FailAt > 0 && k >= plan.FailAt && !plan.failed.Swap(true) {
		plan.FailedOp = fmt.Sprintf("%s %s (operation %d)", kind, bucket, k)
		return fmt.Errorf("%s %s: %w", kind, bucket, ErrInjected)
	}
	return nil
}

// Get implements diskstore.BucketManager.
func (tx *ProxyTx) Get(bucketName string) (diskstore.Bucket, error) {
	if !tx.enter("bm.Get", bucketName) {
		return nil, fmt.Errorf("verif: bucket manager used after its transaction ended")
	}
	defer tx.leave()
	if err := tx.step("bm.Get", bucketName, true); err != nil {
		return nil, err
	}
	b, err := tx.bm.Get(bucketName)
	if err != nil {
		return nil, err
	}
	return &ProxyBucket{tx: tx, name: bucketName, inner: b}, nil
}

func (tx *ProxyTx) Delete(bucketName string) error {
	if !tx.enter("bm.Delete", bucketName) {
		return fmt.Errorf("verif: bucket manager used after its transaction ended")
	}
	defer tx.leave()
	if err := tx.step("bm.Delete", bucketName, true); err != nil {
		return err
	}
	return tx.bm.Delete(bucketName)
}

// ProxyBucket wraps a bucket of a proxied transaction.
type ProxyBucket struct {
	tx    *ProxyTx
	name  string
	inner diskstore.Bucket
}

// Tx exposes the owning transaction (for schedulers / oracles).
func (b *ProxyBucket) Tx() *ProxyTx { return b.tx }

func (b *ProxyBucket) IsReadOnly() bool {
	if !b.tx.enter("IsReadOnly", b.name) {
		return true
	}
	defer b.tx.leave()
	return b.inner.IsReadOnly()
}

func (b *ProxyBucket) Get(k []byte) []byte {
	if !b.tx.enter("Get", b.name) {
		return nil
	}
	defer b.tx.leave()
	b.tx.step("Get", b.name, false)
	return b.inner.Get(k)
}

func (b *ProxyBucket) Put(k, v []byte) error {
	if !b.tx.enter("Put", b.name) {
		return fmt.Errorf("verif: Put on bucket %s after its transaction ended", b.name)
	}
	defer b.tx.leave()
	if h := b.tx.p.hooks.Load(); h != nil && h.Put != nil {
		h.Put(b.tx, b.name, k)
	}
	if err := b.tx.step("Put", b.name, true); err != nil {
		return err
	}
	return b.inner.Put(k, v)
}

func (b *ProxyBucket) Delete(k []byte) error {
	if !b.tx.enter("Delete", b.name) {
		return fmt.Errorf("verif: Delete on bucket %s after its transaction ended", b.name)
	}
	defer b.tx.leave()
	if err := b.tx.step("Delete", b.name, true); err != nil {
		return err
	}
	return b.inner.Delete(k)
}

func (b *ProxyBucket) ForEach(f func(k, v []byte) error) error {
	if !b.tx.enter("ForEach", b.name) {
		return fmt.Errorf("verif: ForEach on bucket %s after its transaction ended", b.name)
	}
	defer b.tx.leave()
	if err := b.tx.step("ForEach", b.name, true); err != nil {
		return err
	}
	return b.inner.ForEach(f)
}

func (b *ProxyBucket) PrefixScan(prefix []byte, f func(k, v []byte) error) error {
	if !b.tx.enter("PrefixScan", b.name) {
		return fmt.Errorf("verif: PrefixScan on bucket %s after its transaction ended", b.name)
	}
	defer b.tx.leave()
	if err := b.tx.step("PrefixScan", b.name, true); err != nil {
		return err
	}
	return b.inner.PrefixScan(prefix, f)
}

func (b *ProxyBucket) RangeScan(start, end []byte, inclusive bool, f func(k, v []byte) error) error {
	if !b.tx.enter("RangeScan", b.name) {
		return fmt.Errorf("verif: RangeScan on bucket %s after its transaction ended", b.name)
	}
	defer b.tx.leave()
	if err := b.tx.step("RangeScan", b.name, true); err != nil {
		return err
	}
	return b.inner.RangeScan(start, end, inclusive, f)
}

// CopyFile copies a file byte for byte.
func CopyFile(src, dst string) error {
	in, err := os.Open(src)
	if err != nil {
		return err
	}
	defer in.Close()
	out, err := os.Create(dst)
	if err != nil {
		return err
	}
	if _, err := io.Copy(out, in); err != nil {
		out.Close()
		return err
	}
	return out.Close()
}
