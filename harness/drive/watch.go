package drive

import (
	"fmt"
	"regexp"
	"runtime"
	"strings"
	"time"
)

var watchHeaderRe = regexp.MustCompile(`(?m)^goroutine (\d+) \[([^\],]+)(?:, [^\]]*)?\]:`)

// states in which a goroutine cannot proceed unless another goroutine acts
var watchBlocked = map[string]bool{
	"chan receive": true, "chan send": true, "select": true, "select (no cases)": true, "chan receive (nil chan)": true, "chan send (nil chan)": true,
	"sync.Mutex.Lock": true, "sync.RWMutex.Lock": true, "sync.RWMutex.RLock": true, "sync.WaitGroup.Wait": true, "sync.Cond.Wait": true, "semacquire": true,
	"GC worker (idle)": true, "GC sweep wait": true, "GC scavenge wait": true, "finalizer wait": true, "force gc (idle)": true, "GC assist wait": true,
}

var watchLockWait = map[string]bool{"sync.Mutex.Lock": true, "sync.RWMutex.Lock": true, "sync.RWMutex.RLock": true}

// Watch runs fn and returns nil when it returns. A call into the code under test
// that never returns would otherwise only show up as an exhausted time budget
// (inconclusive); Watch recognises the case that is certain: the goroutine of fn
// waits for a lock while no goroutine of the process can run any more (every
// goroutine is parked on a lock, channel or wait group, nothing sleeps, nothing
// is in a system call), observed on six consecutive samples half a second apart.
// Then nobody is left to release the lock: a deadlock, reported with the stacks
// of the lock waiters. Anything short of that keeps waiting.
func Watch(what string, fn func()) error {
	done := make(chan struct{})
	goidCh := make(chan int64, 1)
	go func() {
		goidCh <- Goid()
		defer close(done)
		fn()
	}()
	fnGoid := <-goidCh
	myGoid := Goid()
	select {
	case <-done:
		return nil
	case <-time.After(3 * time.Second):
	}
	buf := make([]byte, 16<<20)
	consecutive := 0
	lastDump := ""
	for {
		select {
		case <-done:
			return nil
		case <-time.After(500 * time.Millisecond):
		}
		dump := string(buf[:runtime.Stack(buf, true)])
		stuck := true
		fnWaits := false
		for _, block := range strings.Split(dump, "\n\n") {
			m := watchHeaderRe.FindStringSubmatch(block)
			if m == nil {
				continue
			}
			id, state := m[1], m[2]
			if id == fmt.Sprint(myGoid) {
				continue // the sampler itself
			}
			if strings.Contains(block, "os/signal.signal_recv") || strings.Contains(block, "runtime.ensureSigM") {
				continue // the runtime's signal loop
			}
			if id == fmt.Sprint(fnGoid) && watchLockWait[state] {
				fnWaits = true
			}
			// the caller of Watch waits for us in a select: that is this very wait, not progress
			if !watchBlocked[state] {
				stuck = false
				break
			}
		}
		if stuck && fnWaits {
			consecutive++
			lastDump = dump
		} else {
			consecutive = 0
		}
		if consecutive >= 6 {
			var waiters []string
			for _, block := range strings.Split(lastDump, "\n\n") {
				if m := watchHeaderRe.FindStringSubmatch(block); m != nil && watchLockWait[m[2]] {
					lines := strings.Split(block, "\n")
					if len(lines) > 14 {
						lines = lines[:14]
					}
					waiters = append(waiters, strings.Join(lines, "\n"))
				}
			}
			return fmt.Errorf("%s never returns: its goroutine waits for a lock and no goroutine of the process can run any more (deadlock); lock waiters:\n%s", what, strings.Join(waiters, "\n\n"))
		}
	}
}
