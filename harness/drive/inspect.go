package drive

import (
	"encoding/binary"
	"fmt"
	"sort"

	"github.com/google/uuid"
)

// PointsView is the decoded content of the points and internal buckets.
type PointsView struct {
	NodeToId   map[uint64]uuid.UUID
	IdToNode   map[uuid.UUID]uint64
	Data       map[uint64][]byte
	FreeIds    []uint64
	NextFree   uint64
	HasCounter bool
	PointCount uint64
	Other      []string // keys of unknown shape
}

// InspectPoints dumps and decodes the point store of a live shard.
func (s *Shard) InspectPoints() (*PointsView, error) {
	d, err := s.Dump("points", "internal")
	if err != nil {
		return nil, err
	}
	v := &PointsView{NodeToId: map[uint64]uuid.UUID{}, IdToNode: map[uuid.UUID]uint64{}, Data: map[uint64][]byte{}}
	for k, val := range d["points"] {
		kb := []byte(k)
		switch {
		case len(kb) == 10 && kb[0] == 'n' && kb[9] == 'i':
			id, err := uuid.FromBytes(val)
			if err != nil {
				return nil, fmt.Errorf("points: node key %x holds %x, not a uuid", kb, val)
			}
			v.NodeToId[binary.LittleEndian.Uint64(kb[1:9])] = id
		case len(kb) == 10 && kb[0] == 'n' && kb[9] == 'd':
			v.Data[binary.LittleEndian.Uint64(kb[1:9])] = val
		case len(kb) == 18 && kb[0] == 'p' && kb[17] == 'i':
			id, _ := uuid.FromBytes(kb[1:17])
			if len(val) != 8 {
				return nil, fmt.Errorf("points: point key of %s holds %x, not a node id", id, val)
			}
			v.IdToNode[id] = binary.LittleEndian.Uint64(val)
		default:
			v.Other = append(v.Other, fmt.Sprintf("%x", kb))
		}
	}
	in := d["internal"]
	if b, ok := in["pointCount"]; ok && len(b) == 8 {
		v.PointCount = binary.LittleEndian.Uint64(b)
	}
	if b, ok := in["nextFreeNodeId"]; ok && len(b) == 8 {
		v.NextFree = binary.LittleEndian.Uint64(b)
		v.HasCounter = true
	}
	if b, ok := in["freeNodeIds"]; ok {
		for i := 0; i+8 <= len(b); i += 8 {
			v.FreeIds = append(v.FreeIds, binary.LittleEndian.Uint64(b[i:]))
		}
	}
	sort.Slice(v.FreeIds, func(i, j int) bool { return v.FreeIds[i] < v.FreeIds[j] })
	return v, nil
}

// Check verifies the structural invariants of the point store against the set
// of ids that must be live (with whether each has a non-empty document).
func (v *PointsView) Check(live map[uuid.UUID]bool) error {
	if len(v.Other) > 0 {
		return fmt.Errorf("points bucket holds keys of unknown shape: %v", v.Other)
	}
	if len(v.IdToNode) != len(live) {
		return fmt.Errorf("points bucket maps %d uuids, %d points are live", len(v.IdToNode), len(live))
	}
	if len(v.NodeToId) != len(live) {
		return fmt.Errorf("points bucket maps %d node ids, %d points are live", len(v.NodeToId), len(live))
	}
	for id := range live {
		n, ok := v.IdToNode[id]
		if !ok {
			return fmt.Errorf("live point %s has no uuid→node entry", id)
		}
		if back, ok := v.NodeToId[n]; !ok || back != id {
			return fmt.Errorf("point %s maps to node %d which maps back to %v (present=%v)", id, n, back, ok)
		}
		if n < 2 {
			return fmt.Errorf("point %s uses reserved node id %d", id, n)
		}
	}
	for n := range v.Data {
		if _, ok := v.NodeToId[n]; !ok {
			return fmt.Errorf("document stored under node %d which belongs to no point", n)
		}
	}
	if uint64(len(live)) != v.PointCount {
		return fmt.Errorf("stored point counter is %d, %d points are live", v.PointCount, len(live))
	}
	seenFree := map[uint64]bool{}
	for _, f := range v.FreeIds {
		if _, ok := v.NodeToId[f]; ok {
			return fmt.Errorf("node id %d is live and on the free list", f)
		}
		if seenFree[f] {
			return fmt.Errorf("node id %d is on the free list twice", f)
		}
		seenFree[f] = true
		if v.HasCounter && f >= v.NextFree {
			return fmt.Errorf("free node id %d is not below the next fresh id %d", f, v.NextFree)
		}
	}
	if len(live) > 0 && !v.HasCounter {
		return fmt.Errorf("points are stored but no next-free-node-id counter was persisted")
	}
	for n := range v.NodeToId {
		if v.HasCounter && n >= v.NextFree {
			return fmt.Errorf("live node id %d is not below the next fresh id %d", n, v.NextFree)
		}
	}
	return nil
}
