package drive

import (
	"fmt"
	"os"
	"path/filepath"
	"runtime"
	"sync"
	"sync/atomic"
	"time"

	"github.com/semafind/semadb/shard/cache"
	"verif/vt"
)

var (
	envOnce sync.Once
	envDir  string
	envSeq  atomic.Int64
)

// CaseDir returns a fresh empty directory for one case (under a per-process
// scratch directory on tmpfs); the cleanup removes it.
func CaseDir() (string, func()) {
	envOnce.Do(func() {
		envDir, _ = vt.ScratchDir("shards")
	})
	d := filepath.Join(envDir, fmt.Sprintf("case-%d", envSeq.Add(1)))
	if err := os.MkdirAll(d, 0755); err != nil {
		panic(err)
	}
	return d, func() { os.RemoveAll(d) }
}

// Cleanup removes the per-process scratch directory (call from TestMain).
func Cleanup() {
	if envDir != "" {
		os.RemoveAll(envDir)
	}
}

// Manager builds a cache manager for a generated cache limit: 0 = caching
// disabled (nil manager, as semadb does), -1 = unlimited, >0 = byte limit.
func Manager(limit int64) *cache.Manager {
	if limit == 0 {
		return nil
	}
	return cache.NewManager(limit)
}

// Quiesce waits (bounded) until the number of goroutines is back at or below
// the given baseline. It is used after a failed write batch, whose pipeline
// stages may still be winding down (catalogued defect D4); the result is only
// used to reduce interference, never as an oracle.
func Quiesce(baseline int) bool {
	for i := 0; i < 2000; i++ {
		if runtime.NumGoroutine() <= baseline {
			return true
		}
		time.Sleep(time.Millisecond)
	}
	return false
}
