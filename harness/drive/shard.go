package drive

import (
	"encoding/json"
	"fmt"
	"io"
	"sort"

	"github.com/google/uuid"
	"github.com/rs/zerolog"
	"github.com/semafind/semadb/conversion"
	"github.com/semafind/semadb/diskstore"
	"github.com/semafind/semadb/models"
	"github.com/semafind/semadb/shard"
	"github.com/semafind/semadb/shard/cache"
	"verif/model"
)

func init() {
	// semadb logs through zerolog's global logger; keep the harness output readable
	zerolog.SetGlobalLevel(zerolog.FatalLevel) // a fatal log call exits the process: its message must be visible
	_ = io.Discard
}

// Shard is an open semadb shard with the storage proxy installed.
type Shard struct {
	S     *shard.Shard
	Path  string
	Col   models.Collection // with the schema as the harness names it
	Mgr   *cache.Manager
	Proxy *Proxy
	// names: harness property name -> the name the shard really runs with (OpenNamed). Translated on the
	// way in (schema, documents, queries, select, sort, bucket names) and back on the way out (documents).
	names, back map[string]string
}

func (s *Shard) real(p string) string {
	if n, ok := s.names[p]; ok {
		return n
	}
	return p
}

func renameKeys(d map[string]any, m map[string]string) map[string]any {
	if len(m) == 0 || d == nil {
		return d
	}
	out := make(map[string]any, len(d))
	for k, v := range d {
		if n, ok := m[k]; ok {
			out[n] = v
		} else {
			out[k] = v
		}
	}
	return out
}

func (s *Shard) realQuery(q models.Query) models.Query {
	q.Property = s.real(q.Property)
	sub := func(f *models.Query) *models.Query {
		if f == nil {
			return nil
		}
		g := s.realQuery(*f)
		return &g
	}
	if q.VectorFlat != nil {
		o := *q.VectorFlat
		o.Filter = sub(o.Filter)
		q.VectorFlat = &o
	}
	if q.VectorVamana != nil {
		o := *q.VectorVamana
		o.Filter = sub(o.Filter)
		q.VectorVamana = &o
	}
	if q.Text != nil {
		o := *q.Text
		o.Filter = sub(o.Filter)
		q.Text = &o
	}
	for i := range q.And {
		q.And[i] = s.realQuery(q.And[i])
	}
	for i := range q.Or {
		q.Or[i] = s.realQuery(q.Or[i])
	}
	return q
}

// realBucket translates "index/<type>/<property>".
func (s *Shard) realBucket(name string) string {
	if len(s.names) == 0 {
		return name
	}
	for prop, sv := range s.Col.IndexSchema {
		if name == fmt.Sprintf("index/%s/%s", sv.Type, prop) {
			return fmt.Sprintf("index/%s/%s", sv.Type, s.real(prop))
		}
	}
	return name
}

// Open opens (creating if needed) the shard database at path ("" = in-memory
// backend). mgr nil means "cache disabled" exactly as in semadb.
func Open(path string, schema models.IndexSchema, maxPointSize int, mgr *cache.Manager) (*Shard, error) {
	return OpenNamed(path, schema, maxPointSize, mgr, nil)
}

// OpenNamed is Open for a shard that really runs under other property names than the harness uses:
// names maps a (top-level, undotted) property of schema to the name given to semadb. Everything the
// harness sees keeps its own names.
func OpenNamed(path string, schema models.IndexSchema, maxPointSize int, mgr *cache.Manager, names map[string]string) (*Shard, error) {
	col := models.Collection{
		UserId: "verif", Id: "col", Replicas: 1,
		UserPlan:    models.UserPlan{Name: "verif", MaxCollections: 10, MaxCollectionPointCount: 1 << 40, MaxPointSize: maxPointSize},
		IndexSchema: schema,
	}
	realCol := col
	back := map[string]string{}
	if len(names) > 0 {
		realCol.IndexSchema = models.IndexSchema{}
		for p, sv := range schema {
			n := p
			if r, ok := names[p]; ok {
				n = r
				back[r] = p
			}
			realCol.IndexSchema[n] = sv
		}
		if len(realCol.IndexSchema) != len(schema) {
			return nil, fmt.Errorf("renaming %v makes two properties of the schema collide", names)
		}
	}
	s, err := shard.NewShard(path, realCol, mgr)
	if err != nil {
		return nil, err
	}
	p := NewProxy(s.VerifDB(), path)
	s.VerifSetDB(p)
	return &Shard{S: s, Path: path, Col: col, Mgr: mgr, Proxy: p, names: names, back: back}, nil
}

// Names returns the renaming the shard was opened with.
func (s *Shard) Names() map[string]string { return s.names }

// CacheNames lists the shared-cache names this shard may create.
func (s *Shard) CacheNames() []string {
	var names []string
	for prop, sv := range s.Col.IndexSchema {
		names = append(names, fmt.Sprintf("%s/index/%s/%s", s.Path, sv.Type, s.real(prop)))
	}
	sort.Strings(names)
	return names
}

// EvictCaches releases every shared cache of this shard from its manager.
func (s *Shard) EvictCaches() {
	if s.Mgr == nil {
		return
	}
	for _, n := range s.CacheNames() {
		s.Mgr.Release(n)
	}
}

// Close closes the shard and evicts its caches (Shard.Close releases the wrong
// name, see DESIGN.md §2.5).
func (s *Shard) Close() error {
	err := s.S.Close()
	s.EvictCaches()
	return err
}

func ToPoints(ps []model.Point) []models.Point {
	out := make([]models.Point, len(ps))
	for i, p := range ps {
		out[i] = models.Point{Id: p.Id, Data: model.Encode(p.Doc)}
	}
	return out
}

func (s *Shard) toPoints(ps []model.Point) []models.Point {
	if len(s.names) == 0 {
		return ToPoints(ps)
	}
	out := make([]models.Point, len(ps))
	for i, p := range ps {
		out[i] = models.Point{Id: p.Id, Data: model.Encode(model.Doc(renameKeys(map[string]any(p.Doc), s.names)))}
	}
	return out
}

func (s *Shard) Insert(ps []model.Point) error { return s.S.InsertPoints(s.toPoints(ps)) }

func (s *Shard) Update(ps []model.Point) ([]uuid.UUID, error) {
	return s.S.UpdatePoints(s.toPoints(ps))
}

func (s *Shard) Delete(ids []uuid.UUID) ([]uuid.UUID, error) {
	set := make(map[uuid.UUID]struct{}, len(ids))
	for _, id := range ids {
		set[id] = struct{}{}
	}
	return s.S.DeletePoints(set)
}

// Row is one search result in harness form.
type Row struct {
	Id       uuid.UUID
	NodeId   uint64
	Doc      map[string]any // decoded document or selected fields; nil when nothing was selected
	HasDoc   bool
	Distance *float32
	Score    *float32
	Hybrid   float32
}

// CopyRequest deep-copies a search request (semadb mutates query arrays in place).
func CopyRequest(r models.SearchRequest) models.SearchRequest {
	b, err := json.Marshal(r)
	if err != nil {
		panic(err)
	}
	var c models.SearchRequest
	if err := json.Unmarshal(b, &c); err != nil {
		panic(err)
	}
	return c
}

// Search runs a search on a private copy of the request and decodes the rows.
func (s *Shard) Search(req models.SearchRequest) ([]Row, error) {
	req = CopyRequest(req)
	if len(s.names) > 0 {
		req.Query = s.realQuery(req.Query)
		for i := range req.Select {
			req.Select[i] = s.real(req.Select[i])
		}
		for i := range req.Sort {
			req.Sort[i].Property = s.real(req.Sort[i].Property)
		}
	}
	res, err := s.S.SearchPoints(req)
	if err != nil {
		return nil, err
	}
	rows := make([]Row, len(res))
	for i, r := range res {
		row := Row{Id: r.Point.Id, NodeId: r.NodeId, Distance: r.Distance, Score: r.Score, Hybrid: r.HybridScore}
		if r.DecodedData != nil {
			row.Doc = map[string]any(r.DecodedData)
			row.HasDoc = true
		} else if len(r.Point.Data) > 0 {
			d, err := model.Decode(r.Point.Data)
			if err != nil {
				return nil, fmt.Errorf("row %d: undecodable document: %w", i, err)
			}
			row.Doc = d
			row.HasDoc = true
		}
		row.Doc = renameKeys(row.Doc, s.back)
		rows[i] = row
	}
	return rows, nil
}

func RowIds(rows []Row) model.IdSet {
	s := model.IdSet{}
	for _, r := range rows {
		s.Add(r.Id)
	}
	return s
}

// Dump reads every key/value of the named buckets in one read transaction,
// bypassing the proxy's bookkeeping.
func (s *Shard) Dump(buckets ...string) (map[string]map[string][]byte, error) {
	out := map[string]map[string][]byte{}
	err := s.Proxy.Inner().Read(func(bm diskstore.BucketManager) error {
		for _, name := range buckets {
			b, err := bm.Get(s.realBucket(name))
			if err != nil {
				return err
			}
			m := map[string][]byte{}
			if err := b.ForEach(func(k, v []byte) error {
				m[string(k)] = append([]byte(nil), v...)
				return nil
			}); err != nil {
				return err
			}
			out[name] = m
		}
		return nil
	})
	return out, err
}

// BucketNames returns the buckets a shard with this schema uses.
func BucketNames(schema models.IndexSchema) []string {
	names := []string{"points", "internal"}
	for prop, sv := range schema {
		names = append(names, fmt.Sprintf("index/%s/%s", sv.Type, prop))
	}
	sort.Strings(names)
	return names
}

// PointCount returns Info().PointCount.
func (s *Shard) PointCount() (uint64, error) {
	si, err := s.S.Info()
	return si.PointCount, err
}

// PresetNextNodeId writes the shard's next fresh node id, as if that many ids had been handed out and
// freed again by earlier histories (the free list is left empty, which the allocator allows: ids are
// only freed by deletions and may be consumed in any number).
func (s *Shard) PresetNextNodeId(next uint64) error {
	return s.Proxy.Inner().Write(func(bm diskstore.BucketManager) error {
		b, err := bm.Get(shard.INTERNALBUCKETNAME)
		if err != nil {
			return err
		}
		return b.Put(shard.NEXTFREENODEIDKEY, conversion.Uint64ToBytes(next))
	})
}
