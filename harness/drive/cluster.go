package drive

import (
	"fmt"
	"net"
	"os"
	"path/filepath"
	"runtime"
	"strings"
	"sync"
	"sync/atomic"
	"time"

	"github.com/semafind/semadb/cluster"
	"github.com/semafind/semadb/cluster/mrpc"
	"github.com/semafind/semadb/models"
)

// NodeSpec describes one in-process cluster node.
type NodeSpec struct {
	Host string // e.g. 127.0.1.3
	Port int
}

func (n NodeSpec) Name() string { return fmt.Sprintf("%s:%d", n.Host, n.Port) }

var portSeq atomic.Int64

// FreePort finds a TCP port that can currently be bound on host.
func FreePort(host string) int {
	for i := 0; i < 2000; i++ {
		p := 20000 + int((int64(os.Getpid())*131+portSeq.Add(1)*17)%40000)
		l, err := net.Listen("tcp", fmt.Sprintf("%s:%d", host, p))
		if err == nil {
			l.Close()
			return p
		}
	}
	panic("no free port")
}

// ClusterOpts configures NewClusterNode.
type ClusterOpts struct {
	// ShardSubdir, if set, makes the shard manager keep its files in that sub-directory of the node root
	// instead of the node root itself (the two directories are separate settings of a node)
	ShardSubdir string
	// RelativeDirs hands the node its directories as paths relative to the working directory, as the
	// shipped configurations do ("./data")
	RelativeDirs       bool
	MaxShardSize       int64
	MaxShardPointCount int64
	MaxSearchLimit     int
	RpcTimeout         int
	RpcRetries         int
	// ZeroRetries configures rpcRetries: 0 (what a configuration file that omits the key gets)
	ZeroRetries  bool
	ShardTimeout int
	MaxCacheSize int64
}

// NewClusterNode creates (and, when serve is set, starts the RPC server of) a
// cluster node with its own root directory.
func NewClusterNode(root string, me NodeSpec, servers []string, o ClusterOpts, serve bool) (*cluster.ClusterNode, error) {
	if err := os.MkdirAll(root, 0755); err != nil {
		return nil, err
	}
	if o.MaxShardSize == 0 {
		o.MaxShardSize = 1 << 30
	}
	if o.MaxShardPointCount == 0 {
		o.MaxShardPointCount = 250000
	}
	if o.MaxSearchLimit == 0 {
		o.MaxSearchLimit = 75
	}
	if o.RpcTimeout == 0 {
		o.RpcTimeout = 5
	}
	if o.RpcRetries == 0 && !o.ZeroRetries {
		o.RpcRetries = 1
	}
	if o.ShardTimeout == 0 {
		o.ShardTimeout = 2
	}
	if o.MaxCacheSize == 0 {
		o.MaxCacheSize = -1
	}
	if o.RelativeDirs {
		if wd, err := os.Getwd(); err == nil {
			if rel, err := filepath.Rel(wd, root); err == nil {
				root = rel
			}
		}
	}
	c, err := cluster.NewNode(cluster.ClusterNodeConfig{
		RootDir: root, RpcHost: me.Host, RpcPort: me.Port, RpcTimeout: o.RpcTimeout, RpcRetries: o.RpcRetries,
		Servers:            servers,
		ShardManager:       cluster.ShardManagerConfig{RootDir: filepath.Join(root, o.ShardSubdir), ShardTimeout: o.ShardTimeout, MaxCacheSize: o.MaxCacheSize},
		MaxShardSize:       o.MaxShardSize,
		MaxShardPointCount: o.MaxShardPointCount,
		MaxSearchLimit:     o.MaxSearchLimit,
	})
	if err != nil {
		return nil, err
	}
	if serve {
		trackServerConns()
		if err := c.Serve(); err != nil {
			return nil, err
		}
		// Serve binds the RPC port in a goroutine of its own. Wait until the port accepts connections:
		// only then does a later Close release the port synchronously (a node closed before its
		// listener exists binds and releases the port some time after Close returned, and a node
		// restarted on that address meanwhile dies in log.Fatal with "address already in use")
		// (an answered request, not just a successful dial: the port accepts connections as soon as it is
		// bound, a moment before the server has registered the listener it would close on shutdown)
		deadline := time.Now().Add(30 * time.Second)
		for {
			err := func() error {
				conn, err := net.DialTimeout("tcp", me.Name(), time.Second)
				if err != nil {
					return err
				}
				defer conn.Close()
				conn.SetDeadline(time.Now().Add(2 * time.Second))
				if _, err := conn.Write([]byte("GET /verif-ready HTTP/1.0\r\n\r\n")); err != nil {
					return err
				}
				buf := make([]byte, 16)
				if _, err := conn.Read(buf); err != nil {
					return err
				}
				return nil
			}()
			if err == nil {
				break
			}
			if time.Now().After(deadline) {
				return nil, fmt.Errorf("node %s does not answer: %v", me.Name(), err)
			}
			time.Sleep(200 * time.Microsecond)
		}
	}
	return c, nil
}

// ShardFile returns the path of a shard database below a node root.
func ShardFile(root, userId, colId, shardId string) string {
	return filepath.Join(root, cluster.USERCOLSDIR, userId, colId, shardId, "sharddb.bbolt")
}

// UserPlan returns a user plan with the given quotas.
func UserPlan(maxCollections int, maxPoints int64, maxPointSize int) models.UserPlan {
	return models.UserPlan{Name: "verif", MaxCollections: maxCollections, MaxCollectionPointCount: maxPoints, MaxPointSize: maxPointSize}
}

// LoopbackHost returns a loopback address for node k that is private to this
// process (127.a.b.k with a.b derived from the process id), so that test
// processes running side by side never bind or dial each other's addresses.
func LoopbackHost(k int) string {
	pid := os.Getpid()
	return fmt.Sprintf("127.%d.%d.%d", 1+pid%250, 1+(pid/250)%250, k)
}

// ---------------------------------------------------------------------------
// in-process node restarts: a real node stops by process exit, which drops every
// connection its RPC server had taken over. net/http's Shutdown leaves hijacked
// connections alone, so the harness records them (hook mrpc.VerifConnFn) and
// closes them when it stops a node.

var (
	serverConnMu sync.Mutex
	serverConns  = map[string][]net.Conn{}
	connHookOnce sync.Once
)

func trackServerConns() {
	connHookOnce.Do(func() {
		fn := func(addr string, c net.Conn) {
			serverConnMu.Lock()
			serverConns[addr] = append(serverConns[addr], c)
			serverConnMu.Unlock()
		}
		mrpc.VerifConnFn.Store(&fn)
	})
}

// StopClusterNode stops a node the way a process exit would: loaded shards are
// closed, the node is closed and every connection its RPC server had accepted
// is dropped.
func StopClusterNode(c *cluster.ClusterNode, me NodeSpec) error {
	c.VerifShardManager().VerifUnloadAll()
	err := c.Close()
	serverConnMu.Lock()
	conns := serverConns[me.Name()]
	delete(serverConns, me.Name())
	serverConnMu.Unlock()
	before := rpcClientReaders()
	for _, cn := range conns {
		cn.Close()
	}
	// The other nodes of this process hold RPC clients on these connections. A client learns of the loss
	// when its reader goroutine sees the end of the stream; until then a call on it is sent into the void
	// and fails with "unexpected EOF" instead of taking the reconnect path. A dead process gives its peers
	// the same moment of uncertainty; the harness waits it out so that what follows is determined: every
	// such reader has ended (or two seconds have passed).
	// (some of the recorded connections may have been given up by their client earlier, so the count need
	// not drop by len(conns): it also counts as settled when it has not moved for 4 ms)
	last, lastChange := rpcClientReaders(), time.Now()
	for deadline := time.Now().Add(2 * time.Second); last > before-len(conns) && time.Now().Before(deadline) && len(conns) > 0 && time.Since(lastChange) < 4*time.Millisecond; {
		time.Sleep(200 * time.Microsecond)
		if n := rpcClientReaders(); n != last {
			last, lastChange = n, time.Now()
		}
	}
	// the address must be free again before a node is restarted on it (the next node dies in log.Fatal
	// otherwise): wait until it can be bound
	deadline := time.Now().Add(10 * time.Second)
	for {
		l, lerr := net.Listen("tcp", me.Name())
		if lerr == nil {
			l.Close()
			break
		}
		if time.Now().After(deadline) {
			return fmt.Errorf("address %s is still in use after the node was closed: %v", me.Name(), lerr)
		}
		time.Sleep(time.Millisecond)
	}
	return err
}

// rpcClientReaders counts the reader goroutines of net/rpc clients in this process.
func rpcClientReaders() int {
	buf := make([]byte, 1<<20)
	n := runtime.Stack(buf, true)
	for n == len(buf) {
		buf = make([]byte, 2*len(buf))
		n = runtime.Stack(buf, true)
	}
	return strings.Count(string(buf[:n]), "net/rpc.(*Client).input(")
}

// DropServerConns closes every connection the RPC server of a (still running) node has taken over, as a
// network reset between the nodes would; the node itself keeps running.
func DropServerConns(me NodeSpec) {
	serverConnMu.Lock()
	conns := serverConns[me.Name()]
	delete(serverConns, me.Name())
	serverConnMu.Unlock()
	before := rpcClientReaders()
	for _, cn := range conns {
		cn.Close()
	}
	last, lastChange := rpcClientReaders(), time.Now()
	for deadline := time.Now().Add(2 * time.Second); last > before-len(conns) && time.Now().Before(deadline) && len(conns) > 0 && time.Since(lastChange) < 4*time.Millisecond; {
		time.Sleep(200 * time.Microsecond)
		if n := rpcClientReaders(); n != last {
			last, lastChange = n, time.Now()
		}
	}
}

// HangServer makes the RPC server at the given address stop answering: every request it reads from now on
// is held before it is executed. The returned function ends the hanging for new requests; the requests
// already held stay held until release is closed (the caller drops the server's connections first, so that
// they are never executed against a state that has been judged meanwhile).
func HangServer(me NodeSpec, release <-chan struct{}) (stop func()) {
	var active atomic.Bool
	active.Store(true)
	addr := me.Name()
	fn := func(serverAddr, method string) {
		if serverAddr == addr && active.Load() {
			<-release
		}
	}
	mrpc.VerifRequestFn.Store(&fn)
	return func() {
		active.Store(false)
		mrpc.VerifRequestFn.Store(nil)
	}
}
