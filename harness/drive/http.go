package drive

import (
	"bytes"
	"encoding/json"
	"net/http"
	"net/http/httptest"

	"github.com/semafind/semadb/cluster"
	"github.com/semafind/semadb/httpapi"
	"github.com/semafind/semadb/models"
)

// Router builds the full in-process HTTP stack (middleware + v1 + v2 handlers)
// over a cluster node.
func Router(node *cluster.ClusterNode, plans map[string]models.UserPlan) http.Handler {
	return httpapi.VerifSetupRouter(node, httpapi.HttpApiConfig{UserPlans: plans, WhiteListIPs: []string{"*"}})
}

// SecuredRouter is Router for a deployment behind a proxy: requests must carry the proxy secret.
func SecuredRouter(node *cluster.ClusterNode, plans map[string]models.UserPlan, proxySecret string) http.Handler {
	return httpapi.VerifSetupRouter(node, httpapi.HttpApiConfig{UserPlans: plans, WhiteListIPs: []string{"*"}, ProxySecret: proxySecret})
}

// Response of an in-process HTTP call.
type Response struct {
	Status int
	Body   []byte
	JSON   map[string]any
}

// Call performs one request in-process. body may be nil, a string / []byte
// (sent verbatim) or any JSON-serialisable value.
func Call(h http.Handler, method, path string, headers map[string]string, body any) Response {
	var rdr *bytes.Reader
	switch b := body.(type) {
	case nil:
		rdr = bytes.NewReader(nil)
	case string:
		rdr = bytes.NewReader([]byte(b))
	case []byte:
		rdr = bytes.NewReader(b)
	default:
		j, err := json.Marshal(b)
		if err != nil {
			panic(err)
		}
		rdr = bytes.NewReader(j)
	}
	req := httptest.NewRequest(method, path, rdr)
	for k, v := range headers {
		req.Header[http.CanonicalHeaderKey(k)] = []string{v}
	}
	rec := httptest.NewRecorder()
	h.ServeHTTP(rec, req)
	r := Response{Status: rec.Code, Body: rec.Body.Bytes()}
	var m map[string]any
	if json.Unmarshal(r.Body, &m) == nil {
		r.JSON = m
	}
	return r
}

// JSONHeaders returns the usual headers of an authenticated JSON request.
func JSONHeaders(user, plan string) map[string]string {
	return map[string]string{"Content-Type": "application/json", "X-User-Id": user, "X-Plan-Id": plan}
}
