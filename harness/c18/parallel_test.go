package c18

import (
	"fmt"
	"net/http"
	"path/filepath"
	"strings"
	"sync"
	"sync/atomic"
	"testing"

	"github.com/prometheus/client_golang/prometheus"
	"github.com/semafind/semadb/cluster"
	"github.com/semafind/semadb/httpapi"
	"github.com/semafind/semadb/models"
	"pgregory.net/rapid"
	"verif/drive"
	"verif/vt"
)

// Requests that arrive at the same time. The other jobs send one request after the other; a server
// handles many at once, and everything the middleware stack and the handlers share between requests
// (metrics, logging, plan table, the node's collection database, the shard manager) is then used from
// several goroutines. Here 2-6 tenants send their request sequences side by side through one router that
// is built as a deployment with metrics enabled builds it. Every tenant works on collections of its own
// (concurrent searches on ONE shard are C09's subject and carry its known finding), so each tenant's
// sequence has a definite expected outcome: the status class of every answer is judged against a small
// per-tenant model, no answer may be 5xx, and the process must survive (a fatal runtime error such as
// "concurrent map writes" ends the worker; the driver reports it with the journalled case). The job's
// binary is built with the race detector: an unsynchronised access that happens not to be fatal this time
// is reported as well.

type ParReq struct {
	Kind  string `json:"kind"`  // create | list | get | insert | update | search | delpoints | delcol | ping | unknown | v1create | v1insert | v1search
	Col   int    `json:"col"`   // which of the tenant's collection names
	Arg   int    `json:"arg"`   // point number / limit
	Bad   bool   `json:"bad"`   // the body violates the schema (wrong vector length)
	Noise string `json:"noise"` // path of an unknown route
}

type ParCase struct {
	Workers [][]ParReq `json:"workers"`
}

var parKinds = []string{"create", "create", "list", "get", "insert", "insert", "update", "search", "search", "delpoints", "delcol", "ping", "unknown", "v1create", "v1insert", "v1search"}

func genParCase(t *rapid.T) ParCase {
	nw := rapid.IntRange(2, 6).Draw(t, "workers")
	c := ParCase{}
	for w := 0; w < nw; w++ {
		n := rapid.IntRange(3, 14).Draw(t, fmt.Sprintf("n%d", w))
		var reqs []ParReq
		for i := 0; i < n; i++ {
			l := fmt.Sprintf("w%d.%d", w, i)
			r := ParReq{Kind: rapid.SampledFrom(parKinds).Draw(t, l+"kind"), Col: rapid.IntRange(0, 2).Draw(t, l+"col"), Arg: rapid.IntRange(0, 5).Draw(t, l+"arg"),
				Bad: rapid.IntRange(0, 5).Draw(t, l+"bad") == 0}
			if r.Kind == "unknown" {
				r.Noise = rapid.StringMatching(`[a-z]{1,6}(/[a-z0-9]{1,8}){0,3}`).Draw(t, l+"noise")
				if rapid.IntRange(0, 3).Draw(t, l+"rawbytes") == 0 {
					// percent-encoded bytes that are no UTF-8 (the path ends up in log lines and metric labels)
					r.Noise = rapid.SampledFrom([]string{"collections/%ff%fe%fd", "%c3%28", "collections/abc/%80", "ping/%f0%28%8c%bc"}).Draw(t, l+"rawpath")
				}
			}
			reqs = append(reqs, r)
		}
		c.Workers = append(c.Workers, reqs)
	}
	return c
}

var (
	parOnce    sync.Once
	parHandler http.Handler
	parNode    *cluster.ClusterNode
	parErr     error
	parCaseNo  atomic.Int64
)

func parPointId(col, k int) string {
	return fmt.Sprintf("00000000-0000-4000-8000-0000000%d%04d", col, k)
}

type parTenant struct {
	user  string
	cols  map[string]string // collection -> "v1" | "v2"
	pts   map[string]map[string]bool
	fails []string
}

func (p *parTenant) run(h http.Handler, reqs []ParReq) {
	hd := drive.JSONHeaders(p.user, plan)
	for i, r := range reqs {
		name := fmt.Sprintf("col%d", r.Col)
		kindOfCol, exists := p.cols[name]
		var resp drive.Response
		want := 0 // expected status class: 2, 4, or 0 for "2xx or 4xx"
		vec := []float32{float32(r.Arg), 1}
		if r.Bad {
			vec = []float32{1, 2, 3}
		}
		switch r.Kind {
		case "create":
			resp = drive.Call(h, "POST", "/v2/collections", hd, map[string]any{"id": name, "indexSchema": map[string]any{
				"v": map[string]any{"type": "vectorFlat", "vectorFlat": map[string]any{"vectorSize": 2, "distanceMetric": "euclidean"}},
				"g": map[string]any{"type": "vectorVamana", "vectorVamana": map[string]any{"vectorSize": 2, "distanceMetric": "euclidean", "searchSize": 75, "degreeBound": 64, "alpha": 1.2}},
				"s": map[string]any{"type": "string", "string": map[string]any{"caseSensitive": false}},
				"t": map[string]any{"type": "text", "text": map[string]any{"analyser": "standard"}}}})
			want = 4
			if !exists && len(p.cols) < 3 {
				want = 2
				p.cols[name], p.pts[name] = "v2", map[string]bool{}
			}
		case "v1create":
			resp = drive.Call(h, "POST", "/v1/collections", hd, map[string]any{"id": name, "vectorSize": 2, "distanceMetric": "euclidean"})
			want = 4
			if !exists && len(p.cols) < 3 {
				want = 2
				p.cols[name], p.pts[name] = "v1", map[string]bool{}
			}
		case "list":
			resp, want = drive.Call(h, "GET", "/v2/collections", hd, nil), 2
		case "get":
			resp, want = drive.Call(h, "GET", "/v2/collections/"+name, hd, nil), 4
			if exists {
				want = 2
			}
		case "insert":
			id := parPointId(r.Col, r.Arg)
			resp = drive.Call(h, "POST", "/v2/collections/"+name+"/points", hd, map[string]any{"points": []map[string]any{{"_id": id, "v": vec, "g": vec, "s": "Word", "t": "a summer dress"}}})
			want = 4
			if exists && kindOfCol == "v1" {
				want = 0 // the fields are not indexed there: stored as they are, or refused
			} else if exists && !r.Bad {
				want = 0
				if kindOfCol == "v2" {
					want = 2
					if !p.pts[name][id] && strings.Contains(string(resp.Body), `"success"`) {
						p.pts[name][id] = true
					}
				}
			}
		case "v1insert":
			id := parPointId(r.Col, r.Arg)
			resp = drive.Call(h, "POST", "/v1/collections/"+name+"/points", hd, map[string]any{"points": []map[string]any{{"id": id, "vector": vec, "metadata": "m"}}})
			want = 4
			if exists && !r.Bad && kindOfCol == "v1" {
				want = 2
				p.pts[name][id] = true
			}
		case "update":
			id := parPointId(r.Col, r.Arg)
			resp = drive.Call(h, "PUT", "/v2/collections/"+name+"/points", hd, map[string]any{"points": []map[string]any{{"_id": id, "v": vec, "s": "Other"}}})
			want = 4
			if exists && kindOfCol == "v1" {
				want = 0
			} else if exists && !r.Bad {
				want = 2
			}
		case "search":
			q := map[string]any{"property": "v", "vectorFlat": map[string]any{"vector": vec, "operator": "near", "limit": r.Arg + 1}}
			if r.Arg%2 == 1 {
				q = map[string]any{"property": "g", "vectorVamana": map[string]any{"vector": vec, "operator": "near", "searchSize": 75, "limit": r.Arg + 1}}
			}
			resp = drive.Call(h, "POST", "/v2/collections/"+name+"/points/search", hd, map[string]any{"query": q, "limit": 10})
			want = 4
			if exists && !r.Bad && kindOfCol == "v2" {
				want = 2
			}
		case "v1search":
			resp = drive.Call(h, "POST", "/v1/collections/"+name+"/points/search", hd, map[string]any{"vector": vec, "limit": r.Arg + 1})
			want = 4
			if exists && !r.Bad && kindOfCol == "v1" {
				want = 2
			}
		case "delpoints":
			resp = drive.Call(h, "DELETE", "/v2/collections/"+name+"/points", hd, map[string]any{"ids": []string{parPointId(r.Col, r.Arg)}})
			want = 4
			if exists {
				want = 2
				delete(p.pts[name], parPointId(r.Col, r.Arg))
			}
		case "delcol":
			resp = drive.Call(h, "DELETE", "/v2/collections/"+name, hd, nil)
			want = 4
			if exists {
				want = 2
				delete(p.cols, name)
				delete(p.pts, name)
			}
		case "ping":
			resp, want = drive.Call(h, "GET", "/v2/ping", hd, nil), 2
		default:
			resp, want = drive.Call(h, "GET", "/v2/"+r.Noise, hd, nil), 4
		}
		class := resp.Status / 100
		if class == 5 || (want != 0 && class != want) || (want == 0 && class != 2 && class != 4) {
			p.fails = append(p.fails, fmt.Sprintf("tenant %s, request %d (%s %s, bad body: %v): answered %d %.200s, expected %dxx", p.user, i, r.Kind, name, r.Bad, resp.Status, resp.Body, want))
		}
	}
}

func execParCase(c ParCase) (res vt.Result) {
	rec := vt.R()
	parOnce.Do(func() {
		dir, cleanup := drive.CaseDir()
		vt.OnExit(cleanup)
		me := drive.NodeSpec{Host: "127.0.1.1", Port: 1}
		parNode, parErr = drive.NewClusterNode(filepath.Join(dir, "node"), me, []string{me.Name()}, drive.ClusterOpts{ShardTimeout: 5, MaxShardPointCount: 1000}, false)
		if parErr != nil {
			return
		}
		plans := map[string]models.UserPlan{plan: {Name: plan, MaxCollections: 3, MaxCollectionPointCount: 100, MaxPointSize: 2000}}
		host := drive.LoopbackHost(1)
		parHandler = httpapi.VerifSetupRouterWithMetrics(parNode, httpapi.HttpApiConfig{UserPlans: plans, WhiteListIPs: []string{"*"}, EnableMetrics: true,
			MetricsHttpHost: host, MetricsHttpPort: drive.FreePort(host)}, prometheus.NewRegistry())
	})
	if parErr != nil {
		return vt.Result{Err: parErr}
	}
	no := parCaseNo.Add(1)
	tenants := make([]*parTenant, len(c.Workers))
	var wg sync.WaitGroup
	start := make(chan struct{})
	for w := range c.Workers {
		tenants[w] = &parTenant{user: fmt.Sprintf("par%dt%d", no, w), cols: map[string]string{}, pts: map[string]map[string]bool{}}
		wg.Add(1)
		go func(w int) {
			defer wg.Done()
			<-start
			tenants[w].run(parHandler, c.Workers[w])
		}(w)
	}
	close(start)
	wg.Wait()
	total := 0
	for w, t := range tenants {
		total += len(c.Workers[w])
		if len(t.fails) > 0 {
			return vt.Result{NonTrivial: true, Err: fmt.Errorf("%s", strings.Join(t.fails, "\n"))}
		}
		// leave nothing behind: the node serves every case of the process
		hd := drive.JSONHeaders(t.user, plan)
		for name := range t.cols {
			drive.Call(parHandler, "DELETE", "/v2/collections/"+name, hd, nil)
		}
	}
	rec.Count("parallel_requests", int64(total))
	rec.Count(fmt.Sprintf("parallel_cases_with_%d_tenants", len(c.Workers)), 1)
	return vt.Result{NonTrivial: len(c.Workers) >= 3 && total >= 15}
}

func TestPropParallel(t *testing.T)   { vt.Check(t, "parallel", genParCase, execParCase) }
func TestReplayParallel(t *testing.T) { vt.Replay(t, "parallel", execParCase) }
