package c18

import (
	"bytes"
	"fmt"
	"net/http/httptest"
	"os"
	"os/exec"
	"strconv"
	"strings"
	"testing"

	"verif/drive"
	"verif/vt"
)

// Deeply nested MessagePack bodies. JSON bodies cannot nest deeper than the JSON decoder allows (10000
// levels, a clean error); a MessagePack body of a few megabytes can nest millions of levels ("array of
// one element" is a single byte). The request is played in a child process, because what it can do to a
// server is end the process: the child prints the status it got.

func deepBody(depth int) []byte {
	var b bytes.Buffer
	b.WriteByte(0x81) // map of 1
	b.WriteByte(0xa6)
	b.WriteString("points")
	b.WriteByte(0x91) // array of 1
	b.WriteByte(0x81) // map of 1
	b.WriteByte(0xa5)
	b.WriteString("extra")
	b.Write(bytes.Repeat([]byte{0x91}, depth))
	b.WriteByte(0xc0) // nil
	return b.Bytes()
}

func TestChildDeepNest(t *testing.T) {
	spec := os.Getenv("VERIF_DEEPNEST")
	if spec == "" {
		t.Skip("child of TestPropDeepNest")
	}
	depth, _ := strconv.Atoi(spec)
	dir, cleanup := drive.CaseDir()
	defer cleanup()
	s, err := newServer(dir, "")
	if err != nil {
		fmt.Println("RESULT harness: " + err.Error())
		return
	}
	req := httptest.NewRequest("POST", "/v2/collections/colv2/points", bytes.NewReader(deepBody(depth)))
	req.Header.Set("Content-Type", "application/msgpack")
	req.Header.Set("X-User-Id", "alice")
	req.Header.Set("X-Plan-Id", plan)
	req.RemoteAddr = "10.0.0.1:1234"
	w := httptest.NewRecorder()
	s.h.ServeHTTP(w, req)
	fmt.Printf("RESULT status %d\n", w.Code)
}

func TestPropDeepNest(t *testing.T) {
	rec := vt.R()
	for _, depth := range []int{100, 10001, 200000, 4000000} {
		rec.Eval()
		cmd := exec.Command(os.Args[0], "-test.run=^TestChildDeepNest$", "-test.count=1", "-test.timeout=300s")
		cmd.Env = append(os.Environ(), "VERIF_DEEPNEST="+strconv.Itoa(depth), "VERIF_STATS=", "VERIF_JOURNAL=")
		out, err := cmd.CombinedOutput()
		result := ""
		for _, l := range strings.Split(string(out), "\n") {
			if strings.HasPrefix(l, "RESULT ") {
				result = strings.TrimPrefix(l, "RESULT ")
			}
		}
		rec.Count(fmt.Sprintf("deepnest_depth_%d", depth), 1)
		if strings.HasPrefix(result, "status 4") || result == "status 200" {
			rec.NonTrivial(fmt.Sprintf("deep-%d", depth))
			continue
		}
		msg := "no result"
		for _, l := range strings.Split(string(out), "\n") {
			if strings.Contains(l, "fatal error") || strings.Contains(l, "panic:") || strings.Contains(l, "goroutine stack exceeds") {
				msg = strings.TrimSpace(l)
				break
			}
		}
		e := fmt.Errorf("a MessagePack body of %d bytes that nests %d arrays ends the server process (%v; %s; answer: %q)", len(deepBody(depth)), depth, err, msg, result)
		p := vt.WriteReplay("deepnest", map[string]int{"depth": depth}, e)
		rec.Violation("deepnest", p, e.Error())
		t.Fatalf("%v", e)
	}
}
