package c18

import (
	"bytes"
	"fmt"
	"testing"

	"github.com/semafind/semadb/httpapi/utils"
	"github.com/vmihailenco/msgpack/v5"
	"pgregory.net/rapid"
	"verif/vt"
)

// The depth scan that guards the MessagePack decoder against documents nested beyond the decoder's stack
// (D35): for generated values of every MessagePack family it must report exactly the nesting of non-empty
// arrays and maps, must accept whatever stays within the limit, and must never fail on prefixes of a
// document or on arbitrary bytes (those are the decoder's business).

type DepthCase struct {
	Value any    `json:"value"` // a tree of maps, arrays, strings, numbers, booleans and nulls
	Wrap  int    `json:"wrap"`  // the value is wrapped in this many arrays of one element
	Cut   int    `json:"cut"`   // > 0: only the first Cut bytes are scanned (a truncated document)
	Raw   []byte `json:"raw"`   // arbitrary bytes scanned as they are
	// Announce != nil: the document is Wrap arrays around one array / map / string / binary header that
	// announces N values or bytes, followed by Fill one-byte values (nil). With fewer bytes than
	// announced the scan must refuse the document (D49); with exactly as many it is a complete document
	Announce *AnnounceCase `json:"announce,omitempty"`
}

type AnnounceCase struct {
	Family string `json:"family"`
	N      uint64 `json:"n"`
	Fill   int    `json:"fill"`
}

func genTreeValue(t *rapid.T, label string, depth int) any {
	k := rapid.IntRange(0, 9).Draw(t, label+"-k")
	if depth <= 0 && k >= 7 {
		k = 0
	}
	switch k {
	case 0:
		return rapid.SampledFrom([]any{nil, true, false, "", "x", "a longer string that needs a length byte because it exceeds thirty-one bytes"}).Draw(t, label+"-s")
	case 1:
		return float64(rapid.SampledFrom([]int64{0, 1, -1, 127, 128, -33, 255, 256, 65535, 65536, -32769, 1 << 32, -(1 << 40)}).Draw(t, label+"-i"))
	case 2:
		return rapid.SampledFrom([]float64{0.5, -2.25, 1e300}).Draw(t, label+"-f")
	case 3:
		return string(make([]byte, rapid.SampledFrom([]int{31, 32, 255, 256, 70000}).Draw(t, label+"-len")))
	case 4, 5, 6:
		return "leaf"
	case 7, 8:
		n := rapid.SampledFrom([]int{0, 1, 2, 15, 16, 17}).Draw(t, label+"-n")
		l := make([]any, n)
		for i := range l {
			l[i] = genTreeValue(t, fmt.Sprintf("%s.%d", label, i), depth-1)
		}
		return l
	default:
		n := rapid.SampledFrom([]int{0, 1, 2, 15, 16}).Draw(t, label+"-m")
		m := map[string]any{}
		for i := 0; i < n; i++ {
			m[fmt.Sprintf("k%d", i)] = genTreeValue(t, fmt.Sprintf("%s.k%d", label, i), depth-1)
		}
		return m
	}
}

func refDepth(v any) int {
	best := 0
	switch x := v.(type) {
	case []any:
		if len(x) == 0 {
			return 0
		}
		for _, e := range x {
			best = max(best, refDepth(e))
		}
		return best + 1
	case map[string]any:
		if len(x) == 0 {
			return 0
		}
		for _, e := range x {
			best = max(best, refDepth(e))
		}
		return best + 1
	}
	return 0
}

func genDepthCase(t *rapid.T) DepthCase {
	c := DepthCase{Value: genTreeValue(t, "v", 4), Wrap: rapid.SampledFrom([]int{0, 0, 1, 3, 9999, 10000, 10001, 20000}).Draw(t, "wrap")}
	if rapid.IntRange(0, 3).Draw(t, "cut") == 0 {
		c.Cut = rapid.IntRange(1, 40).Draw(t, "cutAt")
	}
	if rapid.IntRange(0, 3).Draw(t, "raw") == 0 {
		c.Raw = rapid.SliceOfN(rapid.Byte(), 0, 40).Draw(t, "rawBytes")
	}
	if rapid.IntRange(0, 3).Draw(t, "announce") == 0 {
		a := &AnnounceCase{Family: rapid.SampledFrom([]string{"fixarray", "fixmap", "fixstr", "array16", "array32", "map16", "map32", "str8", "str16", "str32", "bin8", "bin16", "bin32"}).Draw(t, "family")}
		a.N = rapid.SampledFrom([]uint64{0, 1, 2, 7, 15, 16, 31, 32, 255, 256, 300, 65535, 65536, 1 << 20, 1 << 31, 1<<32 - 1}).Draw(t, "n")
		switch a.Family {
		case "fixarray", "fixmap":
			a.N &= 15
		case "fixstr":
			a.N &= 31
		case "str8", "bin8":
			a.N &= 255
		case "array16", "map16", "str16", "bin16":
			a.N &= 65535
		}
		need := a.N
		if a.Family == "fixmap" || a.Family == "map16" || a.Family == "map32" {
			need = 2 * a.N
		}
		// around the boundary "exactly as many bytes as announced", and far below it
		switch k := rapid.IntRange(0, 4).Draw(t, "fillKind"); {
		case need > 1<<17 || k == 0:
			a.Fill = rapid.IntRange(0, 40).Draw(t, "fill")
		case k == 1 && need > 0:
			a.Fill = int(need) - 1
		case k == 2 && need > 1:
			a.Fill = int(need) / 2
		default:
			a.Fill = int(need)
		}
		if uint64(a.Fill) > need {
			a.Fill = int(need)
		}
		c.Announce = a
		c.Wrap = rapid.SampledFrom([]int{0, 1, 5, 9999}).Draw(t, "announceWrap")
	}
	return c
}

func execDepthCase(c DepthCase) (res vt.Result) {
	defer func() {
		if p := recover(); p != nil {
			res.Err = fmt.Errorf("the depth scan panicked: %v", p)
		}
	}()
	if len(c.Raw) > 0 {
		utils.MsgpackDepth(c.Raw) // must not panic; any verdict
	}
	if a := c.Announce; a != nil {
		doc := append(bytesRepeat(0x91, c.Wrap), bombHeader(a.Family, a.N)...)
		doc = append(doc, bytesRepeat(0xc0, a.Fill)...)
		need := a.N
		container := false
		switch a.Family {
		case "fixmap", "map16", "map32":
			need, container = 2*a.N, true
		case "fixarray", "array16", "array32":
			container = true
		}
		d, err := utils.MsgpackDepth(doc)
		if uint64(a.Fill) < need {
			// small announcements are harmless (the decoder meets the end of the body first); what the
			// scan owes is a refusal of everything that would make the decoder allocate beyond the body
			if err == nil && need > 4096 {
				return vt.Result{Err: fmt.Errorf("a %s header that announces %d (%d bytes follow) was accepted by the scan (depth %d): the decoder allocates what the header announces", a.Family, a.N, a.Fill, d)}
			}
			return vt.Result{NonTrivial: true}
		}
		want := c.Wrap
		if container && a.N > 0 {
			want++
		}
		if err != nil {
			return vt.Result{Err: fmt.Errorf("a complete document (%s header announcing %d, %d bytes follow, %d levels) was refused: %v", a.Family, a.N, a.Fill, want, err)}
		}
		if d != want {
			return vt.Result{Err: fmt.Errorf("the scan reports %d levels for a %s of %d inside %d arrays", d, a.Family, a.N, c.Wrap)}
		}
		return vt.Result{NonTrivial: true}
	}
	// whole numbers as integers of the smallest width, some strings as binary: every family of encodings
	var buf bytes.Buffer
	enc := msgpack.NewEncoder(&buf)
	enc.UseCompactInts(true)
	enc.UseCompactFloats(true)
	if err := enc.Encode(typed(c.Value)); err != nil {
		return vt.Result{Err: err}
	}
	body := buf.Bytes()
	want := refDepth(c.Value)
	if c.Wrap > 0 {
		body = append(bytesRepeat(0x91, c.Wrap), body...)
		want += c.Wrap
	}
	if c.Cut > 0 && c.Cut < len(body) {
		// a truncated document: no panic, and never a depth beyond the real one
		d, err := utils.MsgpackDepth(body[:c.Cut])
		if err == nil && d > want {
			return vt.Result{Err: fmt.Errorf("a document cut to %d bytes is said to nest %d levels, the whole document nests %d", c.Cut, d, want)}
		}
		return vt.Result{NonTrivial: true}
	}
	d, err := utils.MsgpackDepth(body)
	if want > utils.MaxMsgpackDepth {
		if err == nil {
			return vt.Result{Err: fmt.Errorf("a document nesting %d levels was accepted (limit %d)", want, utils.MaxMsgpackDepth)}
		}
		return vt.Result{NonTrivial: true}
	}
	if err != nil {
		return vt.Result{Err: fmt.Errorf("a document nesting %d levels (limit %d) was refused: %v", want, utils.MaxMsgpackDepth, err)}
	}
	if d != want {
		return vt.Result{Err: fmt.Errorf("the scan reports %d levels, the value nests %d", d, want)}
	}
	return vt.Result{NonTrivial: want >= 2}
}

// typed turns whole numbers into integers and strings of NUL bytes into binary values.
func typed(v any) any {
	switch x := v.(type) {
	case float64:
		if x == float64(int64(x)) && x > -1e18 && x < 1e18 {
			if x >= 0 && int64(x)%2 == 0 {
				return uint64(x)
			}
			return int64(x)
		}
	case string:
		if len(x) > 0 && x[0] == 0 {
			return []byte(x)
		}
	case []any:
		out := make([]any, len(x))
		for i := range x {
			out[i] = typed(x[i])
		}
		return out
	case map[string]any:
		out := map[string]any{}
		for k, e := range x {
			out[k] = typed(e)
		}
		return out
	}
	return v
}

func bytesRepeat(b byte, n int) []byte {
	out := make([]byte, n)
	for i := range out {
		out[i] = b
	}
	return out
}

func TestPropMsgpackDepth(t *testing.T)   { vt.Check(t, "msgpackdepth", genDepthCase, execDepthCase) }
func TestReplayMsgpackDepth(t *testing.T) { vt.Replay(t, "msgpackdepth", execDepthCase) }
