package c18

import (
	"bytes"
	"fmt"
	"testing"

	"github.com/semafind/semadb/httpapi/utils"
	"github.com/vmihailenco/msgpack/v5"
	"pgregory.net/rapid"
	"verif/vt"
)

// The depth scan that guards the MessagePack decoder against documents nested beyond the decoder's stack
// (D35): for generated values of every MessagePack family it must report exactly the nesting of non-empty
// arrays and maps, must accept whatever stays within the limit, and must never fail on prefixes of a
// document or on arbitrary bytes (those are the decoder's business).

type DepthCase struct {
	Value any    `json:"value"` // a tree of maps, arrays, strings, numbers, booleans and nulls
	Wrap  int    `json:"wrap"`  // the value is wrapped in this many arrays of one element
	Cut   int    `json:"cut"`   // > 0: only the first Cut bytes are scanned (a truncated document)
	Raw   []byte `json:"raw"`   // arbitrary bytes scanned as they are
}

func genTreeValue(t *rapid.T, label string, depth int) any {
	k := rapid.IntRange(0, 9).Draw(t, label+"-k")
	if depth <= 0 && k >= 7 {
		k = 0
	}
	switch k {
	case 0:
		return rapid.SampledFrom([]any{nil, true, false, "", "x", "a longer string that needs a length byte because it exceeds thirty-one bytes"}).Draw(t, label+"-s")
	case 1:
		return float64(rapid.SampledFrom([]int64{0, 1, -1, 127, 128, -33, 255, 256, 65535, 65536, -32769, 1 << 32, -(1 << 40)}).Draw(t, label+"-i"))
	case 2:
		return rapid.SampledFrom([]float64{0.5, -2.25, 1e300}).Draw(t, label+"-f")
	case 3:
		return string(make([]byte, rapid.SampledFrom([]int{31, 32, 255, 256, 70000}).Draw(t, label+"-len")))
	case 4, 5, 6:
		return "leaf"
	case 7, 8:
		n := rapid.SampledFrom([]int{0, 1, 2, 15, 16, 17}).Draw(t, label+"-n")
		l := make([]any, n)
		for i := range l {
			l[i] = genTreeValue(t, fmt.Sprintf("%s.%d", label, i), depth-1)
		}
		return l
	default:
		n := rapid.SampledFrom([]int{0, 1, 2, 15, 16}).Draw(t, label+"-m")
		m := map[string]any{}
		for i := 0; i < n; i++ {
			m[fmt.Sprintf("k%d", i)] = genTreeValue(t, fmt.Sprintf("%s.k%d", label, i), depth-1)
		}
		return m
	}
}

func refDepth(v any) int {
	best := 0
	switch x := v.(type) {
	case []any:
		if len(x) == 0 {
			return 0
		}
		for _, e := range x {
			best = max(best, refDepth(e))
		}
		return best + 1
	case map[string]any:
		if len(x) == 0 {
			return 0
		}
		for _, e := range x {
			best = max(best, refDepth(e))
		}
		return best + 1
	}
	return 0
}

func genDepthCase(t *rapid.T) DepthCase {
	c := DepthCase{Value: genTreeValue(t, "v", 4), Wrap: rapid.SampledFrom([]int{0, 0, 1, 3, 9999, 10000, 10001, 20000}).Draw(t, "wrap")}
	if rapid.IntRange(0, 3).Draw(t, "cut") == 0 {
		c.Cut = rapid.IntRange(1, 40).Draw(t, "cutAt")
	}
	if rapid.IntRange(0, 3).Draw(t, "raw") == 0 {
		c.Raw = rapid.SliceOfN(rapid.Byte(), 0, 40).Draw(t, "rawBytes")
	}
	return c
}

func execDepthCase(c DepthCase) (res vt.Result) {
	defer func() {
		if p := recover(); p != nil {
			res.Err = fmt.Errorf("the depth scan panicked: %v", p)
		}
	}()
	if len(c.Raw) > 0 {
		utils.MsgpackDepth(c.Raw) // must not panic; any verdict
	}
	// whole numbers as integers of the smallest width, some strings as binary: every family of encodings
	var buf bytes.Buffer
	enc := msgpack.NewEncoder(&buf)
	enc.UseCompactInts(true)
	enc.UseCompactFloats(true)
	if err := enc.Encode(typed(c.Value)); err != nil {
		return vt.Result{Err: err}
	}
	body := buf.Bytes()
	want := refDepth(c.Value)
	if c.Wrap > 0 {
		body = append(bytesRepeat(0x91, c.Wrap), body...)
		want += c.Wrap
	}
	if c.Cut > 0 && c.Cut < len(body) {
		// a truncated document: no panic, and never a depth beyond the real one
		d, err := utils.MsgpackDepth(body[:c.Cut])
		if err == nil && d > want {
			return vt.Result{Err: fmt.Errorf("a document cut to %d bytes is said to nest %d levels, the whole document nests %d", c.Cut, d, want)}
		}
		return vt.Result{NonTrivial: true}
	}
	d, err := utils.MsgpackDepth(body)
	if want > utils.MaxMsgpackDepth {
		if err == nil {
			return vt.Result{Err: fmt.Errorf("a document nesting %d levels was accepted (limit %d)", want, utils.MaxMsgpackDepth)}
		}
		return vt.Result{NonTrivial: true}
	}
	if err != nil {
		return vt.Result{Err: fmt.Errorf("a document nesting %d levels (limit %d) was refused: %v", want, utils.MaxMsgpackDepth, err)}
	}
	if d != want {
		return vt.Result{Err: fmt.Errorf("the scan reports %d levels, the value nests %d", d, want)}
	}
	return vt.Result{NonTrivial: want >= 2}
}

// typed turns whole numbers into integers and strings of NUL bytes into binary values.
func typed(v any) any {
	switch x := v.(type) {
	case float64:
		if x == float64(int64(x)) && x > -1e18 && x < 1e18 {
			if x >= 0 && int64(x)%2 == 0 {
				return uint64(x)
			}
			return int64(x)
		}
	case string:
		if len(x) > 0 && x[0] == 0 {
			return []byte(x)
		}
	case []any:
		out := make([]any, len(x))
		for i := range x {
			out[i] = typed(x[i])
		}
		return out
	case map[string]any:
		out := map[string]any{}
		for k, e := range x {
			out[k] = typed(e)
		}
		return out
	}
	return v
}

func bytesRepeat(b byte, n int) []byte {
	out := make([]byte, n)
	for i := range out {
		out[i] = b
	}
	return out
}

func TestPropMsgpackDepth(t *testing.T)   { vt.Check(t, "msgpackdepth", genDepthCase, execDepthCase) }
func TestReplayMsgpackDepth(t *testing.T) { vt.Replay(t, "msgpackdepth", execDepthCase) }
