package c18

import (
	"encoding/binary"
	"encoding/hex"
	"fmt"
	"math"
	"runtime"
	"sort"
	"sync"
	"testing"

	"github.com/semafind/semadb/httpapi/utils"
	"pgregory.net/rapid"
	"verif/drive"
	"verif/vt"
)

// MessagePack bodies in which one array, map, string or binary header announces more than the body
// holds (D49). The decoder allocates what a header announces before it reads the elements, so a body of
// a few bytes can ask for gigabytes. Such a body is malformed whatever follows: it must be answered 4xx,
// leave every collection unchanged, and the request must not allocate more than a small multiple of the
// body. Requests whose allocation cannot be satisfied at all end the process; the driver then promotes
// the journalled case. Extension headers are not generated: the decoder skips the header of an extension
// in front of a map and reads on, so what follows it can be a well-formed request.

type BombCase struct {
	Name     string `json:"name"`   // request template
	Method   string `json:"method"` //
	Path     string `json:"path"`   //
	User     string `json:"user"`   //
	Family   string `json:"family"` // header family of the over-announcing value
	Announce uint64 `json:"announce"`
	At       string `json:"at"`      // where in the template the header sits
	HexBody  string `json:"hexBody"` // the request body as sent
}

// bomb marks the place of the over-announcing header in a template tree.
type bomb struct {
	family string
	n      uint64
	tail   []byte
	stop   bool // the body ends after the tail (a truncated body); otherwise the rest of the template follows
}

type mpWriter struct {
	b       []byte
	done    bool
	bombEnd int // length of the body right after the over-announcing header
}

func (w *mpWriter) str(s string) {
	n := len(s)
	switch {
	case n < 32:
		w.b = append(w.b, 0xa0|byte(n))
	case n < 256:
		w.b = append(w.b, 0xd9, byte(n))
	default:
		w.b = append(w.b, 0xda, byte(n>>8), byte(n))
	}
	w.b = append(w.b, s...)
}

func bombHeader(family string, n uint64) []byte {
	b32 := func(code byte) []byte {
		out := []byte{code, 0, 0, 0, 0}
		binary.BigEndian.PutUint32(out[1:], uint32(n))
		return out
	}
	b16 := func(code byte) []byte { return []byte{code, byte(n >> 8), byte(n)} }
	switch family {
	case "fixarray":
		return []byte{0x90 | byte(n&15)}
	case "fixmap":
		return []byte{0x80 | byte(n&15)}
	case "fixstr":
		return []byte{0xa0 | byte(n&31)}
	case "array16":
		return b16(0xdc)
	case "array32":
		return b32(0xdd)
	case "map16":
		return b16(0xde)
	case "map32":
		return b32(0xdf)
	case "str8":
		return []byte{0xd9, byte(n)}
	case "str16":
		return b16(0xda)
	case "str32":
		return b32(0xdb)
	case "bin8":
		return []byte{0xc4, byte(n)}
	case "bin16":
		return b16(0xc5)
	case "bin32":
		return b32(0xc6)
	}
	panic("family " + family)
}

func (w *mpWriter) val(v any, underVector bool) {
	if w.done {
		return
	}
	switch x := v.(type) {
	case nil:
		w.b = append(w.b, 0xc0)
	case bool:
		if x {
			w.b = append(w.b, 0xc3)
		} else {
			w.b = append(w.b, 0xc2)
		}
	case string:
		w.str(x)
	case float64:
		if underVector {
			w.b = append(w.b, 0xca, 0, 0, 0, 0)
			binary.BigEndian.PutUint32(w.b[len(w.b)-4:], math.Float32bits(float32(x)))
		} else if x == math.Trunc(x) && x >= 0 && x < 128 {
			w.b = append(w.b, byte(x))
		} else if x == math.Trunc(x) && math.Abs(x) < 1e15 {
			w.b = append(w.b, 0xd3, 0, 0, 0, 0, 0, 0, 0, 0)
			binary.BigEndian.PutUint64(w.b[len(w.b)-8:], uint64(int64(x)))
		} else {
			w.b = append(w.b, 0xcb, 0, 0, 0, 0, 0, 0, 0, 0)
			binary.BigEndian.PutUint64(w.b[len(w.b)-8:], math.Float64bits(x))
		}
	case []any:
		if len(x) < 16 {
			w.b = append(w.b, 0x90|byte(len(x)))
		} else {
			w.b = append(w.b, 0xdc, byte(len(x)>>8), byte(len(x)))
		}
		for _, e := range x {
			w.val(e, underVector)
		}
	case map[string]any:
		keys := make([]string, 0, len(x))
		for k := range x {
			keys = append(keys, k)
		}
		sort.Strings(keys)
		w.b = append(w.b, 0x80|byte(len(keys)))
		for _, k := range keys {
			if w.done {
				return
			}
			w.str(k)
			w.val(x[k], underVector || vectorKeys[k])
		}
	case bomb:
		w.b = append(w.b, bombHeader(x.family, x.n)...)
		w.bombEnd = len(w.b)
		w.b = append(w.b, x.tail...)
		if x.stop {
			w.done = true
		}
	default:
		panic(fmt.Sprintf("template value %T", v))
	}
}

type bombTemplate struct {
	name, method, path, user string
	body                     map[string]any
}

func bombTemplates() []bombTemplate {
	id := func(i int) string { return poolIds[i] }
	return []bombTemplate{
		{"v2 insert", "POST", "/v2/collections/colv2/points", "alice", map[string]any{"points": []any{
			map[string]any{"_id": id(3), "vector": []any{1.0, 2.0}, "flat": []any{0.5, 1.0}, "description": "a winter coat", "category": "Coat", "labels": []any{"x", "z"}, "size": 4.0, "price": 1.5, "meta": map[string]any{"k": 1.0}},
			map[string]any{"_id": id(4), "size": 5.0}}}},
		{"v2 update", "PUT", "/v2/collections/colv2/points", "alice", map[string]any{"points": []any{
			map[string]any{"_id": id(0), "vector": []any{3.0, 2.0}, "labels": []any{"q"}, "extra": map[string]any{"a": []any{1.0, "b"}}}}}},
		{"v2 delete", "DELETE", "/v2/collections/colv2/points", "alice", map[string]any{"ids": []any{id(0), id(1)}}},
		{"v2 search", "POST", "/v2/collections/colv2/points/search", "alice", map[string]any{
			"query": map[string]any{"property": "_or", "_or": []any{
				map[string]any{"property": "vector", "vectorVamana": map[string]any{"vector": []any{1.0, 1.0}, "operator": "near", "searchSize": 75.0, "limit": 10.0,
					"filter": map[string]any{"property": "labels", "stringArray": map[string]any{"value": []any{"x"}, "operator": "containsAny"}}}},
				map[string]any{"property": "_id", "_id": map[string]any{"value": []any{id(0), id(2)}, "operator": "containsAny"}, "stringArray": map[string]any{"value": []any{id(0)}, "operator": "containsAny"}},
				map[string]any{"property": "description", "text": map[string]any{"value": "dress", "operator": "containsAny", "limit": 5.0}}}},
			"select": []any{"size", "meta.k"}, "sort": []any{map[string]any{"property": "size", "descending": true}}, "limit": 10.0, "offset": 0.0}},
		{"v2 create", "POST", "/v2/collections", "bob", map[string]any{"id": "bombs", "indexSchema": map[string]any{
			"v": map[string]any{"type": "vectorFlat", "vectorFlat": map[string]any{"vectorSize": 2.0, "distanceMetric": "euclidean"}},
			"s": map[string]any{"type": "string", "string": map[string]any{"caseSensitive": false}}}}},
		{"v1 insert", "POST", "/v1/collections/colv1/points", "alice", map[string]any{"points": []any{
			map[string]any{"id": id(3), "vector": []any{0.5, 0.25}, "metadata": "m2"}}}},
		{"v1 update", "PUT", "/v1/collections/colv1/points", "alice", map[string]any{"points": []any{
			map[string]any{"id": id(0), "vector": []any{0.5, 0.25}, "metadata": "m3"}}}},
		{"v1 delete", "DELETE", "/v1/collections/colv1/points", "alice", map[string]any{"ids": []any{id(0)}}},
		{"v1 search", "POST", "/v1/collections/colv1/points/search", "alice", map[string]any{"vector": []any{1.0, 0.0}, "limit": 3.0}},
		{"v1 create", "POST", "/v1/collections", "bob", map[string]any{"id": "bombs1", "vectorSize": 2.0, "distanceMetric": "euclidean"}},
	}
}

var bombFamilies = []string{"array32", "array32", "map32", "str32", "bin32", "array16", "map16", "str16", "bin16", "str8", "bin8", "fixarray", "fixmap", "fixstr"}

func genBombCase(t *rapid.T) BombCase {
	tpls := bombTemplates()
	tp := tpls[rapid.IntRange(0, len(tpls)-1).Draw(t, "template")]
	var ps [][]any
	paths(tp.body, nil, &ps)
	ps = append(ps, []any{}) // the root itself
	p := ps[rapid.IntRange(0, len(ps)-1).Draw(t, "path")]
	fam := rapid.SampledFrom(bombFamilies).Draw(t, "family")
	tail := rapid.SliceOfN(rapid.SampledFrom([]byte{0xc0, 0x00, 0x01, 0xa0, 0x90, 0x80, 0xc3, 0xff, 0x41}), 0, 12).Draw(t, "tail")
	var maxN uint64
	switch fam {
	case "fixarray", "fixmap":
		maxN = 15
	case "fixstr":
		maxN = 31
	case "str8", "bin8":
		maxN = 255
	case "array16", "map16", "str16", "bin16":
		maxN = 65535
	default:
		maxN = math.MaxUint32
	}
	n := rapid.SampledFrom([]uint64{uint64(len(tail)) + 1, uint64(len(tail)) + 2, 15, 31, 255, 65535, 1 << 16, 1<<20 + 1, 1 << 24, 1 << 27, 1 << 28, 1 << 30, 1 << 31, 1<<32 - 1}).Draw(t, "announce")
	if n > maxN {
		n = maxN
	}
	// either the body ends after the tail (a truncated body) or the rest of the template follows; in
	// both forms fewer bytes follow the header than it announces values / bytes (every value takes at
	// least one byte), so the body is malformed whatever the bytes are
	stop := rapid.Bool().Draw(t, "bodyEndsThere")
	if n <= uint64(len(tail)) {
		tail = tail[:n-1]
	}
	encode := func(stop bool) *mpWriter {
		body := setPath(deepCopy(tp.body), p, bomb{family: fam, n: n, tail: tail, stop: stop}, false)
		w := &mpWriter{}
		w.val(body, false)
		return w
	}
	w := encode(stop)
	if uint64(len(w.b)-w.bombEnd) >= n {
		w = encode(true)
	}
	return BombCase{Name: tp.name, Method: tp.method, Path: tp.path, User: tp.user, Family: fam, Announce: n, At: fmt.Sprint(p), HexBody: hex.EncodeToString(w.b)}
}

var (
	bombOnce   sync.Once
	bombServer *server
	bombErr    error
	bombDigest string
)

func execBombCase(c BombCase) (res vt.Result) {
	rec := vt.R()
	bombOnce.Do(func() {
		dir, cleanup := drive.CaseDir()
		vt.OnExit(cleanup)
		bombServer, bombErr = newServer(dir, "")
		if bombErr == nil {
			bombDigest, bombErr = bombServer.digest()
		}
	})
	if bombErr != nil {
		return vt.Result{Err: bombErr}
	}
	body, err := hex.DecodeString(c.HexBody)
	if err != nil {
		return vt.Result{Err: err}
	}
	rec.Count("bomb_family_"+c.Family, 1)
	rec.Count("bomb_template_"+c.Name, 1)
	if c.Announce >= 1<<24 {
		rec.Count("bomb_announces_16M_or_more", 1)
	}
	// the scan itself: a header that announces more than is left is an error
	if _, err := utils.MsgpackDepth(body); err == nil {
		rec.Count("bomb_not_refused_by_the_scan", 1)
	}
	hd := map[string]string{"Content-Type": "application/msgpack", "X-User-Id": c.User, "X-Plan-Id": plan}
	var m0, m1 runtime.MemStats
	runtime.ReadMemStats(&m0)
	r := drive.Call(bombServer.h, c.Method, c.Path, hd, body)
	runtime.ReadMemStats(&m1)
	grown := m1.TotalAlloc - m0.TotalAlloc
	rec.Max("bomb_largest_allocation_of_a_request_bytes", int64(grown))
	limit := uint64(48<<20) + 256*uint64(len(body))
	if grown > limit {
		return vt.Result{Err: fmt.Errorf("%s: a body of %d bytes whose %s header at %s announces %d made the request allocate %d bytes (answer %d %.200s)", c.Name, len(body), c.Family, c.At, c.Announce, grown, r.Status, r.Body)}
	}
	if r.Status < 400 || r.Status > 499 {
		return vt.Result{Err: fmt.Errorf("%s: a body of %d bytes whose %s header at %s announces %d values/bytes (the body holds fewer) was answered %d %.300s", c.Name, len(body), c.Family, c.At, c.Announce, r.Status, r.Body)}
	}
	after, err := bombServer.digest()
	if err != nil {
		return vt.Result{Err: fmt.Errorf("stored data unreadable after the request: %v", err)}
	}
	if after != bombDigest {
		return vt.Result{Err: fmt.Errorf("%s: refused with %d %.200s, but stored data changed", c.Name, r.Status, r.Body)}
	}
	return vt.Result{NonTrivial: c.Announce >= 1<<16}
}

func TestPropHeaderBomb(t *testing.T)   { vt.Check(t, "headerbomb", genBombCase, execBombCase) }
func TestReplayHeaderBomb(t *testing.T) { vt.Replay(t, "headerbomb", execBombCase) }
