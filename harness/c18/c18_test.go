package c18

import (
	"bytes"
	"encoding/json"
	"fmt"
	"math"
	"net/http"
	"net/http/httptest"
	"os"
	"path/filepath"
	"regexp"
	"sort"
	"strings"
	"testing"

	"github.com/semafind/semadb/cluster"
	"github.com/semafind/semadb/models"
	"github.com/vmihailenco/msgpack/v5"
	"pgregory.net/rapid"
	"verif/drive"
	"verif/vt"
)

func TestMain(m *testing.M) {
	vt.JournalCases = true
	vt.OnExit(drive.Cleanup)
	vt.Main(m, "C18")
}

// Req is one HTTP request in plain form.
type Req struct {
	Method  string            `json:"method"`
	Path    string            `json:"path"`
	Headers map[string]string `json:"headers"`
	Body    string            `json:"body"`              // JSON text (or raw bytes as a string)
	Msgpack bool              `json:"msgpack,omitempty"` // re-encode the JSON body as MessagePack (then NaN/Inf markers are expanded)
	// MustReject: the request violates the documented schema or limits, so it must be answered 4xx
	MustReject string `json:"mustReject,omitempty"`
}

type Case struct {
	Reqs []Req `json:"requests"`
	// ProxySecret != "": the server is configured with a proxy secret; a request without it (or with a
	// wrong one) is refused, whatever else it carries
	ProxySecret string `json:"proxySecret,omitempty"`
}

const plan = "BASIC"

var poolIds = []string{
	"00000000-0000-4000-8000-000000000001", "00000000-0000-4000-8000-000000000002", "00000000-0000-4000-8000-000000000003",
	"00000000-0000-4000-8000-000000000004", "00000000-0000-4000-8000-000000000005", "00000000-0000-4000-8000-000000000006",
}

func fullSchema() map[string]any {
	return map[string]any{
		"vector":      map[string]any{"type": "vectorVamana", "vectorVamana": map[string]any{"vectorSize": 2, "distanceMetric": "euclidean", "searchSize": 75, "degreeBound": 64, "alpha": 1.2}},
		"flat":        map[string]any{"type": "vectorFlat", "vectorFlat": map[string]any{"vectorSize": 2, "distanceMetric": "euclidean"}},
		"description": map[string]any{"type": "text", "text": map[string]any{"analyser": "standard"}},
		"category":    map[string]any{"type": "string", "string": map[string]any{"caseSensitive": false}},
		"labels":      map[string]any{"type": "stringArray", "stringArray": map[string]any{"caseSensitive": false}},
		"size":        map[string]any{"type": "integer"},
		"price":       map[string]any{"type": "float"},
		"meta.k":      map[string]any{"type": "integer"},
	}
}

func validPoint(t *rapid.T, label string, withId bool) map[string]any {
	if rapid.IntRange(0, 7).Draw(t, label+"-bare") == 0 {
		// a point of nothing but its id (or of nothing at all): no field is mandatory
		p := map[string]any{}
		if withId {
			p["_id"] = rapid.SampledFrom(poolIds).Draw(t, label+"-id")
		}
		return p
	}
	p := map[string]any{
		"vector": []any{float64(rapid.IntRange(-3, 3).Draw(t, label+"-vx")), float64(rapid.IntRange(-3, 3).Draw(t, label+"-vy"))},
		"flat":   []any{float64(rapid.IntRange(-3, 3).Draw(t, label+"-fx")), 0.5},
	}
	if rapid.Bool().Draw(t, label+"-desc") {
		p["description"] = rapid.SampledFrom([]string{"a summer dress", "the ring of power", "frodo", "..."}).Draw(t, label+"-d")
	}
	if rapid.Bool().Draw(t, label+"-cat") {
		p["category"] = rapid.SampledFrom([]string{"A", "b", "shoe"}).Draw(t, label+"-c")
	}
	if rapid.Bool().Draw(t, label+"-lab") {
		p["labels"] = []any{"x", rapid.SampledFrom([]string{"y", "Z"}).Draw(t, label+"-l")}
	}
	if rapid.Bool().Draw(t, label+"-size") {
		p["size"] = float64(rapid.IntRange(-5, 50).Draw(t, label+"-s"))
	}
	if rapid.Bool().Draw(t, label+"-price") {
		p["price"] = float64(rapid.IntRange(-5, 50).Draw(t, label+"-p")) / 4
	}
	if rapid.Bool().Draw(t, label+"-meta") {
		p["meta"] = map[string]any{"k": float64(rapid.IntRange(0, 9).Draw(t, label+"-mk")), "other": "x"}
	}
	if rapid.Bool().Draw(t, label+"-extra") {
		// (the markers are plain strings in a JSON body and non-finite numbers in a MessagePack body: in a
		// property without an index they do not enter any distance)
		p["extra"] = rapid.SampledFrom([]any{nil, true, "s", float64(1), []any{float64(1), "a"}, map[string]any{"a": map[string]any{"b": float64(1)}}, "$NaN", "$Inf", map[string]any{"ratio": "$-Inf"}, []any{"$NaN"}}).Draw(t, label+"-e")
	}
	if withId {
		p["_id"] = rapid.SampledFrom(poolIds).Draw(t, label+"-id")
	}
	return p
}

func validQuery(t *rapid.T, label string, depth int) map[string]any {
	k := rapid.IntRange(0, 9).Draw(t, label+"-qk")
	if depth <= 0 && k >= 8 {
		k = 0
	}
	switch k {
	case 0:
		return map[string]any{"property": "vector", "vectorVamana": map[string]any{"vector": []any{1.0, 2.0}, "operator": "near", "searchSize": float64(rapid.IntRange(25, 75).Draw(t, label+"-ss")), "limit": float64(rapid.IntRange(1, 25).Draw(t, label+"-l"))}}
	case 1:
		return map[string]any{"property": "flat", "vectorFlat": map[string]any{"vector": []any{0.0, -1.0}, "operator": "near", "limit": float64(rapid.IntRange(1, 75).Draw(t, label+"-l")), "weight": 0.5}}
	case 2:
		return map[string]any{"property": "description", "text": map[string]any{"value": "ring dress", "operator": rapid.SampledFrom([]string{"containsAll", "containsAny"}).Draw(t, label+"-op"), "limit": 10.0}}
	case 3:
		return map[string]any{"property": "category", "string": map[string]any{"value": "a", "operator": rapid.SampledFrom([]string{"equals", "notEquals", "startsWith", "greaterThan", "lessThanOrEquals"}).Draw(t, label+"-op")}}
	case 4:
		return map[string]any{"property": "labels", "stringArray": map[string]any{"value": []any{"x", "z"}, "operator": rapid.SampledFrom([]string{"containsAll", "containsAny"}).Draw(t, label+"-op")}}
	case 5:
		return map[string]any{"property": "size", "integer": map[string]any{"value": 3.0, "endValue": 30.0, "operator": rapid.SampledFrom([]string{"equals", "inRange", "lessThan", "greaterThanOrEquals"}).Draw(t, label+"-op")}}
	case 6:
		return map[string]any{"property": "price", "float": map[string]any{"value": 1.5, "endValue": 9.0, "operator": rapid.SampledFrom([]string{"equals", "inRange", "greaterThan"}).Draw(t, label+"-op")}}
	case 7:
		return map[string]any{"property": "_id", "stringArray": map[string]any{"value": []any{poolIds[0], poolIds[1], poolIds[5]}, "operator": "containsAny"}}
	case 8:
		return map[string]any{"property": "_and", "_and": []any{validQuery(t, label+".0", depth-1), validQuery(t, label+".1", depth-1)}}
	default:
		return map[string]any{"property": "_or", "_or": []any{validQuery(t, label+".0", depth-1), validQuery(t, label+".1", depth-1)}}
	}
}

// hostile replacement values
func hostile(t *rapid.T, label string) any {
	pool := []any{nil, true, false, "", "x", "_delete", "_id", strings.Repeat("a", 4096), strings.Repeat("a", 4097), float64(0), float64(-1), float64(1), 0.5, 1e308, -1e308, 4096.0, 4097.0, 76.0, 101.0, 1e15,
		"$NaN", "$Inf", "$-Inf", []any{}, []any{1.0}, []any{1.0, 2.0, 3.0}, []any{"a", 1.0}, []any{nil}, map[string]any{}, map[string]any{"a": 1.0}, "not-a-uuid", "00000000-0000-0000-0000-000000000000",
		[]any{[]any{[]any{[]any{1.0}}}}, 9007199254740993.0, -9223372036854775808.0, 9223372036854775807.0, 18446744073709551615.0}
	return rapid.SampledFrom(pool).Draw(t, label)
}

// paths lists every path (as key sequences) of a JSON tree.
func paths(v any, prefix []any, out *[][]any) {
	switch x := v.(type) {
	case map[string]any:
		keys := make([]string, 0, len(x))
		for k := range x {
			keys = append(keys, k)
		}
		sort.Strings(keys)
		for _, k := range keys {
			p := append(append([]any{}, prefix...), k)
			*out = append(*out, p)
			paths(x[k], p, out)
		}
	case []any:
		for i, e := range x {
			p := append(append([]any{}, prefix...), i)
			*out = append(*out, p)
			paths(e, p, out)
		}
	}
}

func setPath(root any, path []any, val any, del bool) any {
	if len(path) == 0 {
		return val
	}
	switch x := root.(type) {
	case map[string]any:
		k := path[0].(string)
		if len(path) == 1 && del {
			delete(x, k)
			return x
		}
		x[k] = setPath(x[k], path[1:], val, del)
		return x
	case []any:
		i := path[0].(int)
		if i < len(x) {
			if len(path) == 1 && del {
				return append(x[:i], x[i+1:]...)
			}
			x[i] = setPath(x[i], path[1:], val, del)
		}
		return x
	}
	return root
}

func deepCopy(v any) any {
	b, _ := json.Marshal(v)
	var out any
	json.Unmarshal(b, &out)
	return out
}

func genReq(t *rapid.T, label string, intact *bool) Req {
	user := rapid.SampledFrom([]string{"alice", "alice", "alice", "bob"}).Draw(t, label+"-user")
	r := Req{Headers: map[string]string{"Content-Type": "application/json", "X-User-Id": user, "X-Plan-Id": rapid.SampledFrom([]string{plan, plan, plan, plan, "SMALL"}).Draw(t, label+"-plan")}}
	col := rapid.SampledFrom([]string{"colv2", "colv2", "colv2", "colv1", "nocol", "new1"}).Draw(t, label+"-col")
	api := "/v2"
	if col == "colv1" && rapid.Bool().Draw(t, label+"-v1") {
		api = "/v1"
	}
	var body any
	type targeted struct {
		name string
		f    func(b map[string]any)
	}
	var targets []targeted
	kind := rapid.SampledFrom([]string{"create", "createV1", "list", "get", "deleteCol", "insert", "insert", "update", "deletePoints", "search", "search", "search", "insertV1", "searchV1", "updateV1", "ping"}).Draw(t, label+"-kind")
	if forceTargeted {
		// the job that spreads its cases evenly over the targeted violations: a request kind that has some
		kind = rapid.SampledFrom([]string{"create", "create", "create", "createV1", "insert", "update", "deletePoints", "search", "search", "insertV1", "searchV1", "updateV1"}).Draw(t, label+"-tkind")
		user, col = "alice", "colv2"
		if strings.HasSuffix(kind, "V1") {
			col, api = "colv1", "/v1"
		}
		r.Headers["X-User-Id"] = user
	}
	switch kind {
	case "create":
		r.Method, r.Path = "POST", "/v2/collections"
		schema := fullSchema()
		// random subset
		for _, k := range []string{"flat", "description", "category", "labels", "size", "price", "meta.k"} {
			if rapid.IntRange(0, 2).Draw(t, label+"-has-"+k) == 0 {
				delete(schema, k)
			}
		}
		noVector := rapid.IntRange(0, 5).Draw(t, label+"-novector") == 0
		if noVector {
			delete(schema, "vector")
		}
		if rapid.IntRange(0, 3).Draw(t, label+"-quant") == 0 {
			schema["flat"] = map[string]any{"type": "vectorFlat", "vectorFlat": map[string]any{"vectorSize": 4.0, "distanceMetric": rapid.SampledFrom([]string{"euclidean", "cosine", "dot", "hamming", "jaccard"}).Draw(t, label+"-m"),
				"quantizer": map[string]any{"type": "binary", "binary": map[string]any{"threshold": 0.5, "triggerThreshold": 10.0, "distanceMetric": "hamming"}}}}
		}
		if rapid.IntRange(0, 5).Draw(t, label+"-pq") == 0 {
			// a valid product quantiser (sub-vectors divide the vector, metric supported)
			schema["flat"] = map[string]any{"type": "vectorFlat", "vectorFlat": map[string]any{"vectorSize": 2.0, "distanceMetric": rapid.SampledFrom([]string{"euclidean", "cosine", "dot", "hamming"}).Draw(t, label+"-pqm"),
				"quantizer": map[string]any{"type": "product", "product": map[string]any{"numCentroids": float64(rapid.SampledFrom([]int{2, 16, 256}).Draw(t, label+"-pqc")), "numSubVectors": 2.0, "triggerThreshold": 1000.0}}}}
		}
		body = map[string]any{"id": rapid.SampledFrom([]string{"new1", "new2", "colv2", "abc"}).Draw(t, label+"-newid"), "indexSchema": schema}
		targets = []targeted{
			{"collection id shorter than 3", func(b map[string]any) { b["id"] = "ab" }},
			{"collection id longer than 24", func(b map[string]any) { b["id"] = strings.Repeat("a", 25) }},
			{"collection id with upper case / non-alphanumeric characters", func(b map[string]any) { b["id"] = "New_1" }},
			{"vectorSize 0", func(b map[string]any) { vam(b)["vectorSize"] = 0.0 }},
			{"vectorSize 4097", func(b map[string]any) { vam(b)["vectorSize"] = 4097.0 }},
			{"unknown distance metric", func(b map[string]any) { vam(b)["distanceMetric"] = "manhattan" }},
			{"haversine with vector size 3", func(b map[string]any) { vam(b)["distanceMetric"] = "haversine"; vam(b)["vectorSize"] = 3.0 }},
			{"searchSize 24", func(b map[string]any) { vam(b)["searchSize"] = 24.0 }},
			{"degreeBound 65", func(b map[string]any) { vam(b)["degreeBound"] = 65.0 }},
			{"alpha 1.6", func(b map[string]any) { vam(b)["alpha"] = 1.6 }},
			{"alpha that is not a number (a string in JSON, NaN in MessagePack)", func(b map[string]any) { vam(b)["alpha"] = "$NaN" }},
			{"binary quantiser threshold that is not a finite number (a string in JSON, NaN / infinity in MessagePack)", func(b map[string]any) {
				vam(b)["quantizer"] = map[string]any{"type": "binary", "binary": map[string]any{"threshold": rapid.SampledFrom([]string{"$NaN", "$Inf", "$-Inf"}).Draw(t, label+"-nfth"), "distanceMetric": "hamming"}}
			}},
			{"unknown index type", func(b map[string]any) { b["indexSchema"].(map[string]any)["vector"].(map[string]any)["type"] = "btree" }},
			{"index parameters missing", func(b map[string]any) { delete(b["indexSchema"].(map[string]any)["vector"].(map[string]any), "vectorVamana") }},
			{"product quantiser with 1 centroid", func(b map[string]any) {
				vam(b)["quantizer"] = map[string]any{"type": "product", "product": map[string]any{"numCentroids": 1.0, "numSubVectors": 2.0, "triggerThreshold": 1000.0}}
			}},
		}
		// the same parameter violations with an explicit, valid quantiser section next to them, and on a flat
		// index (its parameters are validated by code of their own)
		withQ := func(m map[string]any) {
			m["quantizer"] = rapid.SampledFrom([]any{map[string]any{"type": "none"},
				map[string]any{"type": "binary", "binary": map[string]any{"threshold": 0.5, "triggerThreshold": 10.0, "distanceMetric": "hamming"}}}).Draw(t, label+"-okq")
		}
		flatP := func(b map[string]any) map[string]any {
			sc := b["indexSchema"].(map[string]any)
			fp := map[string]any{"vectorSize": 2.0, "distanceMetric": "euclidean"}
			sc["flat"] = map[string]any{"type": "vectorFlat", "vectorFlat": fp}
			return fp
		}
		targets = append(targets,
			targeted{"graph index: product quantiser whose sub-vectors do not divide the vector", func(b map[string]any) {
				vam(b)["vectorSize"] = 3.0
				vam(b)["quantizer"] = map[string]any{"type": "product", "product": map[string]any{"numCentroids": 4.0, "numSubVectors": 2.0, "triggerThreshold": 1000.0}}
			}},
			targeted{"graph index: haversine with vector size 3 and a valid quantiser section", func(b map[string]any) {
				vam(b)["distanceMetric"], vam(b)["vectorSize"] = "haversine", 3.0
				vam(b)["quantizer"] = map[string]any{"type": "none"}
			}},
			targeted{"graph index: vectorSize 0 and a valid quantiser section", func(b map[string]any) { vam(b)["vectorSize"] = 0.0; withQ(vam(b)) }},
			targeted{"graph index: degreeBound 65 and a valid quantiser section", func(b map[string]any) { vam(b)["degreeBound"] = 65.0; withQ(vam(b)) }},
			targeted{"graph index: unknown metric and a valid quantiser section", func(b map[string]any) { vam(b)["distanceMetric"] = "manhattan"; withQ(vam(b)) }},
			targeted{"flat index: haversine with vector size 1", func(b map[string]any) { fp := flatP(b); fp["distanceMetric"], fp["vectorSize"] = "haversine", 1.0 }},
			targeted{"flat index: haversine with vector size 3 and a valid quantiser section", func(b map[string]any) {
				fp := flatP(b)
				fp["distanceMetric"], fp["vectorSize"] = "haversine", 3.0
				fp["quantizer"] = map[string]any{"type": "none"}
			}},
			targeted{"flat index: vectorSize 0", func(b map[string]any) { flatP(b)["vectorSize"] = 0.0 }},
			targeted{"flat index: vectorSize 4097 and a valid quantiser section", func(b map[string]any) { fp := flatP(b); fp["vectorSize"] = 4097.0; withQ(fp) }},
			targeted{"flat index: unknown metric and a valid quantiser section", func(b map[string]any) { fp := flatP(b); fp["distanceMetric"] = "manhattan"; withQ(fp) }},
			targeted{"flat index: product quantiser with the haversine metric", func(b map[string]any) {
				fp := flatP(b)
				fp["distanceMetric"] = "haversine"
				fp["quantizer"] = map[string]any{"type": "product", "product": map[string]any{"numCentroids": 4.0, "numSubVectors": 2.0, "triggerThreshold": 1000.0}}
			}},
			targeted{"flat index: product quantiser whose sub-vectors do not divide the vector", func(b map[string]any) {
				fp := flatP(b)
				fp["vectorSize"] = 3.0
				fp["quantizer"] = map[string]any{"type": "product", "product": map[string]any{"numCentroids": 4.0, "numSubVectors": 2.0, "triggerThreshold": 1000.0}}
			}},
		)
		if noVector {
			targets = append(targets[:3:3], targets[len(targets)-7:]...) // the collection id ones and the flat-index ones
		}
	case "createV1":
		r.Method, r.Path = "POST", "/v1/collections"
		body = map[string]any{"id": rapid.SampledFrom([]string{"new1", "colv1", "Abc9"}).Draw(t, label+"-newid"), "vectorSize": 2.0, "distanceMetric": rapid.SampledFrom([]string{"euclidean", "cosine", "dot"}).Draw(t, label+"-m")}
		targets = []targeted{
			{"v1 collection id longer than 16", func(b map[string]any) { b["id"] = strings.Repeat("a", 17) }},
			{"v1 vectorSize 4097", func(b map[string]any) { b["vectorSize"] = 4097.0 }},
			{"v1 metric hamming", func(b map[string]any) { b["distanceMetric"] = "hamming" }},
		}
	case "list":
		r.Method, r.Path = "GET", api+"/collections"
	case "get":
		r.Method, r.Path = "GET", api+"/collections/"+col
	case "deleteCol":
		r.Method, r.Path = "DELETE", api+"/collections/"+col
	case "ping":
		r.Method, r.Path = "GET", rapid.SampledFrom([]string{"/v1/ping", "/v2/ping", "/", "/v3/collections", "/v2/collections/colv2/points/search/extra"}).Draw(t, label+"-pp")
	case "insert", "update":
		r.Method, r.Path = "POST", "/v2/collections/"+col+"/points"
		if kind == "update" {
			r.Method = "PUT"
		}
		n := rapid.IntRange(1, 3).Draw(t, label+"-np")
		var pts []any
		for i := 0; i < n; i++ {
			pts = append(pts, validPoint(t, fmt.Sprintf("%s-p%d", label, i), kind == "update" || rapid.Bool().Draw(t, fmt.Sprintf("%s-wid%d", label, i))))
		}
		body = map[string]any{"points": pts}
		if col == "colv2" {
			targets = []targeted{
				{"indexed vector of the wrong length", func(b map[string]any) { pt(b)["vector"] = []any{1.0, 2.0, 3.0} }},
				{"indexed vector component beyond the range of a float32", func(b map[string]any) {
					big := rapid.SampledFrom([]float64{1e300, -1e39, 3.5e38, -1.7976931348623157e308}).Draw(t, label+"-f32big")
					if rapid.Bool().Draw(t, label+"-f32flat") {
						pt(b)["flat"] = []any{big, 0.0}
					} else {
						pt(b)["vector"] = []any{0.0, big}
					}
				}},
				{"indexed flat vector of length 1", func(b map[string]any) { pt(b)["flat"] = []any{1.0} }},
				{"empty indexed vector", func(b map[string]any) { pt(b)["vector"] = []any{} }},
				{"vector given as a string", func(b map[string]any) { pt(b)["vector"] = "memes" }},
				{"integer field given as a string", func(b map[string]any) { pt(b)["size"] = "12" }},
				{"float field that is not a number (a string in JSON, NaN in MessagePack)", func(b map[string]any) { pt(b)["price"] = "$NaN" }},
				{"integer field given as a fraction", func(b map[string]any) { pt(b)["size"] = 3.7 }},
				{"integer field given as a number beyond 64 bits", func(b map[string]any) { pt(b)["size"] = 1e30 }},
				{"nested integer field given as a fraction", func(b map[string]any) { pt(b)["meta"] = map[string]any{"k": -0.5} }},
				{"float field given as a string", func(b map[string]any) { pt(b)["price"] = "1.5" }},
				{"string field given as a number", func(b map[string]any) { pt(b)["category"] = 5.0 }},
				{"text field given as an array", func(b map[string]any) { pt(b)["description"] = []any{"a"} }},
				{"string array with a number", func(b map[string]any) { pt(b)["labels"] = []any{"a", 1.0} }},
				{"nested parent is not a map", func(b map[string]any) { pt(b)["meta"] = "scalar" }},
				{"_id is not a uuid", func(b map[string]any) { pt(b)["_id"] = "not-a-uuid" }},
				{"_id is a number", func(b map[string]any) { pt(b)["_id"] = 7.0 }},
				{"no points", func(b map[string]any) { b["points"] = []any{} }},
				{"a point that is null", func(b map[string]any) { b["points"] = []any{nil} }},
				{"a point that is null among others", func(b map[string]any) { b["points"] = append(b["points"].([]any), nil) }},
				{"point larger than the plan's maximum point size", func(b map[string]any) { pt(b)["blob"] = strings.Repeat("x", 600) }},
				{"point larger than the maximum point size of the request's plan SMALL (not of the plan the collection was created under)", func(b map[string]any) {
					pt(b)["blob"] = strings.Repeat("x", 200)
				}},
			}
			if kind == "update" {
				targets = append(targets, targeted{"update without _id", func(b map[string]any) { delete(pt(b), "_id") }},
					targeted{"101 points in one update", func(b map[string]any) {
						var l []any
						for i := 0; i < 101; i++ {
							l = append(l, map[string]any{"_id": poolIds[i%len(poolIds)], "x": float64(i)})
						}
						b["points"] = l
					}})
			}
		}
	case "deletePoints":
		r.Method, r.Path = "DELETE", api+"/collections/"+col+"/points"
		body = map[string]any{"ids": []any{rapid.SampledFrom(poolIds).Draw(t, label+"-d1"), rapid.SampledFrom(poolIds).Draw(t, label+"-d2")}}
		targets = []targeted{
			{"no ids", func(b map[string]any) { b["ids"] = []any{} }},
			{"invalid uuid", func(b map[string]any) { b["ids"] = []any{"zzz"} }},
			{"101 ids", func(b map[string]any) {
				var l []any
				for i := 0; i < 101; i++ {
					l = append(l, poolIds[i%len(poolIds)])
				}
				b["ids"] = l
			}},
		}
	case "search":
		r.Method, r.Path = "POST", "/v2/collections/"+col+"/points/search"
		b := map[string]any{"query": validQuery(t, label+"-q", 2), "limit": float64(rapid.IntRange(1, 100).Draw(t, label+"-lim"))}
		if rapid.Bool().Draw(t, label+"-sel") {
			b["select"] = rapid.SampledFrom([]any{[]any{"*"}, []any{"size", "price"}, []any{"meta.k", "missing"}, []any{"meta", "description"}, []any{"size.x"}, []any{"labels.1", "labels.x"}, []any{"size", "size.x"}, []any{"description.0.1"}, []any{"meta.k.z"}, []any{"", "."},
				// a value and something below it, in both orders
				[]any{"labels", "labels.0"}, []any{"labels.0", "labels"}, []any{"meta", "meta.k"}, []any{"meta.k", "meta"}, []any{"flat", "flat.1"}, []any{"size", "size.x", "size"}, []any{"description", "description.0"}}).Draw(t, label+"-selv")
			if rapid.Bool().Draw(t, label+"-sort") {
				// scalar, array, map, vector valued, nested and missing sort keys
				sortProp := rapid.SampledFrom([]string{"size", "size", "price", "labels", "meta", "flat", "vector", "description", "meta.k", "missing", "category"}).Draw(t, label+"-sortp")
				b["sort"] = []any{map[string]any{"property": sortProp, "descending": rapid.Bool().Draw(t, label+"-desc")}}
			}
		}
		if rapid.Bool().Draw(t, label+"-off") {
			b["offset"] = float64(rapid.IntRange(0, 5).Draw(t, label+"-offv"))
			if rapid.IntRange(0, 5).Draw(t, label+"-offbig") == 0 {
				// far beyond the end of any answer, up to the largest integer the field can hold (written
				// as an exact JSON number)
				b["offset"] = json.Number(rapid.SampledFrom([]string{"1000", "2147483647", "2147483648", "4294967296", "4611686018427387904", "9223372036854775707", "9223372036854775800", "9223372036854775807"}).Draw(t, label+"-offbigv"))
			}
		}
		body = b
		if col == "colv2" {
			targets = []targeted{
				{"limit 101", func(b map[string]any) { b["limit"] = 101.0 }},
				{"limit -1", func(b map[string]any) { b["limit"] = -1.0 }},
				{"negative offset", func(b map[string]any) { b["offset"] = -1.0 }},
				{"11 sort keys", func(b map[string]any) {
					var l []any
					for i := 0; i < 11; i++ {
						l = append(l, map[string]any{"property": "size"})
					}
					b["sort"] = l
					b["select"] = []any{"size"}
				}},
				{"query vector component or weight that is not a finite number (a string in JSON, NaN / infinity in MessagePack)", func(b map[string]any) {
					bad := rapid.SampledFrom([]string{"$NaN", "$Inf", "$-Inf"}).Draw(t, label+"-nfq")
					switch rapid.IntRange(0, 4).Draw(t, label+"-nfqw") {
					case 0:
						b["query"] = map[string]any{"property": "flat", "vectorFlat": map[string]any{"vector": []any{bad, 1.0}, "operator": "near", "limit": 10.0}}
					case 1:
						b["query"] = map[string]any{"property": "vector", "vectorVamana": map[string]any{"vector": []any{0.0, bad}, "operator": "near", "searchSize": 75.0, "limit": 10.0}}
					case 2:
						b["query"] = map[string]any{"property": "flat", "vectorFlat": map[string]any{"vector": []any{0.0, 1.0}, "operator": "near", "limit": 10.0, "weight": bad}}
					case 3:
						b["query"] = map[string]any{"property": "vector", "vectorVamana": map[string]any{"vector": []any{0.0, 1.0}, "operator": "near", "searchSize": 75.0, "limit": 10.0, "weight": bad}}
					default:
						b["query"] = map[string]any{"property": "description", "text": map[string]any{"value": "dress", "operator": "containsAny", "limit": 5.0, "weight": bad}}
					}
				}},
				{"float query operand that is not a number (a string in JSON, NaN in MessagePack)", func(b map[string]any) {
					op := rapid.SampledFrom([]string{"equals", "notEquals", "greaterThan", "greaterThanOrEquals", "lessThan", "lessThanOrEquals", "inRange"}).Draw(t, label+"-nanop")
					f := map[string]any{"value": "$NaN", "operator": op}
					if op == "inRange" {
						f = map[string]any{"value": 1.0, "endValue": "$NaN", "operator": op}
						if rapid.Bool().Draw(t, label+"-nanstart") {
							f = map[string]any{"value": "$NaN", "endValue": 5.0, "operator": op}
						}
					}
					b["query"] = map[string]any{"property": "price", "float": f}
				}},
				{"query vector of the wrong length (graph index)", func(b map[string]any) {
					b["query"] = map[string]any{"property": "vector", "vectorVamana": map[string]any{"vector": []any{1.0, 2.0, 3.0}, "operator": "near", "searchSize": 75.0, "limit": 10.0}}
				}},
				{"query vector of the wrong length (flat index)", func(b map[string]any) {
					b["query"] = map[string]any{"property": "flat", "vectorFlat": map[string]any{"vector": []any{1.0}, "operator": "near", "limit": 10.0}}
				}},
				{"query vector of the wrong length together with a valid pre-filter", func(b map[string]any) {
					okFilter := rapid.SampledFrom([]map[string]any{
						{"property": "size", "integer": map[string]any{"value": 1.0, "operator": "greaterThanOrEquals"}},
						{"property": "category", "string": map[string]any{"value": "a", "operator": "equals"}},
						{"property": "_or", "_or": []any{map[string]any{"property": "price", "float": map[string]any{"value": 1.0, "operator": "lessThan"}}, map[string]any{"property": "labels", "stringArray": map[string]any{"value": []any{"x"}, "operator": "containsAny"}}}},
					}).Draw(t, label+"-okfilter")
					wrong := rapid.SampledFrom([][]any{{1.0}, {1.0, 2.0, 3.0}, {}}).Draw(t, label+"-wrongvec")
					if rapid.Bool().Draw(t, label+"-wf-flat") {
						b["query"] = map[string]any{"property": "flat", "vectorFlat": map[string]any{"vector": wrong, "operator": "near", "limit": 10.0, "filter": okFilter}}
					} else {
						b["query"] = map[string]any{"property": "vector", "vectorVamana": map[string]any{"vector": wrong, "operator": "near", "searchSize": 75.0, "limit": 10.0, "filter": okFilter}}
					}
				}},
				{"query vector of the wrong length inside _and", func(b map[string]any) {
					b["query"] = map[string]any{"property": "_and", "_and": []any{map[string]any{"property": "flat", "vectorFlat": map[string]any{"vector": []any{1.0, 2.0, 3.0, 4.0}, "operator": "near", "limit": 10.0}}, map[string]any{"property": "size", "integer": map[string]any{"value": 1.0, "operator": "equals"}}}}
				}},
				{"query vector of the wrong length inside the pre-filter of a query that also carries an unused options block", func(b map[string]any) {
					badFilter := map[string]any{"property": "flat", "vectorFlat": map[string]any{"vector": []any{1.0, 2.0, 3.0, 4.0, 5.0}, "operator": "near", "limit": 10.0}}
					stray := map[string]any{"vector": []any{0.0, 1.0}, "operator": "near", "limit": 10.0}
					if rapid.Bool().Draw(t, label+"-straytext") {
						b["query"] = map[string]any{"property": "description", "text": map[string]any{"value": "ring", "operator": "containsAny", "limit": 5.0, "filter": badFilter}, "vectorFlat": stray}
					} else {
						b["query"] = map[string]any{"property": "vector", "vectorVamana": map[string]any{"vector": []any{1.0, 2.0}, "operator": "near", "searchSize": 75.0, "limit": 10.0, "filter": badFilter}, "vectorFlat": stray}
					}
				}},
				{"query vector of the wrong length inside a pre-filter", func(b map[string]any) {
					b["query"] = map[string]any{"property": "description", "text": map[string]any{"value": "ring", "operator": "containsAny", "limit": 5.0, "filter": map[string]any{"property": "flat", "vectorFlat": map[string]any{"vector": []any{1.0, 2.0, 3.0}, "operator": "near", "limit": 10.0}}}}
				}},
				{"schema-violating leaf at a random position of a query tree", func(b map[string]any) {
					leaf := rapid.SampledFrom([]map[string]any{
						{"property": "flat", "vectorFlat": map[string]any{"vector": []any{1.0, 2.0, 3.0}, "operator": "near", "limit": 10.0}},
						{"property": "vector", "vectorVamana": map[string]any{"vector": []any{1.0}, "operator": "near", "searchSize": 75.0, "limit": 10.0}},
						{"property": "colour", "string": map[string]any{"value": "red", "operator": "equals"}},
						{"property": "size", "string": map[string]any{"value": "1", "operator": "equals"}},
						{"property": "price", "integer": map[string]any{"value": 1.0, "operator": "equals"}},
					}).Draw(t, label+"-badleaf")
					// a tree of two or three levels with the bad leaf somewhere in it
					ops := []string{"_and", "_or"}
					node := leaf
					depth := rapid.IntRange(1, 3).Draw(t, label+"-baddepth")
					for d := 0; d < depth; d++ {
						op := rapid.SampledFrom(ops).Draw(t, fmt.Sprintf("%s-badop%d", label, d))
						sib := map[string]any{"property": "size", "integer": map[string]any{"value": 3.0, "operator": "equals"}}
						children := []any{sib, node}
						if rapid.Bool().Draw(t, fmt.Sprintf("%s-badpos%d", label, d)) {
							children = []any{node, sib}
						}
						node = map[string]any{"property": op, op: children}
					}
					if rapid.Bool().Draw(t, label+"-badinfilter") {
						node = map[string]any{"property": "description", "text": map[string]any{"value": "ring", "operator": "containsAny", "limit": 5.0, "filter": node}}
					}
					b["query"] = node
				}},
				{"vector limit 76", func(b map[string]any) {
					b["query"] = map[string]any{"property": "flat", "vectorFlat": map[string]any{"vector": []any{1.0, 2.0}, "operator": "near", "limit": 76.0}}
				}},
				{"searchSize below limit", func(b map[string]any) {
					b["query"] = map[string]any{"property": "vector", "vectorVamana": map[string]any{"vector": []any{1.0, 2.0}, "operator": "near", "searchSize": 25.0, "limit": 30.0}}
				}},
				{"searchSize 76", func(b map[string]any) {
					b["query"] = map[string]any{"property": "vector", "vectorVamana": map[string]any{"vector": []any{1.0, 2.0}, "operator": "near", "searchSize": 76.0, "limit": 30.0}}
				}},
				{"unknown operator", func(b map[string]any) {
					b["query"] = map[string]any{"property": "size", "integer": map[string]any{"value": 1.0, "operator": "almost"}}
				}},
				{"property that is not indexed", func(b map[string]any) {
					b["query"] = map[string]any{"property": "colour", "string": map[string]any{"value": "red", "operator": "equals"}}
				}},
				{"options of the wrong kind for the property", func(b map[string]any) {
					b["query"] = map[string]any{"property": "size", "string": map[string]any{"value": "1", "operator": "equals"}}
				}},
				{"_id with a non-uuid", func(b map[string]any) {
					b["query"] = map[string]any{"property": "_id", "string": map[string]any{"value": "nope", "operator": "equals"}}
				}},
				{"_id with a valid list and an invalid single id", func(b map[string]any) {
					b["query"] = map[string]any{"property": "_id", "stringArray": map[string]any{"value": []any{poolIds[0], poolIds[1]}, "operator": "containsAny"}, "string": map[string]any{"value": "nope", "operator": "equals"}}
				}},
				{"_id with a valid list and a single id under another operator", func(b map[string]any) {
					b["query"] = map[string]any{"property": "_id", "stringArray": map[string]any{"value": []any{poolIds[0]}, "operator": "containsAny"}, "string": map[string]any{"value": poolIds[0], "operator": "notEquals"}}
				}},
				{"_id with startsWith", func(b map[string]any) {
					b["query"] = map[string]any{"property": "_id", "string": map[string]any{"value": poolIds[0], "operator": "startsWith"}}
				}},
				{"empty _and", func(b map[string]any) { b["query"] = map[string]any{"property": "_and", "_and": []any{}} }},
				{"range with end below start", func(b map[string]any) {
					b["query"] = map[string]any{"property": "size", "integer": map[string]any{"value": 5.0, "endValue": 1.0, "operator": "inRange"}}
				}},
				{"empty text query", func(b map[string]any) {
					b["query"] = map[string]any{"property": "description", "text": map[string]any{"value": "", "operator": "containsAny", "limit": 5.0}}
				}},
				{"query without property", func(b map[string]any) { b["query"] = map[string]any{"integer": map[string]any{"value": 1.0, "operator": "equals"}} }},
			}
		}
	case "insertV1", "updateV1":
		col = "colv1"
		r.Method, r.Path = "POST", "/v1/collections/colv1/points"
		if kind == "updateV1" {
			r.Method = "PUT"
		}
		body = map[string]any{"points": []any{map[string]any{"id": rapid.SampledFrom(poolIds).Draw(t, label+"-id"), "vector": []any{1.0, float64(rapid.IntRange(-2, 2).Draw(t, label+"-v"))}, "metadata": map[string]any{"k": "v"}}}}
		targets = []targeted{
			{"v1 vector of the wrong length", func(b map[string]any) { b["points"].([]any)[0].(map[string]any)["vector"] = []any{1.0, 2.0, 3.0} }},
			{"v1 empty vector", func(b map[string]any) { b["points"].([]any)[0].(map[string]any)["vector"] = []any{} }},
			{"v1 invalid id", func(b map[string]any) { b["points"].([]any)[0].(map[string]any)["id"] = "zzz" }},
			{"v1 point larger than the maximum point size of the request's plan SMALL (not of the plan the collection was created under)", func(b map[string]any) {
				b["points"].([]any)[0].(map[string]any)["metadata"] = map[string]any{"blob": strings.Repeat("x", 200)}
			}},
		}
	case "searchV1":
		col = "colv1"
		r.Method, r.Path = "POST", "/v1/collections/colv1/points/search"
		body = map[string]any{"vector": []any{1.0, 2.0}, "limit": float64(rapid.IntRange(0, 75).Draw(t, label+"-lim"))}
		targets = []targeted{
			{"v1 query vector of the wrong length", func(b map[string]any) { b["vector"] = []any{1.0} }},
			{"v1 limit 76", func(b map[string]any) { b["limit"] = 76.0 }},
			{"v1 query vector element that is not a finite number (a string in JSON, NaN / infinity in MessagePack)", func(b map[string]any) {
				b["vector"] = []any{1.0, rapid.SampledFrom([]string{"$NaN", "$Inf", "$-Inf"}).Draw(t, label+"-v1nf")}
			}},
		}
	}
	// the targeted violations assume alice's baseline collection colv2 with its full schema
	if user != "alice" || !*intact {
		if kind == "insert" || kind == "update" || kind == "search" {
			targets = nil
		}
	}
	if user == "alice" && (kind == "deleteCol" || kind == "create") {
		*intact = false
	}
	// mutations
	if bm, ok := body.(map[string]any); ok {
		mut := rapid.IntRange(0, 5).Draw(t, label+"-mut")
		if forceTargeted {
			mut = 2
		}
		switch mut {
		case 0, 1: // valid request
		case 2, 3: // a targeted violation of the documented schema / limits
			if len(targets) > 0 {
				tg := rapid.SampledFrom(targets).Draw(t, label+"-target")
				tg.f(bm)
				r.MustReject = tg.name
				if strings.Contains(tg.name, "plan SMALL") {
					r.Headers["X-Plan-Id"] = "SMALL"
				}
				if kind == "create" || kind == "createV1" {
					// a user of its own: otherwise "collection exists" (409) or "quota reached" (403) would
					// answer the request with a 4xx although the schema violation went unnoticed
					r.Headers["X-User-Id"] = "tv" + strings.NewReplacer("-", "", ".", "").Replace(label)
				}
			}
		default: // generic field mutation (only the universal oracle applies)
			n := rapid.IntRange(1, 2).Draw(t, label+"-nmut")
			for i := 0; i < n; i++ {
				var ps [][]any
				paths(bm, nil, &ps)
				if len(ps) == 0 {
					break
				}
				p := ps[rapid.IntRange(0, len(ps)-1).Draw(t, fmt.Sprintf("%s-path%d", label, i))]
				switch rapid.IntRange(0, 4).Draw(t, fmt.Sprintf("%s-how%d", label, i)) {
				case 0:
					setPath(bm, p, nil, true) // missing field
				case 1:
					// extra field next to it
					if len(p) > 0 {
						if _, ok := p[len(p)-1].(string); ok {
							setPath(bm, append(append([]any{}, p[:len(p)-1]...), rapid.SampledFrom([]string{"extra", "_id", "_delete", "property", "limit"}).Draw(t, fmt.Sprintf("%s-xk%d", label, i))), hostile(t, fmt.Sprintf("%s-xv%d", label, i)), false)
						}
					}
				default:
					setPath(bm, p, hostile(t, fmt.Sprintf("%s-hv%d", label, i)), false)
				}
			}
		}
		jb, _ := json.Marshal(bm)
		r.Body = string(jb)
		r.Msgpack = rapid.IntRange(0, 3).Draw(t, label+"-mp") == 0
	}
	// header / body level mutations
	hm := rapid.IntRange(0, 19).Draw(t, label+"-hm")
	if forceTargeted {
		hm = 19
	}
	switch hm {
	case 0:
		delete(r.Headers, "X-User-Id")
		r.MustReject = "missing X-User-Id header"
	case 1:
		r.Headers["X-Plan-Id"] = "PLATINUM"
		r.MustReject = "unknown plan"
	case 2:
		if r.Body != "" {
			r.Headers["Content-Type"] = rapid.SampledFrom([]string{"text/plain", "", "application/json; charset=utf-8", "application/xml"}).Draw(t, label+"-ct")
			r.MustReject = "unsupported content type"
			r.Msgpack = false
		}
	case 3:
		if r.Body != "" {
			r.Body = rapid.SampledFrom([]string{"", "{", "[]", "null", "\"x\"", "{\"points\":", strings.Repeat("[", 20000), "{\"a\":1,\"a\":2}", "\x00\x01\x02", "{\"points\":[{\"_id\":\"" + poolIds[0] + "\",\"_id\":\"zz\"}]}"}).Draw(t, label+"-raw")
			r.Msgpack = false
			r.MustReject = ""
		}
	case 4:
		if r.Body != "" && strings.Contains(r.Body, "{") {
			// duplicate key: repeat the first member of the top-level object with another value
			r.Body = strings.Replace(r.Body, "{", "{\"limit\":1,\"limit\":\"x\",", 1)
			r.MustReject = ""
		}
	case 5:
		r.Path = strings.Replace(r.Path, col, rapid.SampledFrom([]string{"ab", strings.Repeat("c", 25), "Col%20v2", "..", "col v2", "%00abc", "colv2%2Fpoints"}).Draw(t, label+"-badcol"), 1)
		r.MustReject = ""
	}
	return r
}

func vam(b map[string]any) map[string]any {
	return b["indexSchema"].(map[string]any)["vector"].(map[string]any)["vectorVamana"].(map[string]any)
}

func pt(b map[string]any) map[string]any {
	l, _ := b["points"].([]any)
	if len(l) == 0 {
		m := map[string]any{}
		b["points"] = []any{m}
		return m
	}
	return l[len(l)-1].(map[string]any)
}

// forceTargeted makes genReq produce a targeted violation on the intact baseline collections (set by
// the generator of the "targeted" job only; rapid runs its generators on one goroutine).
var forceTargeted bool

// genTargeted: zero to two ordinary requests, then one request that carries a targeted violation of the
// documented schema or limits, drawn evenly from all of them.
func genTargeted(t *rapid.T) Case {
	var c Case
	intact := true
	n := rapid.IntRange(0, 2).Draw(t, "npre")
	for i := 0; i < n; i++ {
		r := genReq(t, fmt.Sprintf("p%d", i), &intact)
		if r.Method == "DELETE" && !strings.Contains(r.Path, "/points") || r.Headers["X-User-Id"] == "alice" && r.Method == "POST" && strings.HasSuffix(r.Path, "/collections") {
			continue // keeps the baseline collections as they are
		}
		c.Reqs = append(c.Reqs, r)
	}
	forceTargeted = true
	defer func() { forceTargeted = false }()
	c.Reqs = append(c.Reqs, genReq(t, "tv", &intact))
	return c
}

var nestedUsers = []string{"alice/sub1", "alice/sub1/00000000-0000-4000-8000-00000000beef"}

func genCase(t *rapid.T) Case {
	n := rapid.IntRange(1, 4).Draw(t, "nreq")
	var c Case
	intact := true
	if rapid.IntRange(0, 7).Draw(t, "v1-on-v2") == 0 {
		// a collection created through v2 without the v1 vector index, then used through the v1 API
		sch := fullSchema()
		delete(sch, "vector")
		switch rapid.IntRange(0, 2).Draw(t, "v1-on-v2-kind") {
		case 1:
			// "vector" is a flat index; a vectorVamana section of another dimension is left next to it (only
			// the section named by the type is validated and used)
			sch["vector"] = map[string]any{"type": "vectorFlat", "vectorFlat": map[string]any{"vectorSize": 2.0, "distanceMetric": "euclidean"},
				"vectorVamana": map[string]any{"vectorSize": float64(rapid.SampledFrom([]int{1, 3}).Draw(t, "strayDim")), "distanceMetric": "euclidean", "searchSize": 75.0, "degreeBound": 64.0, "alpha": 1.2}}
		case 2:
			sch["vector"] = map[string]any{"type": "string", "string": map[string]any{"caseSensitive": true},
				"vectorVamana": map[string]any{"vectorSize": 2.0, "distanceMetric": "euclidean", "searchSize": 75.0, "degreeBound": 64.0, "alpha": 1.2}}
		}
		jb, _ := json.Marshal(map[string]any{"id": "new1", "indexSchema": sch})
		hd := map[string]string{"Content-Type": "application/json", "X-User-Id": "alice", "X-Plan-Id": plan}
		c.Reqs = append(c.Reqs, Req{Method: "POST", Path: "/v2/collections", Headers: hd, Body: string(jb)})
		if flat, ok := sch["vector"].(map[string]any); ok && flat["type"] == "vectorFlat" {
			// the flat index has dimension 2, whatever the left-over section says: vectors of that length are
			// accepted through v2, vectors of the left-over section's length are not
			stray := int(flat["vectorVamana"].(map[string]any)["vectorSize"].(float64))
			wrong := `[1]`
			if stray == 3 {
				wrong = `[1,2,3]`
			}
			c.Reqs = append(c.Reqs,
				Req{Method: "POST", Path: "/v2/collections/new1/points", Headers: hd, Body: `{"points":[{"vector":` + wrong + `}]}`, MustReject: "vector of the length of a left-over section, not of the index"},
				Req{Method: "POST", Path: "/v2/collections/new1/points/search", Headers: hd, Body: `{"query":{"property":"vector","vectorFlat":{"vector":[1,2],"operator":"near","limit":5}},"limit":5}`})
		}
		switch rapid.IntRange(0, 4).Draw(t, "v1-on-v2-op") {
		case 0:
			c.Reqs = append(c.Reqs, Req{Method: "GET", Path: "/v1/collections", Headers: hd})
		case 1:
			c.Reqs = append(c.Reqs, Req{Method: "GET", Path: "/v1/collections/new1", Headers: hd})
		case 2:
			c.Reqs = append(c.Reqs, Req{Method: "POST", Path: "/v1/collections/new1/points/search", Headers: hd, Body: `{"vector":[1,2],"limit":3}`, MustReject: "v1 request on a collection without the v1 graph index"})
		case 3:
			vec := rapid.SampledFrom([]string{"[1,2]", "[1]", "[1,2,3]"}).Draw(t, "v1-on-v2-vec")
			c.Reqs = append(c.Reqs, Req{Method: "POST", Path: "/v1/collections/new1/points", Headers: hd, Body: `{"points":[{"vector":` + vec + `}]}`, MustReject: "v1 request on a collection without the v1 graph index"},
				Req{Method: "POST", Path: "/v1/collections/new1/points/search", Headers: hd, Body: `{"vector":` + vec + `,"limit":3}`, MustReject: "v1 request on a collection without the v1 graph index"})
		default:
			c.Reqs = append(c.Reqs, Req{Method: "DELETE", Path: "/v1/collections/new1/points", Headers: hd, Body: `{"ids":["` + poolIds[0] + `"]}`, MustReject: "v1 request on a collection without the v1 graph index"})
		}
		intact = false
	}
	if rapid.IntRange(0, 7).Draw(t, "v1-metadata-index") == 0 {
		// a collection with the v1 graph index and, created through v2, further indexes on metadata fields;
		// the v1 API writes to it: metadata values have to fit those indexes as they do through v2
		hd := map[string]string{"Content-Type": "application/json", "X-User-Id": "alice", "X-Plan-Id": plan}
		sch := map[string]any{
			"vector":       map[string]any{"type": "vectorVamana", "vectorVamana": map[string]any{"vectorSize": 2.0, "distanceMetric": "euclidean", "searchSize": 75.0, "degreeBound": 64.0, "alpha": 1.2}},
			"metadata.loc": map[string]any{"type": "vectorFlat", "vectorFlat": map[string]any{"vectorSize": 2.0, "distanceMetric": rapid.SampledFrom([]string{"haversine", "euclidean", "dot"}).Draw(t, "v1m-metric")}},
			"metadata.k":   map[string]any{"type": "integer"},
		}
		jb, _ := json.Marshal(map[string]any{"id": "mix2", "indexSchema": sch})
		c.Reqs = append(c.Reqs, Req{Method: "POST", Path: "/v2/collections", Headers: hd, Body: string(jb)})
		bad := rapid.SampledFrom([]string{`{"loc":[1]}`, `{"loc":[1,2,3]}`, `{"loc":"north"}`, `{"k":"seven"}`, `{"k":2.5}`, `{"loc":[]}`}).Draw(t, "v1m-bad")
		c.Reqs = append(c.Reqs,
			Req{Method: "POST", Path: "/v1/collections/mix2/points", Headers: hd, Body: `{"points":[{"vector":[1,2],"metadata":{"loc":[10,20],"k":3}}]}`},
			Req{Method: "POST", Path: "/v1/collections/mix2/points", Headers: hd, Body: `{"points":[{"vector":[2,1],"metadata":` + bad + `}]}`, MustReject: "v1 insert whose metadata does not fit the collection's indexes"},
			Req{Method: "POST", Path: "/v2/collections/mix2/points/search", Headers: hd, Body: `{"query":{"property":"metadata.loc","vectorFlat":{"vector":[11,21],"operator":"near","limit":5}},"limit":5}`},
			Req{Method: "POST", Path: "/v2/collections/mix2/points/search", Headers: hd, Body: `{"query":{"property":"metadata.k","integer":{"value":0,"operator":"greaterThan"}},"limit":5}`})
		intact = false
	}
	if rapid.IntRange(0, 7).Draw(t, "path-user") == 0 {
		// a user id that reads like a path: the id names the directory of the user's shards and the prefix of
		// its records. Whatever the server makes of such an id (refuse it, or serve it as a user of its own),
		// its requests address its own collections only: alice's and bob's data stay as they are
		user := rapid.SampledFrom([]string{"x/..", "alice/.", "./alice", "alice/../alice", "alice//", "../userCollections/alice", "bob/..", "alice/", "x/../alice", "x/./..", "..x", "a..b/.."}).Draw(t, "pu-user")
		col := rapid.SampledFrom([]string{"alice", "colv2", "colv1", "bob", "other"}).Draw(t, "pu-col")
		hd := map[string]string{"Content-Type": "application/json", "X-User-Id": user, "X-Plan-Id": plan}
		jb, _ := json.Marshal(map[string]any{"id": col, "indexSchema": map[string]any{"size": map[string]any{"type": "integer"}}})
		c.Reqs = append(c.Reqs,
			Req{Method: "POST", Path: "/v2/collections", Headers: hd, Body: string(jb)},
			Req{Method: "POST", Path: "/v2/collections/" + col + "/points", Headers: hd, Body: `{"points":[{"size":1}]}`})
		if rapid.Bool().Draw(t, "pu-search") {
			c.Reqs = append(c.Reqs, Req{Method: "POST", Path: "/v2/collections/" + col + "/points/search", Headers: hd, Body: `{"query":{"property":"size","integer":{"value":0,"operator":"greaterThan"}},"limit":5}`})
		}
		c.Reqs = append(c.Reqs, Req{Method: "DELETE", Path: "/v2/collections/" + col, Headers: hd})
		intact = false
	}
	if rapid.IntRange(0, 9).Draw(t, "list-path") == 0 {
		// an index on a path with a numeric element ("emb.0"): where the document holds a list at that place the
		// point does not fit the index, whatever the list holds
		hd := map[string]string{"Content-Type": "application/json", "X-User-Id": "bob", "X-Plan-Id": plan}
		jb, _ := json.Marshal(map[string]any{"id": "lst1", "indexSchema": map[string]any{"emb.0": map[string]any{"type": "vectorFlat", "vectorFlat": map[string]any{"vectorSize": 2.0, "distanceMetric": "euclidean"}}}})
		c.Reqs = append(c.Reqs, Req{Method: "POST", Path: "/v2/collections", Headers: hd, Body: string(jb)},
			Req{Method: "POST", Path: "/v2/collections/lst1/points", Headers: hd, Body: `{"points":[{"emb":[[1,2,3,4,5]]}]}`, Msgpack: rapid.Bool().Draw(t, "lp-msgpack"), MustReject: "a list where an indexed path expects a map"},
			Req{Method: "POST", Path: "/v2/collections/lst1/points/search", Headers: hd, Body: `{"query":{"property":"emb.0","vectorFlat":{"vector":[1,2],"operator":"near","limit":5}},"limit":5}`})
		intact = false
	}
	if rapid.IntRange(0, 7).Draw(t, "nested-tenant") == 0 {
		// a tenant whose id continues another tenant's id below a slash ("alice/sub1" beside "alice"): its
		// shard directories lie below the directory that the shorter id's collection "sub1" would use.
		// Whatever alice does with a collection of that name addresses alice/sub1 (her collection), never
		// the collections of the user alice/sub1
		hdA := map[string]string{"Content-Type": "application/json", "X-User-Id": "alice", "X-Plan-Id": plan}
		nested := rapid.SampledFrom(nestedUsers).Draw(t, "nt-user") // (a further element may read like a shard id)
		hdN := map[string]string{"Content-Type": "application/json", "X-User-Id": nested, "X-Plan-Id": plan}
		mk := func(id string) string {
			jb, _ := json.Marshal(map[string]any{"id": id, "indexSchema": map[string]any{"size": map[string]any{"type": "integer"}}})
			return string(jb)
		}
		var seq []Req
		if rapid.IntRange(0, 3).Draw(t, "nt-alice-first") > 0 {
			seq = append(seq, Req{Method: "POST", Path: "/v2/collections", Headers: hdA, Body: mk("sub1")})
		}
		seq = append(seq,
			Req{Method: "POST", Path: "/v2/collections", Headers: hdN, Body: mk("kept1")},
			Req{Method: "POST", Path: "/v2/collections/kept1/points", Headers: hdN, Body: `{"points":[{"_id":"` + poolIds[0] + `","size":7}]}`},
			Req{Method: "POST", Path: "/v2/collections", Headers: hdA, Body: mk("sub1")})
		if rapid.IntRange(0, 3).Draw(t, "nt-insert") > 0 {
			seq = append(seq, Req{Method: "POST", Path: "/v2/collections/sub1/points", Headers: hdA, Body: `{"points":[{"size":1}]}`})
		}
		if nested == "alice/sub1" && rapid.IntRange(0, 2).Draw(t, "nt-encoded") == 0 {
			// the collection of the other user, named by alice with an encoded slash in the collection segment
			api := rapid.SampledFrom([]string{"/v1", "/v2"}).Draw(t, "nt-enc-api")
			const why = "collection id with an encoded slash"
			seq = append(seq, Req{Method: "GET", Path: api + "/collections/sub1%2Fkept1", Headers: hdA, MustReject: why},
				Req{Method: "POST", Path: "/v2/collections/sub1%2Fkept1/points/search", Headers: hdA, Body: `{"query":{"property":"size","integer":{"value":0,"operator":"greaterThan"}},"limit":5}`, MustReject: why},
				Req{Method: "DELETE", Path: api + "/collections/sub1%2Fkept1", Headers: hdA, MustReject: why})
		}
		seq = append(seq, Req{Method: "DELETE", Path: "/v2/collections/sub1", Headers: hdA})
		c.Reqs = append(c.Reqs, seq...)
		intact = false
	}
	var selecting []Req
	if rapid.IntRange(0, 7).Draw(t, "nonfinite-field") == 0 {
		// a valid write in MessagePack that carries a non-finite number outside the indexed vectors (such a
		// number enters no distance), and at the end of the case searches that select the field: answers
		// are JSON, whatever was stored has to be answered without a 5xx (or must not have been accepted)
		hd := map[string]string{"Content-Type": "application/json", "X-User-Id": "alice", "X-Plan-Id": plan}
		val := rapid.SampledFrom([]any{"$NaN", "$Inf", "$-Inf", []any{1.0, "$NaN"}, map[string]any{"ratio": "$Inf"}}).Draw(t, "nf-val")
		where := rapid.SampledFrom([]string{"extra", "meta.other", "reading"}).Draw(t, "nf-where")
		pt := map[string]any{"vector": []any{1.0, 2.0}, "flat": []any{0.0, 0.5}, "size": 4.0}
		if where == "meta.other" {
			pt["meta"] = map[string]any{"k": 2.0, "other": val}
		} else {
			pt[where] = val
		}
		switch rapid.IntRange(0, 2).Draw(t, "nf-how") {
		case 0: // insert of a new point
			jb, _ := json.Marshal(map[string]any{"points": []any{pt}})
			c.Reqs = append(c.Reqs, Req{Method: "POST", Path: "/v2/collections/colv2/points", Headers: hd, Body: string(jb), Msgpack: true})
		case 1: // update of a stored point
			pt["_id"] = rapid.SampledFrom(poolIds[:2]).Draw(t, "nf-id")
			jb, _ := json.Marshal(map[string]any{"points": []any{pt}})
			c.Reqs = append(c.Reqs, Req{Method: "PUT", Path: "/v2/collections/colv2/points", Headers: hd, Body: string(jb), Msgpack: true})
		default: // through the v1 API: metadata
			jb, _ := json.Marshal(map[string]any{"points": []any{map[string]any{"vector": []any{1.0, 2.0}, "metadata": map[string]any{"reading": val}}}})
			c.Reqs = append(c.Reqs, Req{Method: "POST", Path: "/v1/collections/colv1/points", Headers: hd, Body: string(jb), Msgpack: true})
			selecting = append(selecting, Req{Method: "POST", Path: "/v1/collections/colv1/points/search", Headers: hd, Body: `{"vector":[1,2],"limit":10}`})
		}
		selecting = append(selecting,
			Req{Method: "POST", Path: "/v2/collections/colv2/points/search", Headers: hd, Body: `{"query":{"property":"size","integer":{"value":-100,"operator":"greaterThan"}},"select":["*"],"limit":50}`},
			Req{Method: "POST", Path: "/v2/collections/colv2/points/search", Headers: hd, Body: `{"query":{"property":"flat","vectorFlat":{"vector":[0,0.5],"operator":"near","limit":10}},"select":["extra","meta","reading"],"limit":10}`})
		intact = false
	}
	for i := 0; i < n; i++ {
		c.Reqs = append(c.Reqs, genReq(t, fmt.Sprintf("r%d", i), &intact))
	}
	c.Reqs = append(c.Reqs, selecting...)
	if rapid.IntRange(0, 7).Draw(t, "secured") == 0 {
		// a deployment behind a proxy: every request has to carry the proxy secret; one in three does not
		c.ProxySecret = "s3cret-of-the-proxy"
		for i := range c.Reqs {
			hd := map[string]string{}
			for k, v := range c.Reqs[i].Headers {
				hd[k] = v
			}
			switch rapid.IntRange(0, 5).Draw(t, fmt.Sprintf("secret%d", i)) {
			case 0:
				c.Reqs[i].MustReject = "missing proxy secret"
			case 1:
				hd["X-Proxy-Secret"] = rapid.SampledFrom([]string{"", "s3cret", "s3cret-of-the-proxY", "S3CRET-OF-THE-PROXY", "*"}).Draw(t, fmt.Sprintf("wrongSecret%d", i))
				c.Reqs[i].MustReject = "wrong proxy secret"
			default:
				hd["X-Proxy-Secret"] = c.ProxySecret
			}
			c.Reqs[i].Headers = hd
		}
	}
	return c
}

// ---------------------------------------------------------------------------

// expand turns the "$NaN" / "$Inf" markers into real floats (MessagePack only).
func expand(v any) any {
	switch x := v.(type) {
	case string:
		switch x {
		case "$NaN":
			return math.NaN()
		case "$Inf":
			return math.Inf(1)
		case "$-Inf":
			return math.Inf(-1)
		}
	case []any:
		for i := range x {
			x[i] = expand(x[i])
		}
	case map[string]any:
		for k := range x {
			x[k] = expand(x[k])
		}
	}
	return v
}

// intKeys are the request fields that the API decodes into integers: a MessagePack decoder does not take a
// floating point number for them, so the whole numbers of the JSON form are sent as integers (everything
// else keeps the type the JSON decoder gave it).
var intKeys = map[string]bool{"limit": true, "offset": true, "searchSize": true, "vectorSize": true, "degreeBound": true, "triggerThreshold": true, "numCentroids": true, "numSubVectors": true}

// v1Vectors: the body goes to the v1 API, whose request types hold every vector as 32 bit floats
var v1Vectors bool

func intFields(v any, under string) any {
	switch x := v.(type) {
	case map[string]any:
		for k, e := range x {
			if f, ok := e.(float64); ok && f == math.Trunc(f) && math.Abs(f) < 1<<53 && (intKeys[k] || (under == "integer" && (k == "value" || k == "endValue"))) {
				x[k] = int64(f)
				continue
			}
			if f, ok := e.(float64); ok && (k == "alpha" || k == "threshold") {
				x[k] = float32(f) // (32 bit floats in the schema types)
				continue
			}
			// query vectors and weights are 32 bit floats in the request types: the decoder takes nothing wider
			if under == "vectorFlat" || under == "vectorVamana" || under == "text" || (v1Vectors && k == "vector") {
				if f, ok := e.(float64); ok && (k == "weight") {
					x[k] = float32(f)
					continue
				}
				if l, ok := e.([]any); ok && k == "vector" {
					for i := range l {
						if f, ok := l[i].(float64); ok {
							l[i] = float32(f)
						}
					}
					continue
				}
			}
			x[k] = intFields(e, k)
		}
	case []any:
		for i := range x {
			x[i] = intFields(x[i], under)
		}
	}
	return v
}

func (r Req) build() (*http.Request, error) {
	body := []byte(r.Body)
	headers := map[string]string{}
	for k, v := range r.Headers {
		headers[k] = v
	}
	if r.Msgpack {
		var tree any
		if err := json.Unmarshal(body, &tree); err == nil {
			v1Vectors = strings.HasPrefix(r.Path, "/v1/")
			mb, err := msgpack.Marshal(intFields(expand(tree), ""))
			if err == nil {
				body = mb
				headers["Content-Type"] = "application/msgpack"
			}
		}
	}
	req, err := http.NewRequest(r.Method, "http://semadb.test"+r.Path, bytes.NewReader(body))
	if err != nil {
		return nil, err
	}
	for k, v := range headers {
		req.Header[http.CanonicalHeaderKey(k)] = []string{v}
	}
	req.RemoteAddr = "10.0.0.1:1234"
	return req, nil
}

type server struct {
	node *cluster.ClusterNode
	h    http.Handler
}

func newServer(dir string, proxySecret string) (*server, error) {
	me := drive.NodeSpec{Host: "127.0.1.1", Port: 1}
	node, err := drive.NewClusterNode(filepath.Join(dir, "node"), me, []string{me.Name()}, drive.ClusterOpts{ShardTimeout: 5, MaxShardPointCount: 1000}, false)
	if err != nil {
		return nil, err
	}
	// two plans: collections are created under BASIC; a request names its own plan, whose limits apply
	plans := map[string]models.UserPlan{plan: {Name: plan, MaxCollections: 3, MaxCollectionPointCount: 12, MaxPointSize: 500},
		"SMALL": {Name: "SMALL", MaxCollections: 3, MaxCollectionPointCount: 12, MaxPointSize: 150}}
	s := &server{node: node, h: drive.SecuredRouter(node, plans, proxySecret)}
	// baseline population through the API itself
	hd := drive.JSONHeaders("alice", plan)
	if proxySecret != "" {
		hd["X-Proxy-Secret"] = proxySecret
	}
	if r := drive.Call(s.h, "POST", "/v2/collections", hd, map[string]any{"id": "colv2", "indexSchema": fullSchema()}); r.Status != 200 {
		return nil, fmt.Errorf("baseline create: %d %s", r.Status, r.Body)
	}
	if r := drive.Call(s.h, "POST", "/v1/collections", hd, map[string]any{"id": "colv1", "vectorSize": 2, "distanceMetric": "euclidean"}); r.Status != 200 {
		return nil, fmt.Errorf("baseline create v1: %d %s", r.Status, r.Body)
	}
	pts := []map[string]any{
		{"_id": poolIds[0], "vector": []float32{1, 2}, "flat": []float32{0, 1}, "description": "a summer dress", "category": "Shoe", "labels": []string{"x", "y"}, "size": 10, "price": 2.5, "meta": map[string]any{"k": 3}},
		{"_id": poolIds[1], "vector": []float32{-1, 0}, "flat": []float32{2, 2}, "description": "the ring", "size": 3},
		{"_id": poolIds[2], "category": "b", "price": -1.0},
	}
	if r := drive.Call(s.h, "POST", "/v2/collections/colv2/points", hd, map[string]any{"points": pts}); r.Status != 200 || !strings.Contains(string(r.Body), "success") || strings.Contains(string(r.Body), "partial") {
		return nil, fmt.Errorf("baseline insert: %d %s", r.Status, r.Body)
	}
	if r := drive.Call(s.h, "POST", "/v1/collections/colv1/points", hd, map[string]any{"points": []map[string]any{{"id": poolIds[0], "vector": []float32{1, 1}, "metadata": "m"}}}); r.Status != 200 {
		return nil, fmt.Errorf("baseline insert v1: %d %s", r.Status, r.Body)
	}
	return s, nil
}

// digest reads everything stored (through the cluster API, not through HTTP).
func (s *server) digest() (string, error) {
	d, _, err := s.digestByKey()
	return d, err
}

// digestByKey is digest plus the same text split by "user/collection".
func (s *server) digestByKey() (string, map[string]string, error) {
	all, byKey, err := s.digestInner()
	if err != nil {
		return "", nil, err
	}
	m := map[string]string{}
	for i, k := range byKey {
		m[k] += all[i] + "\n"
	}
	return strings.Join(all, "\n"), m, nil
}

func (s *server) digestInner() (parts []string, keys []string, err error) {
	add := func(key, line string) { parts = append(parts, line); keys = append(keys, key) }
	for _, u := range append([]string{"alice", "bob"}, nestedUsers...) {
		cols, err := s.node.ListCollections(u)
		if err != nil {
			return nil, nil, err
		}
		sort.Slice(cols, func(i, j int) bool { return cols[i].Id < cols[j].Id })
		for _, col := range cols {
			if col.UserId != u {
				// the listing of a user id also returns the collections of ids that continue it below a
				// slash; they are read under their own user id
				continue
			}
			key := u + "/" + col.Id
			col.UserPlan = models.UserPlan{MaxCollectionPointCount: 1000, MaxPointSize: 1 << 20}
			infos, err := s.node.GetShardsInfo(col)
			if err != nil {
				return nil, nil, err
			}
			schemaJSON, _ := json.Marshal(col.IndexSchema)
			add(key, fmt.Sprintf("%s/%s shards=%d info=%v schema=%s", u, col.Id, len(col.ShardIds), infos, schemaJSON))
			if len(col.ShardIds) == 0 {
				continue
			}
			vals := append([]string{}, poolIds...)
			rows, err := s.node.SearchPoints(col, models.SearchRequest{Query: models.Query{Property: "_id", StringArray: &models.SearchStringArrayOptions{Value: vals, Operator: models.OperatorContainsAny}}, Select: []string{"*"}, Limit: 100})
			if err != nil {
				return nil, nil, fmt.Errorf("reading %s/%s: %v", u, col.Id, err)
			}
			var docs []string
			for _, r := range rows {
				docs = append(docs, fmt.Sprintf("%s=%x", r.Point.Id, r.Point.Data))
			}
			sort.Strings(docs)
			for _, d := range docs {
				add(key, d)
			}
		}
	}
	return parts, keys, nil
}

// addressed names the "user/collection" a request speaks about ("" when it names none).
func addressed(r Req) string {
	user := r.Headers["X-User-Id"]
	p := strings.SplitN(strings.TrimPrefix(strings.TrimPrefix(r.Path, "/v1/"), "/v2/"), "?", 2)[0]
	segs := strings.Split(p, "/")
	if len(segs) >= 2 && segs[0] == "collections" && segs[1] != "" {
		return user + "/" + segs[1]
	}
	if len(segs) >= 1 && segs[0] == "collections" && r.Method == "POST" {
		var b map[string]any
		if json.Unmarshal([]byte(r.Body), &b) == nil {
			if id, ok := b["id"].(string); ok {
				return user + "/" + id
			}
		}
	}
	return ""
}

// hugeIn reports whether a JSON tree holds a number that can push a distance or a score out of the finite
// range (magnitude from 1e15, or one of the non-finite markers a MessagePack body expands), anywhere
// (under == "") or below a key of one of the given names.
func hugeIn(v any, inside bool, under map[string]bool) bool {
	switch x := v.(type) {
	case float64:
		return inside && (math.Abs(x) >= 1e15 || math.IsNaN(x))
	case json.Number:
		f, err := x.Float64()
		return inside && (err != nil || math.Abs(f) >= 1e15)
	case string:
		return inside && (x == "$NaN" || x == "$Inf" || x == "$-Inf")
	case []any:
		for _, e := range x {
			if hugeIn(e, inside, under) {
				return true
			}
		}
	case map[string]any:
		for k, e := range x {
			if hugeIn(e, inside || under[k], under) {
				return true
			}
		}
	}
	return false
}

var vectorKeys = map[string]bool{"vector": true, "flat": true}

var nonFinite = regexp.MustCompile(`json: unsupported value: (\+Inf|-Inf|NaN)`)
var reUUID = regexp.MustCompile(`[0-9a-f]{8}-[0-9a-f]{4}-[0-9a-f]{4}-[0-9a-f]{4}-[0-9a-f]{12}`)
var reNum = regexp.MustCompile(`[0-9]+`)

// known 5xx sources (catalogued defects that are recorded but not repaired): id -> pattern on
// "<METHOD> <route> <body of the response>". Empty: every 5xx source found so far was repaired
// (see known_findings.json), so any 5xx is a violation.
var catalogue = []struct {
	id string
	re *regexp.Regexp
}{}

func route(path string) string {
	p := reUUID.ReplaceAllString(path, "{uuid}")
	for _, c := range []string{"colv2", "colv1", "nocol", "new1", "new2"} {
		p = strings.Replace(p, "/"+c, "/{col}", 1)
	}
	return p
}

func execCase(c Case) (res vt.Result) {
	rec := vt.R()
	dir, cleanup := drive.CaseDir()
	defer cleanup()
	s, err := newServer(dir, c.ProxySecret)
	if err != nil {
		return vt.Result{Err: err}
	}
	if c.ProxySecret != "" {
		rec.Count("cases_behind_a_proxy_secret", 1)
	}
	defer func() {
		s.node.VerifShardManager().VerifUnloadAll()
		s.node.Close()
	}()
	before, beforeBy, err := s.digestByKey()
	if err != nil {
		return vt.Result{Err: fmt.Errorf("digest: %v", err)}
	}
	nontrivial := false
	// vectorTaint: a write that was accepted carried a huge or non-finite component in an indexed vector
	// (later distances may leave the finite range)
	vectorTaint := false
	for i, r := range c.Reqs {
		var tree any
		reqHuge, vecHuge := true, true // a body that is no JSON tree is not judged on this point
		if json.Unmarshal([]byte(r.Body), &tree) == nil {
			reqHuge, vecHuge = hugeIn(tree, true, nil), hugeIn(tree, false, vectorKeys)
		} else if r.Body == "" {
			reqHuge, vecHuge = false, false
		}
		fail := func(f string, a ...any) vt.Result {
			body := r.Body
			if len(body) > 600 {
				body = body[:600] + "…"
			}
			res.Err = fmt.Errorf("request %d %s %s (user %q, msgpack=%v, must-reject=%q) body %s: %s", i, r.Method, r.Path, r.Headers["X-User-Id"], r.Msgpack, r.MustReject, body, fmt.Sprintf(f, a...))
			return res
		}
		req, err := r.build()
		if err != nil {
			// not a well-formed HTTP request line: the server's HTTP library rejects it before any handler runs
			rec.Count("unbuildable_requests", 1)
			continue
		}
		w := httptest.NewRecorder()
		s.h.ServeHTTP(w, req)
		status := w.Code
		rec.Count(fmt.Sprintf("status_%dxx", status/100), 1)
		if os.Getenv("VERIF_DEBUG") != "" {
			fmt.Printf("DEBUG %d %s %s -> %d %.300s\n", i, r.Method, r.Path, status, w.Body.String())
		}
		if r.Method == "DELETE" && status/100 == 2 {
			// files removed under a loaded shard keep answering until the shard is unloaded
			s.node.VerifShardManager().VerifUnloadAll()
		}
		after, afterBy, derr := s.digestByKey()
		if derr != nil {
			return fail("after the request (status %d) stored data cannot be read any more: %v", status, derr)
		}
		// whatever the answer, only the collection the request addresses may have changed
		if after != before {
			addr := addressed(r)
			for _, m := range []map[string]string{beforeBy, afterBy} {
				for k := range m {
					if k != addr && beforeBy[k] != afterBy[k] {
						return fail("answered %d and altered stored data it does not address (it addresses %q):\n--- %s before\n%s--- after\n%s", status, addr, k, beforeBy[k], afterBy[k])
					}
				}
			}
			rec.Count("changes_confined_to_the_addressed_collection", 1)
		}
		beforeBy = afterBy
		if status/100 == 2 && vecHuge && r.Method != "GET" && r.Method != "DELETE" {
			vectorTaint = true
		}
		if status/100 == 2 && r.Msgpack && !vecHuge && strings.Contains(r.Body, `"$`) && strings.HasSuffix(r.Path, "/points") && (strings.Contains(w.Body.String(), `"failedRanges":[]`) || strings.Contains(w.Body.String(), `"failedPoints":[]`)) {
			rec.Count("accepted_writes_with_a_non_finite_number_outside_the_indexed_vectors", 1)
		}
		if status == 500 && nonFinite.MatchString(w.Body.String()) && (reqHuge || vectorTaint) && r.MustReject == "" {
			// a request that passed validation but whose distances / scores overflowed: the property judges
			// valid requests only when their distances stay finite. That is only possible when the request
			// itself, or an indexed vector stored before, holds a huge or non-finite number: a non-finite
			// number in any other stored field does not enter a distance, and a search that is answered 500
			// because of it is judged like any other
			rec.Count("unjudged_nonfinite_result", 1)
			if after != before && (r.Method == "POST" && strings.HasSuffix(r.Path, "/search")) {
				return fail("a search changed stored data")
			}
			before = after
			continue
		}
		if status >= 500 && status != 503 {
			sig := r.Method + " " + route(r.Path) + " " + w.Body.String()
			known := ""
			for _, k := range catalogue {
				if k.re.MatchString(sig) {
					known = k.id
				}
			}
			if known == "" {
				return fail("answered %d: %s", status, strings.TrimSpace(w.Body.String()))
			}
			rec.Known(known, "5xx: "+known, fmt.Sprintf("%s %s -> %d %s", r.Method, route(r.Path), status, strings.TrimSpace(w.Body.String())))
			if after != before {
				return fail("answered %d and changed stored data", status)
			}
			continue
		}
		if status >= 400 && status < 500 && after != before {
			return fail("refused with %d but stored data changed:\n--- before\n%s\n--- after\n%s", status, before, after)
		}
		if r.MustReject != "" {
			rec.Count("must_reject: "+r.MustReject, 1)
		}
		if r.MustReject != "" && (status < 400 || status >= 500) {
			return fail("violates the documented schema (%s) but was answered %d %s", r.MustReject, status, strings.TrimSpace(w.Body.String()))
		}
		if r.MustReject != "" {
			nontrivial = true
			rec.Count("schema_violations_refused", 1)
		}
		if status/100 == 2 && after != before {
			rec.Count("accepted_writes", 1)
		}
		before = after
	}
	res.NonTrivial = nontrivial
	return res
}

func TestPropRequests(t *testing.T)   { vt.Check(t, "requests", genCase, execCase) }
func TestReplayRequests(t *testing.T) { vt.Replay(t, "requests", execCase) }

// the targeted violations, evenly
func TestPropTargeted(t *testing.T)   { vt.Check(t, "targeted", genTargeted, execCase) }
func TestReplayTargeted(t *testing.T) { vt.Replay(t, "targeted", execCase) }

// FuzzRequests drives the same grammar and oracle with Go's native
// coverage-guided fuzzer (the byte input is rapid's source of randomness), used
// by the thorough tier under a wall-clock budget.
func FuzzRequests(f *testing.F) {
	f.Fuzz(rapid.MakeFuzz(func(t *rapid.T) {
		c := genCase(t)
		res := execCase(c)
		if res.Err != nil {
			p := vt.WriteReplay("requests", c, res.Err)
			t.Fatalf("VERIF-FUZZ-VIOLATION replay=%s: %v", p, res.Err)
		}
	}))
}
