package c03

import (
	"fmt"
	"testing"

	"github.com/semafind/semadb/models"
	"github.com/semafind/semadb/shard/cache"
	"pgregory.net/rapid"
	"verif/drive"
	"verif/gen"
	"verif/model"
	"verif/oracle"
	"verif/run"
	"verif/vt"
)

func TestMain(m *testing.M) {
	gen.HugeVectors = true
	vt.OnExit(drive.Cleanup)
	vt.Main(m, "C03")
}

type Case struct {
	H       gen.History         `json:"history"`
	Queries [][]oracle.VecQuery `json:"queries"`
}

func genCase(t *rapid.T) Case {
	so := gen.SchemaOpts{Filters: rapid.IntRange(0, 2).Draw(t, "withFilters") > 0, Vamana: true, MaxDim: rapid.SampledFrom([]int{2, 6, 16, 70}).Draw(t, "maxDim"), Quantizer: true}
	schema := gen.Schema(t, so)
	// three shapes: small insert-only (exactness regime a), general small, larger
	shape := rapid.IntRange(0, 2).Draw(t, "shape")
	ho := gen.HistoryOpts{MaxSteps: 8, MaxBatch: 12, PoolSize: 24, Reopen: true, Evict: true, FieldProb: rapid.SampledFrom([]int{35, 70, 90, 100}).Draw(t, "fieldProb"),
		AllowRejected: rapid.IntRange(0, 5).Draw(t, "allowRejected") == 0}
	// the same id more than once in one update batch (merged in order; the indices must see the net change)
	ho.AllowDupUpdate = rapid.IntRange(0, 3).Draw(t, "dupUpdate") == 0
	if shape == 2 {
		ho.PoolSize, ho.MaxBatch = 90, 60
	}
	nq := 4
	if vt.Thorough() {
		ho.MaxSteps, nq = 14, 6
		if shape == 2 {
			ho.PoolSize, ho.MaxBatch = 160, 100
		}
	}
	c := Case{H: gen.History{Schema: schema, MaxPointSize: 1 << 20, CacheLimit: rapid.SampledFrom([]int64{-1, -1, 0, 3000}).Draw(t, "cacheLimit")}}
	if rapid.IntRange(0, 5).Draw(t, "highIds") == 0 {
		// node ids around the boundaries of the graph search's visited-set size classes
		c.H.FirstNodeId = gen.GenFirstNodeId(t, "firstNode")
	}
	g := gen.NewHistoryGen(t, schema, c.H.MaxPointSize, ho)
	n := rapid.IntRange(1, ho.MaxSteps).Draw(t, "nsteps")
	for i := 0; i < n; i++ {
		var st gen.Step
		if shape == 0 {
			// insert-only history (reopen / evict allowed)
			switch rapid.IntRange(0, 5).Draw(t, fmt.Sprintf("k%d", i)) {
			case 0:
				st = gen.Step{Kind: "reopen"}
			case 1:
				st = gen.Step{Kind: "evict"}
			default:
				st = g.Insert()
			}
		} else {
			st = g.Next()
		}
		c.H.Steps = append(c.H.Steps, st)
		var qs []oracle.VecQuery
		k := rapid.IntRange(1, nq).Draw(t, fmt.Sprintf("nq%d", i))
		for j := 0; j < k; j++ {
			vec, limit, w, f := gen.VecQueryParts(t, fmt.Sprintf("q%d.%d", i, j), g.M, g.Pool, gen.PVamana, 75)
			ss := rapid.IntRange(max(25, limit), 75).Draw(t, fmt.Sprintf("ss%d.%d", i, j))
			// boundary of the exactness claim: a pre-filter with exactly searchSize (or one fewer / one more) members
			if stored := g.M.Ids(); len(stored) >= 26 && rapid.IntRange(0, 2).Draw(t, fmt.Sprintf("bf%d.%d", i, j)) == 0 {
				ss = rapid.IntRange(25, min(75, len(stored)-1)).Draw(t, fmt.Sprintf("bfss%d.%d", i, j))
				k := ss + rapid.SampledFrom([]int{-1, 0, 0, 0, 1}).Draw(t, fmt.Sprintf("bfk%d.%d", i, j))
				perm := rapid.Permutation(stored).Draw(t, fmt.Sprintf("bfids%d.%d", i, j))
				vals := make([]string, 0, k)
				for _, id := range perm[:min(k, len(perm))] {
					vals = append(vals, id.String())
				}
				fq := models.Query{Property: "_id", StringArray: &models.SearchStringArrayOptions{Value: vals, Operator: models.OperatorContainsAny}}
				f = &fq
				limit = rapid.SampledFrom([]int{ss, ss, max(1, ss-1), rapid.IntRange(1, ss).Draw(t, fmt.Sprintf("bfl%d.%d", i, j))}).Draw(t, fmt.Sprintf("bflim%d.%d", i, j))
			}
			q := oracle.VecQuery{Prop: gen.PVamana, Vector: vec, Limit: limit, SearchSize: ss, Weight: w, Filter: f}
			gen.MustValid(q.ToQuery(schema), schema)
			qs = append(qs, q)
		}
		c.Queries = append(c.Queries, qs)
	}
	c.H.Rename = gen.MaybeRename(t, c.H.Schema)
	return c
}

func execCase(c Case) (res vt.Result) {
	rec := vt.R()
	r, err := run.New(c.H)
	if err != nil {
		return vt.Result{Err: err}
	}
	defer r.Close()
	params := c.H.Schema[gen.PVamana].VectorVamana
	fail := func(i int, f string, a ...any) vt.Result {
		res.Err = fmt.Errorf("step %d (%s): %s", i, c.H.Steps[i].Kind, fmt.Sprintf(f, a...))
		return res
	}
	insertOnly := true
	mutated := false // some delete or vector change happened
	reusedNode := false
	everUsedNodes := map[uint64]bool{}
	nontrivial := false
	for i, st := range c.H.Steps {
		info, err := r.Apply(st)
		if err != nil {
			return fail(i, "%v", err)
		}
		if info.Wrote && st.Kind != "insert" {
			// an update/delete that touched nothing keeps the history insert-only in effect, but be conservative
			if len(info.Updated) > 0 || len(info.Deleted) > 0 {
				insertOnly = false
				mutated = true
			}
		}
		ctx, err := oracle.ContextOf(r.S, r.M, gen.PVamana)
		if err != nil {
			return fail(i, "%v", err)
		}
		if info.Wrote && st.Kind == "insert" {
			for _, p := range st.Points {
				n := ctx.Points.IdToNode[p.Id]
				if everUsedNodes[n] {
					reusedNode = true
				}
			}
		}
		for n := range ctx.Points.NodeToId {
			everUsedNodes[n] = true
		}
		nvec := 0
		for _, d := range r.M.Docs {
			if _, ok := model.FieldVector(d, gen.PVamana); ok {
				nvec++
			}
		}
		var cold *drive.Shard
		if i%3 == 2 || i == len(c.H.Steps)-1 {
			if cold, err = r.Copy(cache.NewManager(-1)); err != nil {
				return fail(i, "cold copy: %v", err)
			}
		}
		for qi, q := range c.Queries[i] {
			// exactness regimes
			exact := false
			if insertOnly && nvec <= min(params.DegreeBound, params.SearchSize-1, q.SearchSize-1) {
				exact = true
				rec.Count("exact_regime_small_insert_only", 1)
			}
			if q.Filter != nil {
				fb, err := r.M.EvalFilter(*q.Filter)
				if err != nil {
					return fail(i, "model filter: %v", err)
				}
				if len(fb.May) <= q.SearchSize {
					exact = true
					rec.Count("exact_regime_small_filter", 1)
				}
			}
			if (i+qi)%5 == 0 {
				// now and then a search that the index refuses (its limit exceeds its search size; the HTTP
				// layer would not let it through) comes first: whatever it answers, it must leave nothing
				// behind that makes the searches after it fail
				bad := q
				bad.Limit, bad.SearchSize, bad.Filter = 60, 25, nil
				if _, err := r.S.Search(models.SearchRequest{Query: bad.ToQuery(c.H.Schema)}); err != nil {
					rec.Count("refused_searches_before_a_judged_one", 1)
				}
			}
			var first []drive.Row
			for _, inst := range []struct {
				s    *drive.Shard
				name string
			}{{r.S, "the running instance"}, {cold, "a cold copy"}} {
				if inst.s == nil {
					continue
				}
				rows, err := inst.s.Search(models.SearchRequest{Query: q.ToQuery(c.H.Schema)})
				if err != nil {
					if cold != nil {
						cold.Close()
					}
					return fail(i, "query %d on %s failed: %v", qi, inst.name, err)
				}
				if err := oracle.CheckVectorRows(ctx, q, rows, exact); err != nil {
					if cold != nil {
						cold.Close()
					}
					return fail(i, "query %d {limit %d searchSize %d filter %v exact-regime %v, %d vectors, index searchSize %d degree %d} on %s: %v", qi, q.Limit, q.SearchSize, q.Filter != nil, exact, nvec, params.SearchSize, params.DegreeBound, inst.name, err)
				}
				if first == nil {
					first = rows
				} else if len(first) != len(rows) {
					if cold != nil {
						cold.Close()
					}
					return fail(i, "query %d: the running instance returned %d rows, a cold copy of the same file %d", qi, len(first), len(rows))
				} else {
					for k := range rows {
						if rows[k].Id != first[k].Id || *rows[k].Distance != *first[k].Distance {
							cold.Close()
							return fail(i, "query %d: row %d differs between the running instance (%s, %v) and a cold copy of the same file (%s, %v)", qi, k, first[k].Id, *first[k].Distance, rows[k].Id, *rows[k].Distance)
						}
					}
				}
			}
			rec.Count("queries", 1)
			if ctx.Oracle.Quantised() {
				rec.Count("queries_quantised", 1)
			}
			if (mutated && reusedNode) || (exact && nvec > q.Limit) {
				nontrivial = true
			}
		}
		if cold != nil {
			cold.Close()
		}
		if err := drive.StrayVerdict(r.S); err != nil {
			return fail(i, "during queries: %v", err)
		}
	}
	rec.Count("metric_"+params.DistanceMetric, 1)
	res.NonTrivial = nontrivial
	return res
}

func TestPropVamana(t *testing.T)   { vt.Check(t, "vamana", genCase, execCase) }
func TestReplayVamana(t *testing.T) { vt.Replay(t, "vamana", execCase) }
