package c03

import (
	"testing"

	"pgregory.net/rapid"
	"verif/oracle"
	"verif/vt"
)

// graph index with a product quantiser, histories around the 1000-vector training trigger
func genPQ(t *rapid.T) oracle.PQCase { return oracle.GenPQCase(t, true) }

func TestPropVamanaPQ(t *testing.T)   { vt.Check(t, "vamanapq", genPQ, oracle.ExecPQCase) }
func TestReplayVamanaPQ(t *testing.T) { vt.Replay(t, "vamanapq", oracle.ExecPQCase) }
