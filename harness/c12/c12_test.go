package c12

import (
	"encoding/binary"
	"sync/atomic"

	"errors"
	"fmt"
	"github.com/google/uuid"
	"github.com/vmihailenco/msgpack/v5"
	"os"
	"path/filepath"
	"regexp"
	"runtime"
	"strconv"
	"strings"
	"sync"
	"testing"
	"time"

	"github.com/rs/zerolog"
	"github.com/semafind/semadb/cluster"
	"github.com/semafind/semadb/models"
	"github.com/semafind/semadb/shard"
	"pgregory.net/rapid"
	"verif/vt"
)

func TestMain(m *testing.M) {
	zerolog.SetGlobalLevel(zerolog.FatalLevel) // a fatal log call exits the process: its message must be visible
	vt.Main(m, "C12")
}

// Action of the schedule.
type Action struct {
	Kind string `json:"kind"` // request | finish | delete | release
	Arg  int    `json:"arg"`  // request: shard index; finish: index into running requests; delete: collection index; release: index into pending pauses
}

type Case struct {
	Collections int  `json:"collections"` // 1..2
	Shards      int  `json:"shards"`      // shards per collection 1..2
	IdleTimeout int  `json:"idleTimeout"` // seconds; 0 = the idle timer fires at once (and is then held at a pause point)
	Backups     bool `json:"backups"`
	// StrayBackup: every shard directory holds a file "manual-copy.backup" (not named like the backups the
	// shard writes), which makes every backup at idle unload report an error
	StrayBackup bool `json:"strayBackup,omitempty"`
	// DamagedFirst: the database file of the first shard is unreadable when the shard is first asked for (the
	// request gets a clean error); the file is then taken away, and the shard must load like any other
	DamagedFirst bool `json:"damagedFirst,omitempty"`
	// RelativeRoot: the shard manager's root directory is given relative to the working directory, as in the
	// shipped configurations ("./data")
	RelativeRoot bool `json:"relativeRoot,omitempty"`
	// BlockedBackup: the names the next backups would be written to are taken by directories, so the backup
	// copy made at idle unload fails inside the storage engine (as on a full or read-only volume)
	BlockedBackup bool `json:"blockedBackup,omitempty"`
	// Ghost: a further collection ("ghost") whose directory path is taken by a regular file; deletions may
	// name it (delete action with index Collections); they fail and must leave the manager usable
	Ghost   bool     `json:"ghost,omitempty"`
	Actions []Action `json:"actions"`
}

var pointSeq atomic.Uint64
var dataMu sync.Mutex

func genCase(t *rapid.T) Case {
	c := Case{Collections: rapid.IntRange(1, 2).Draw(t, "cols"), Shards: rapid.IntRange(1, 2).Draw(t, "shards"),
		IdleTimeout: rapid.SampledFrom([]int{0, 0, 0, 3600}).Draw(t, "timeout"), Backups: rapid.Bool().Draw(t, "backups")}
	c.StrayBackup = c.Backups && rapid.IntRange(0, 2).Draw(t, "strayBackup") == 0
	c.DamagedFirst = rapid.IntRange(0, 5).Draw(t, "damagedFirst") == 0
	c.RelativeRoot = rapid.IntRange(0, 2).Draw(t, "relativeRoot") == 0
	c.BlockedBackup = c.Backups && !c.StrayBackup && rapid.IntRange(0, 2).Draw(t, "blockedBackup") == 0
	c.Ghost = rapid.IntRange(0, 3).Draw(t, "ghost") == 0
	ndel := c.Collections
	if c.Ghost {
		ndel++
	}
	n := rapid.IntRange(1, 24).Draw(t, "nactions")
	for i := 0; i < n; i++ {
		var a Action
		switch rapid.IntRange(0, 9).Draw(t, fmt.Sprintf("k%d", i)) {
		case 0, 1, 2:
			a = Action{Kind: "request", Arg: rapid.IntRange(0, c.Collections*c.Shards-1).Draw(t, fmt.Sprintf("a%d", i))}
		case 3, 4:
			a = Action{Kind: "finish", Arg: rapid.IntRange(0, 5).Draw(t, fmt.Sprintf("a%d", i))}
		case 5:
			a = Action{Kind: "delete", Arg: rapid.IntRange(0, ndel-1).Draw(t, fmt.Sprintf("a%d", i))}
		default:
			a = Action{Kind: "release", Arg: rapid.IntRange(0, 5).Draw(t, fmt.Sprintf("a%d", i))}
		}
		c.Actions = append(c.Actions, a)
	}
	return c
}

// ---------------------------------------------------------------------------

type pause struct {
	point, key string
	goid       int64
	ch         chan struct{}
}

type request struct {
	id       int
	shard    int
	goid     int64
	inCb     bool
	finish   chan struct{}
	done     chan struct{}
	err      error
	cbErr    error
	released bool
}

type world struct {
	mu            sync.Mutex
	pauses        []*pause // pending (blocked) pause points
	requests      []*request
	deletes       []*delRun
	goids         map[int64]string // participants: harness goroutines and SUT goroutines seen at pause points
	timerImminent bool
	trace         []string
	viol          error
}

type delRun struct {
	col  int
	goid int64
	done chan struct{}
	err  error
}

func (w *world) logf(f string, a ...any) {
	w.mu.Lock()
	w.trace = append(w.trace, fmt.Sprintf(f, a...))
	w.mu.Unlock()
}

func (w *world) violate(f string, a ...any) {
	w.mu.Lock()
	if w.viol == nil {
		w.viol = fmt.Errorf(f, a...)
	}
	w.mu.Unlock()
}

var headerRe = regexp.MustCompile(`(?m)^goroutine (\d+) \[([^\]]+)\]:`)

type gstate struct {
	status string
	stack  string
}

func allGoroutines() map[int64]gstate {
	buf := make([]byte, 4<<20)
	n := runtime.Stack(buf, true)
	for n == len(buf) { // the dump must be complete: a goroutine missing from it would count as gone
		buf = make([]byte, 2*len(buf))
		n = runtime.Stack(buf, true)
	}
	out := map[int64]gstate{}
	for _, block := range strings.Split(string(buf[:n]), "\n\n") {
		m := headerRe.FindStringSubmatch(block)
		if m == nil {
			continue
		}
		id, _ := strconv.ParseInt(m[1], 10, 64)
		out[id] = gstate{status: m[2], stack: block}
	}
	return out
}

func goidOf() int64 {
	var buf [64]byte
	n := runtime.Stack(buf[:], false)
	s := strings.TrimPrefix(string(buf[:n]), "goroutine ")
	var id int64
	for i := 0; i < len(s) && s[i] >= '0' && s[i] <= '9'; i++ {
		id = id*10 + int64(s[i]-'0')
	}
	return id
}

func isLockWait(s string) bool {
	return strings.HasPrefix(s, "sync.Mutex.Lock") || strings.HasPrefix(s, "sync.RWMutex.Lock") || strings.HasPrefix(s, "sync.RWMutex.RLock") || strings.HasPrefix(s, "semacquire")
}

func isChanWait(s string) bool {
	return strings.HasPrefix(s, "chan receive") || strings.HasPrefix(s, "chan send") || strings.HasPrefix(s, "select")
}

// quiesce waits until every goroutine that runs shard-manager code is parked
// on a harness channel, on a lock, in the idle-timer select, or gone. It also
// looks for a goroutine stuck in bbolt's file lock (shard file opened twice).
func (w *world) quiesce() {
	for i := 0; ; i++ {
		busy := ""
		self := goidOf()
		for id, g := range allGoroutines() {
			// participants: anything running shard-manager code or harness code (a goroutine that was
			// created but has not started yet only shows its go-statement wrapper), except ourselves
			if id == self || (!strings.Contains(g.stack, "semadb/cluster.") && !strings.Contains(g.stack, "verif/c12.")) {
				continue
			}
			if strings.Contains(g.stack, "bbolt.flock") && (strings.HasPrefix(g.status, "sleep") || i > 2000) {
				w.violate("a goroutine waits in bbolt's file lock: the shard database file is opened a second time while it is still open\n%s", g.stack)
				return
			}
			if w.timerImminent && strings.HasPrefix(g.status, "select") && strings.Contains(g.stack, "cleanupRoutine") {
				// idle timeout 0: the timer is about to fire, the goroutine is not at rest
				busy = fmt.Sprintf("goroutine %d waits for its zero idle timer", id)
				break
			}
			if isLockWait(g.status) || isChanWait(g.status) {
				continue
			}
			busy = fmt.Sprintf("goroutine %d [%s]", id, g.status)
			break
		}
		if busy == "" {
			if os.Getenv("VERIF_DEBUG") != "" {
				fmt.Fprintf(os.Stderr, "---- quiesce returns after %d rounds\n", i)
				for id, g := range allGoroutines() {
					if strings.Contains(g.stack, "semadb/cluster.") || strings.Contains(g.stack, "verif/c12.(*world).run") {
						lines := strings.Split(g.stack, "\n")
						fmt.Fprintf(os.Stderr, "   g%d [%s] %s\n", id, g.status, strings.Join(lines[1:min(len(lines), 8)], " | "))
					}
				}
			}
			return
		}
		if i > 400000 {
			w.violate("the system does not settle: %s", busy)
			return
		}
		runtime.Gosched()
		if i%10 == 9 {
			time.Sleep(20 * time.Microsecond)
		}
	}
}

func execCase(c Case) (res vt.Result) {
	rec := vt.R()
	root, cleanupDir := vt.ScratchDir("c12")
	defer cleanupDir()
	w := &world{goids: map[int64]string{}, timerImminent: c.IdleTimeout == 0}
	pauseFn := func(point, key string) {
		p := &pause{point: point, key: filepath.Base(filepath.Dir(key)) + "/" + filepath.Base(key), goid: goidOf(), ch: make(chan struct{})}
		w.mu.Lock()
		w.pauses = append(w.pauses, p)
		w.trace = append(w.trace, fmt.Sprintf("  goroutine reaches %s %s", point, p.key))
		w.mu.Unlock()
		<-p.ch
	}
	cluster.VerifPauseFn.Store(&pauseFn)
	defer cluster.VerifPauseFn.Store(nil)
	smRoot := root
	if c.RelativeRoot {
		if wd, err := os.Getwd(); err == nil {
			if rel, err := filepath.Rel(wd, root); err == nil {
				smRoot = rel
			}
		}
	}
	sm := cluster.NewShardManager(cluster.ShardManagerConfig{RootDir: smRoot, ShardTimeout: c.IdleTimeout, MaxCacheSize: -1})
	plan := models.UserPlan{Name: "p", MaxCollections: 10, MaxCollectionPointCount: 1000, MaxPointSize: 1 << 20}
	if c.Backups {
		plan.ShardBackupFrequency, plan.ShardBackupCount = 1, 2
	}
	cols := make([]models.Collection, c.Collections)
	for i := range cols {
		cols[i] = models.Collection{UserId: "u", Id: fmt.Sprintf("col%d", i), UserPlan: plan, IndexSchema: models.IndexSchema{"n": {Type: models.IndexTypeInteger},
			"v": {Type: models.IndexTypeVectorVamana, VectorVamana: &models.IndexVectorVamanaParameters{VectorSize: 2, DistanceMetric: models.DistanceEuclidean, SearchSize: 75, DegreeBound: 64, Alpha: 1.2}}}}
		for j := 0; j < c.Shards; j++ {
			cols[i].ShardIds = append(cols[i].ShardIds, fmt.Sprintf("00000000-0000-4000-8000-%04d%08d", i, j)) // shard ids are UUIDs, as the node creates them
		}
	}
	if c.Ghost {
		// the ghost collection has no shards; where its directory would be there is a regular file
		os.MkdirAll(filepath.Join(root, cluster.USERCOLSDIR, "u"), 0755)
		os.WriteFile(filepath.Join(root, cluster.USERCOLSDIR, "u", "ghost"), []byte("not a directory"), 0644)
		cols = append(cols, models.Collection{UserId: "u", Id: "ghost", UserPlan: plan, IndexSchema: models.IndexSchema{"n": {Type: models.IndexTypeInteger}}})
	}
	if c.BlockedBackup {
		now := time.Now().Unix()
		for _, col := range cols[:c.Collections] {
			for _, sh := range col.ShardIds {
				d := filepath.Join(root, cluster.USERCOLSDIR, col.UserId, col.Id, sh)
				os.MkdirAll(d, 0755)
				for ts := now - 2; ts <= now+90; ts++ {
					base := filepath.Join(d, fmt.Sprintf("%d-sharddb.bbolt.backup", ts))
					os.Mkdir(base, 0755)
					os.Mkdir(base+".tmp", 0755)
				}
				// (the directories look like backups from the future; a name without a time stamp that sorts
				// last makes the backup run all the same)
				os.WriteFile(filepath.Join(d, "zz-stray.backup"), []byte("x"), 0644)
			}
		}
		rec.Count("cases_with_blocked_backups", 1)
	}
	if c.StrayBackup {
		for _, col := range cols[:c.Collections] {
			for _, sh := range col.ShardIds {
				d := filepath.Join(root, cluster.USERCOLSDIR, col.UserId, col.Id, sh)
				os.MkdirAll(d, 0755)
				os.WriteFile(filepath.Join(d, "manual-copy.backup"), []byte("kept by hand"), 0644)
			}
		}
	}
	shardOf := func(k int) (models.Collection, string) {
		col := cols[k/c.Shards]
		return col, col.ShardIds[k%c.Shards]
	}
	if c.DamagedFirst {
		col, shardId := shardOf(0)
		d := filepath.Join(root, cluster.USERCOLSDIR, col.UserId, col.Id, shardId)
		os.MkdirAll(d, 0755)
		os.WriteFile(filepath.Join(d, "sharddb.bbolt"), []byte(strings.Repeat("this is no database file ", 400)), 0644)
		done := make(chan error, 1)
		go func() { done <- sm.DoWithShard(col, shardId, func(s *shard.Shard) error { return nil }) }()
		select {
		case err := <-done:
			if err == nil {
				return vt.Result{Err: fmt.Errorf("a shard whose database file is unreadable was loaded without an error")}
			}
		case <-time.After(90 * time.Second):
			return vt.Result{Err: fmt.Errorf("the request for a shard whose database file is unreadable does not return")}
		}
		os.Remove(filepath.Join(d, "sharddb.bbolt"))
		rec.Count("cases_whose_first_shard_could_not_be_opened_at_first", 1)
	}
	checkInside := func(col models.Collection, shardId string, s *shard.Shard, when string) error {
		if s == nil {
			return fmt.Errorf("%s: the callback was handed a nil shard", when)
		}
		if _, err := s.Info(); err != nil {
			return fmt.Errorf("%s of a request callback the shard cannot be used (used after close?): %v", when, err)
		}
		p := filepath.Join(root, cluster.USERCOLSDIR, col.UserId, col.Id, shardId, "sharddb.bbolt")
		if _, err := os.Stat(p); err != nil {
			return fmt.Errorf("%s of a request callback the shard's database file is gone (removed while in use): %v", when, err)
		}
		if when == "at entry" {
			// (one at a time per process: a search that overlaps a write on the same shard is C09's subject
			// and has the catalogued finding D5)
			dataMu.Lock()
			defer dataMu.Unlock()
			// the shard works: a point with a vector is written and found again. (A shard that is created
			// afresh under the path of a deleted one must not be served from what the cache manager still
			// holds of its predecessor.)
			var id uuid.UUID
			binary.LittleEndian.PutUint64(id[:8], pointSeq.Add(1))
			id[6], id[8] = 0x40|id[6]&0x0f, 0x80|id[8]&0x3f
			vec := []float32{float32(id[0]), float32(id[1])}
			data, _ := msgpack.Marshal(map[string]any{"n": int64(id[0]), "v": vec})
			if err := s.InsertPoints([]models.Point{{Id: id, Data: data}}); err != nil {
				return fmt.Errorf("%s of a request callback an insert into the shard fails: %v", when, err)
			}
			res, err := s.SearchPoints(models.SearchRequest{Query: models.Query{Property: "v", VectorVamana: &models.SearchVectorVamanaOptions{Vector: vec, Operator: models.OperatorNear, Limit: 75, SearchSize: 75}}, Limit: 75})
			if err != nil {
				return fmt.Errorf("%s of a request callback a search on the shard fails: %v", when, err)
			}
			si, _ := s.Info()
			found := false
			for _, r := range res {
				if r.Point.Id == id {
					found = true
				}
			}
			if !found && si.PointCount <= 75 {
				return fmt.Errorf("%s of a request callback the point just inserted is not among the %d results of a search for its vector (%d points stored)", when, len(res), si.PointCount)
			}
		}
		return nil
	}
	nextReq := 0
	startRequest := func(k int) {
		col, shardId := shardOf(k)
		r := &request{id: nextReq, shard: k, finish: make(chan struct{}), done: make(chan struct{})}
		nextReq++
		w.mu.Lock()
		w.requests = append(w.requests, r)
		w.mu.Unlock()
		w.logf("request %d on %s/%s starts", r.id, col.Id, shardId)
		go w.runRequest(sm, col, shardId, r, checkInside)
	}
	timerDuringUse, ops := false, 0
	for ai, a := range c.Actions {
		if w.viol != nil {
			break
		}
		switch a.Kind {
		case "request":
			startRequest(a.Arg)
			ops++
		case "finish":
			var running []*request
			w.mu.Lock()
			for _, r := range w.requests {
				if r.inCb && !r.released {
					running = append(running, r)
				}
			}
			w.mu.Unlock()
			if len(running) > 0 {
				r := running[a.Arg%len(running)]
				r.released = true
				w.logf("request %d: callback is let go", r.id)
				close(r.finish)
			}
		case "delete":
			d := &delRun{col: a.Arg % len(cols), done: make(chan struct{})}
			w.mu.Lock()
			w.deletes = append(w.deletes, d)
			w.mu.Unlock()
			a.Arg %= len(cols)
			w.logf("deletion of %s starts", cols[a.Arg].Id)
			go w.runDelete(sm, cols[a.Arg], d)
			ops++
		case "release":
			w.mu.Lock()
			var p *pause
			if len(w.pauses) > 0 {
				i := a.Arg % len(w.pauses)
				p = w.pauses[i]
				w.pauses = append(w.pauses[:i], w.pauses[i+1:]...)
			}
			inUse := false
			for _, r := range w.requests {
				if r.inCb {
					inUse = true
				}
			}
			delRunning := false
			for _, d := range w.deletes {
				select {
				case <-d.done:
				default:
					delRunning = true
				}
			}
			w.mu.Unlock()
			if p != nil {
				if strings.HasPrefix(p.point, "cleanup:") && (inUse || delRunning) {
					timerDuringUse = true
				}
				w.logf("release %s %s", p.point, p.key)
				close(p.ch)
			}
		}
		w.quiesce()
		_ = ai
	}
	// drain: release every pause point and let every callback go until every call has returned;
	// a deadlock is declared only when nothing is left to release, the system is at rest and some
	// call is still parked on a lock
	allDone := func() bool {
		w.mu.Lock()
		defer w.mu.Unlock()
		for _, r := range w.requests {
			select {
			case <-r.done:
			default:
				return false
			}
		}
		for _, d := range w.deletes {
			select {
			case <-d.done:
			default:
				return false
			}
		}
		return true
	}
	idleRounds := 0
	for round := 0; w.viol == nil; round++ {
		w.mu.Lock()
		ps := w.pauses
		w.pauses = nil
		var running []*request
		for _, r := range w.requests {
			if r.inCb && !r.released {
				running = append(running, r)
			}
		}
		w.mu.Unlock()
		for _, p := range ps {
			w.logf("drain: release %s %s", p.point, p.key)
			close(p.ch)
		}
		for _, r := range running {
			r.released = true
			w.logf("drain: request %d callback is let go", r.id)
			close(r.finish)
		}
		w.quiesce()
		if allDone() {
			break
		}
		if len(ps) == 0 && len(running) == 0 {
			idleRounds++
			time.Sleep(time.Duration(idleRounds) * 200 * time.Microsecond)
		} else {
			idleRounds = 0
		}
		if idleRounds > 25 {
			var stuck []string
			gs := allGoroutines()
			for _, r := range w.requests {
				select {
				case <-r.done:
				default:
					stuck = append(stuck, fmt.Sprintf("request %d on shard %d [%s]", r.id, r.shard, gs[r.goid].status))
				}
			}
			for _, d := range w.deletes {
				select {
				case <-d.done:
				default:
					stuck = append(stuck, fmt.Sprintf("deletion of col%d [%s]", d.col, gs[d.goid].status))
				}
			}
			dump := ""
			for _, g := range gs {
				if strings.Contains(g.stack, "semadb/cluster.") {
					dump += g.stack + "\n\n"
				}
			}
			if len(dump) > 6000 {
				dump = dump[:6000]
			}
			w.violate("after every pause point and every callback was released these calls have not returned (deadlock): %v\n%s", stuck, dump)
		}
		if round > 5000 {
			w.violate("drain does not terminate")
		}
	}
	if w.viol == nil {
		for _, r := range w.requests {
			if r.cbErr != nil {
				w.violate("%v", r.cbErr)
			}
		}
	}
	// afterwards new requests can load shards again (a request that meets a shard whose unloading
	// is still in progress may get a clean error: it is retried while pending pause points are released)
	if w.viol == nil {
		for k := 0; k < c.Collections*c.Shards && w.viol == nil; k++ {
			col, shardId := shardOf(k)
			var lastErr error
			ok := false
			for attempt := 0; attempt < 50 && !ok && w.viol == nil; attempt++ {
				done := make(chan error, 1)
				go func() {
					done <- sm.DoWithShard(col, shardId, func(s *shard.Shard) error { return checkInside(col, shardId, s, "at entry") })
				}()
				for i := 0; ; i++ {
					select {
					case err := <-done:
						lastErr = err
						ok = err == nil
					default:
						w.mu.Lock()
						ps := w.pauses
						w.pauses = nil
						w.mu.Unlock()
						for _, p := range ps {
							close(p.ch)
						}
						w.quiesce()
						if w.viol != nil {
							break
						}
						if i > 20000 {
							w.violate("after all calls returned a new request on %s/%s does not return", col.Id, shardId)
							break
						}
						continue
					}
					break
				}
				// release whatever the attempt left pending (idle timers of freshly loaded shards)
				w.mu.Lock()
				ps := w.pauses
				w.pauses = nil
				w.mu.Unlock()
				for _, p := range ps {
					close(p.ch)
				}
				w.quiesce()
			}
			if !ok && w.viol == nil {
				w.violate("after all calls returned, new requests on %s/%s keep failing: %v", col.Id, shardId, lastErr)
			}
		}
	}
	// tidy up: no more pauses, release what is pending, close every shard through a deletion so that
	// file handles do not accumulate over thousands of cases (bounded wait: on a tree with a
	// deadlock the goroutines are simply left behind)
	cluster.VerifPauseFn.Store(nil)
	w.mu.Lock()
	ps := w.pauses
	w.pauses = nil
	w.mu.Unlock()
	for _, p := range ps {
		close(p.ch)
	}
	if w.viol == nil {
		tidy := make(chan struct{})
		go func() {
			for _, col := range cols {
				sm.DeleteCollectionShards(col)
			}
			close(tidy)
		}()
		select {
		case <-tidy:
		case <-time.After(2 * time.Second):
		}
	}
	rec.Count("requests", int64(len(w.requests)))
	rec.Count("deletions", int64(len(w.deletes)))
	if w.viol != nil {
		res.Err = fmt.Errorf("%v\nschedule so far:\n  %s", w.viol, strings.Join(w.trace, "\n  "))
		return res
	}
	res.NonTrivial = timerDuringUse && ops >= 2
	return res
}

func (w *world) runRequest(sm *cluster.ShardManager, col models.Collection, shardId string, r *request, check func(models.Collection, string, *shard.Shard, string) error) {
	r.goid = goidOf()
	defer close(r.done)
	defer func() {
		if p := recover(); p != nil {
			r.cbErr = fmt.Errorf("request %d panicked: %v", r.id, p)
		}
	}()
	r.err = sm.DoWithShard(col, shardId, func(s *shard.Shard) error {
		if err := check(col, shardId, s, "at entry"); err != nil {
			r.cbErr = err
		}
		w.mu.Lock()
		r.inCb = true
		w.trace = append(w.trace, fmt.Sprintf("  request %d is inside its callback", r.id))
		w.mu.Unlock()
		<-r.finish
		w.mu.Lock()
		r.inCb = false
		w.mu.Unlock()
		if err := check(col, shardId, s, "at exit"); err != nil && r.cbErr == nil {
			r.cbErr = err
		}
		return nil
	})
	if r.err != nil {
		w.logf("  request %d returned error: %v", r.id, r.err)
	}
}

func (w *world) runDelete(sm *cluster.ShardManager, col models.Collection, d *delRun) {
	d.goid = goidOf()
	defer close(d.done)
	_, d.err = sm.DeleteCollectionShards(col)
}

var _ = errors.New

func TestPropShardManager(t *testing.T)   { vt.Check(t, "shardmgr", genCase, execCase) }
func TestReplayShardManager(t *testing.T) { vt.Replay(t, "shardmgr", execCase) }
