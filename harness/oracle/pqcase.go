package oracle

import (
	"fmt"

	"github.com/google/uuid"
	"github.com/semafind/semadb/models"
	"github.com/semafind/semadb/shard/cache"
	"pgregory.net/rapid"
	"verif/drive"
	"verif/gen"
	"verif/model"
	"verif/run"
	"verif/vt"
)

// PQCase is a history on one vector index (flat or vamana) with a product
// quantiser. The quantiser trains once the index holds 1000 vectors, so the
// history starts with a bulk insert around that boundary; afterwards points are
// added, changed and removed, with queries after every step.
type PQCase struct {
	Vamana       bool         `json:"vamana"`
	Dim          int          `json:"dim"`
	Metric       string       `json:"metric"`
	NumCentroids int          `json:"numCentroids"`
	NumSub       int          `json:"numSubVectors"`
	Bulk         int          `json:"bulk"`
	Seed         int          `json:"seed"`
	SearchSize   int          `json:"searchSize"`
	DegreeBound  int          `json:"degreeBound"`
	Steps        []gen.Step   `json:"steps"`
	Queries      [][]VecQuery `json:"queries"`
	CacheLimit   int64        `json:"cacheLimit"`
	// AfterBulk: "", "reopen" or "evict" right after the bulk insert, so that the shared cache is
	// filled from storage by the following searches and then lives through the later write batches
	AfterBulk string `json:"afterBulk,omitempty"`
}

func (c PQCase) Prop() string {
	if c.Vamana {
		return gen.PVamana
	}
	return gen.PFlat
}

func (c PQCase) Schema() models.IndexSchema {
	q := &models.Quantizer{Type: models.QuantizerProduct, Product: &models.ProductQuantizerParameters{NumCentroids: c.NumCentroids, NumSubVectors: c.NumSub, TriggerThreshold: 1000}}
	if c.Vamana {
		return models.IndexSchema{gen.PVamana: {Type: models.IndexTypeVectorVamana, VectorVamana: &models.IndexVectorVamanaParameters{VectorSize: uint(c.Dim), DistanceMetric: c.Metric,
			SearchSize: c.SearchSize, DegreeBound: c.DegreeBound, Alpha: 1.2, Quantizer: q}}}
	}
	return models.IndexSchema{gen.PFlat: {Type: models.IndexTypeVectorFlat, VectorFlat: &models.IndexVectorFlatParameters{VectorSize: uint(c.Dim), DistanceMetric: c.Metric, Quantizer: q}}}
}

func GenPQCase(t *rapid.T, vamana bool) PQCase {
	c := PQCase{Vamana: vamana, NumSub: 2, NumCentroids: rapid.IntRange(2, 9).Draw(t, "centroids"),
		Metric: rapid.SampledFrom([]string{models.DistanceEuclidean, models.DistanceDot, models.DistanceCosine}).Draw(t, "metric"),
		Dim:    2 * rapid.IntRange(1, 4).Draw(t, "halfdim"), Bulk: rapid.IntRange(996, 1004).Draw(t, "bulk"), Seed: rapid.IntRange(1, 1000).Draw(t, "seed"),
		CacheLimit: rapid.SampledFrom([]int64{-1, -1, 0}).Draw(t, "cacheLimit"), SearchSize: 75, DegreeBound: 64}
	if rapid.Bool().Draw(t, "sub4") && c.Dim%4 == 0 {
		c.NumSub = 4
	}
	if vamana {
		c.SearchSize = rapid.SampledFrom([]int{25, 75}).Draw(t, "searchSize")
		c.DegreeBound = rapid.SampledFrom([]int{8, 32, 64}).Draw(t, "degreeBound")
	}
	c.AfterBulk = rapid.SampledFrom([]string{"", "reopen", "evict"}).Draw(t, "afterBulk")
	ho := gen.HistoryOpts{MaxSteps: 5, MaxBatch: 8, PoolSize: 24, FieldProb: 95}
	g := gen.NewHistoryGen(t, c.Schema(), 1<<20, ho)
	n := rapid.IntRange(1, 5).Draw(t, "nsteps")
	for i := 0; i < n; i++ {
		var st gen.Step
		for {
			st = g.Next()
			if st.Kind == "insert" || st.Kind == "update" || st.Kind == "delete" {
				break
			}
		}
		// now and then remove a slice of the bulk as well, so that freed node ids are reused after training
		if st.Kind == "delete" && rapid.Bool().Draw(t, fmt.Sprintf("bulkdel%d", i)) {
			from := rapid.IntRange(0, c.Bulk-1).Draw(t, fmt.Sprintf("bulkfrom%d", i))
			for k := from; k < min(c.Bulk, from+rapid.IntRange(1, 12).Draw(t, fmt.Sprintf("bulkn%d", i))); k++ {
				st.Ids = append(st.Ids, gen.BulkId(k))
			}
		}
		c.Steps = append(c.Steps, st)
		var qs []VecQuery
		for j := 0; j < 2; j++ {
			vec, limit, w, _ := gen.VecQueryParts(t, fmt.Sprintf("q%d.%d", i, j), g.M, g.Pool, c.Prop(), 75)
			q := VecQuery{Prop: c.Prop(), Vector: vec, Limit: limit, Weight: w}
			if vamana {
				q.SearchSize = max(limit, rapid.SampledFrom([]int{25, 75}).Draw(t, fmt.Sprintf("q%d.%dss", i, j)))
			}
			qs = append(qs, q)
		}
		c.Queries = append(c.Queries, qs)
	}
	return c
}

func sameRows(a, b []drive.Row) bool {
	if len(a) != len(b) {
		return false
	}
	for i := range a {
		if a[i].Id != b[i].Id || *a[i].Distance != *b[i].Distance {
			return false
		}
	}
	return true
}

func sameDistances(a, b []drive.Row) bool {
	if len(a) != len(b) {
		return false
	}
	for i := range a {
		if *a[i].Distance != *b[i].Distance {
			return false
		}
	}
	return true
}

func ExecPQCase(c PQCase) (res vt.Result) {
	rec := vt.R()
	prop := c.Prop()
	schema := c.Schema()
	r, err := run.New(gen.History{Schema: schema, MaxPointSize: 1 << 20, CacheLimit: c.CacheLimit})
	if err != nil {
		return vt.Result{Err: err}
	}
	defer r.Close()
	if _, err := r.Apply(gen.BulkInsert(c.Seed, c.Bulk, c.Dim, c.Metric, prop)); err != nil {
		return vt.Result{Err: fmt.Errorf("bulk insert: %v", err)}
	}
	trained := false
	post := map[uuid.UUID]bool{}
	check := func(where string, qs []VecQuery) error {
		ctx, err := ContextOf(r.S, r.M, prop)
		if err != nil {
			return err
		}
		nvec := 0
		for _, d := range r.M.Docs {
			if _, ok := model.FieldVector(d, prop); ok {
				nvec++
			}
		}
		isTrained := ctx.Oracle.PQ != nil
		// when exactly training happens is the index's business (the graph counts its
		// entry node towards the trigger); only note it
		if !trained && isTrained {
			rec.Count("pq_trained", 1)
			rec.Max("vectors_at_training", int64(nvec))
		}
		if trained && !isTrained {
			return fmt.Errorf("%s: the trained centroids disappeared from storage", where)
		}
		trained = isTrained
		live := map[uuid.UUID]bool{}
		for id := range r.M.Docs {
			live[id] = true
		}
		if err := ctx.Points.Check(live); err != nil {
			return fmt.Errorf("%s: point store: %v", where, err)
		}
		if err := CheckVecStore(ctx, prop, c.Vamana); err != nil {
			return fmt.Errorf("%s: %v", where, err)
		}
		if c.Vamana {
			if err := CheckGraph(ctx, prop, c.DegreeBound); err != nil {
				return fmt.Errorf("%s: %v", where, err)
			}
		}
		if err := CheckPQCodes(ctx, prop, post); err != nil {
			return fmt.Errorf("%s: %v", where, err)
		}
		for qi, q := range qs {
			exact := !c.Vamana
			var warm []drive.Row
			for vi, v := range []struct {
				name string
				mgr  func() *cache.Manager
			}{{"the running instance", nil}, {"a cold copy with a fresh cache", func() *cache.Manager { return cache.NewManager(-1) }}, {"a copy with the cache disabled", func() *cache.Manager { return cache.NewManager(0) }}} {
				inst := r.S
				if v.mgr != nil {
					if inst, err = r.Copy(v.mgr()); err != nil {
						return err
					}
				}
				rows, err := inst.Search(models.SearchRequest{Query: q.ToQuery(schema)})
				if v.mgr != nil {
					inst.Close()
				}
				if err != nil {
					return fmt.Errorf("%s query %d on %s failed: %v", where, qi, v.name, err)
				}
				if err := CheckVectorRows(ctx, q, rows, exact); err != nil {
					return fmt.Errorf("%s query %d {limit %d searchSize %d, %d vectors, trained %v} on %s: %v", where, qi, q.Limit, q.SearchSize, nvec, isTrained, v.name, err)
				}
				if vi == 0 {
					warm = rows
				} else if (c.Vamana && !sameRows(warm, rows)) || (!c.Vamana && !sameDistances(warm, rows)) {
					return fmt.Errorf("%s query %d {limit %d, trained %v}: the running instance and %s answer differently: %d rows vs %d rows", where, qi, q.Limit, isTrained, v.name, len(warm), len(rows))
				}
			}
			rec.Count("pq_queries", 1)
			if isTrained {
				rec.Count("pq_queries_trained", 1)
			}
		}
		return drive.StrayVerdict(r.S)
	}
	if c.AfterBulk != "" {
		if _, err := r.Apply(gen.Step{Kind: c.AfterBulk}); err != nil {
			return vt.Result{Err: fmt.Errorf("%s after the bulk insert: %v", c.AfterBulk, err)}
		}
		rec.Count("pq_cases_"+c.AfterBulk+"_after_bulk", 1)
	}
	first := []VecQuery{{Prop: prop, Vector: gen.BulkVector(c.Seed, 3, c.Dim, c.Metric), Limit: 10, SearchSize: 75}, {Prop: prop, Vector: gen.BulkVector(c.Seed+1, 5, c.Dim, c.Metric), Limit: 75, SearchSize: 75}}
	if err := check("after the bulk insert", first); err != nil {
		res.Err = err
		return res
	}
	for i, st := range c.Steps {
		wasTrained := trained
		info, err := r.Apply(st)
		if err != nil {
			res.Err = fmt.Errorf("step %d (%s): %v", i, st.Kind, err)
			return res
		}
		if info.Wrote && wasTrained {
			for _, p := range st.Points {
				if _, ok := p.Doc[prop].([]float32); ok {
					post[p.Id] = true
				}
			}
		}
		if err := check(fmt.Sprintf("after step %d (%s)", i, st.Kind), c.Queries[i]); err != nil {
			res.Err = err
			return res
		}
	}
	rec.Count("pq_cases", 1)
	npost := 0
	for id := range post {
		if _, ok := r.M.Docs[id]; ok {
			npost++
		}
	}
	res.NonTrivial = trained && npost > 0
	return res
}
