package oracle

import (
	"fmt"
	"math"

	"github.com/semafind/semadb/models"
	"verif/drive"
	"verif/gen"
	"verif/model"
)

type TextQuery struct {
	Value    string        `json:"value"`
	Operator string        `json:"operator"`
	Limit    int           `json:"limit"`
	Weight   *float32      `json:"weight,omitempty"`
	Filter   *models.Query `json:"filter,omitempty"`
	Prop     string        `json:"prop,omitempty"` // the text property ("" = gen.PText)
	// Stray: the query also carries options blocks of other index types (without a filter)
	Stray bool `json:"stray,omitempty"`
}

func (q TextQuery) prop() string {
	if q.Prop != "" {
		return q.Prop
	}
	return gen.PText
}

func (q TextQuery) ToQuery() models.Query {
	out := models.Query{Property: q.prop(), Text: &models.SearchTextOptions{Value: q.Value, Operator: q.Operator, Limit: q.Limit, Weight: q.Weight, Filter: q.Filter}}
	if q.Stray {
		out.VectorVamana = &models.SearchVectorVamanaOptions{Vector: []float32{1, 2}, Operator: models.OperatorNear, Limit: 5, SearchSize: 25}
		out.VectorFlat = &models.SearchVectorFlatOptions{Vector: []float32{1, 2}, Operator: models.OperatorNear, Limit: 5}
	}
	return out
}

// CheckText verifies one text answer against the model's current corpus.
func CheckText(m *model.Collection, q TextQuery, rows []drive.Row) (matching int, err error) {
	tc := m.TextCorpus(q.prop())
	terms := model.QueryTerms(q.Value)
	var fb model.Bounds
	if q.Filter != nil {
		fb, err = m.EvalFilter(*q.Filter)
		if err != nil {
			return 0, err
		}
	}
	if len(terms) == 0 {
		// a query that analyses to no term: the statement does not say whether "contains all of
		// nothing" matches everything; only an empty answer or a valid one is accepted
		if len(rows) == 0 {
			return 0, nil
		}
	}
	all := q.Operator == models.OperatorContainsAll
	must, may := model.IdSet{}, model.IdSet{}
	for id := range tc.Docs {
		if !tc.Matches(id, terms, all) {
			continue
		}
		if q.Filter == nil || fb.Must.Has(id) {
			must.Add(id)
			may.Add(id)
		} else if fb.May.Has(id) {
			may.Add(id)
		}
	}
	if len(rows) < min(q.Limit, len(must)) || len(rows) > min(q.Limit, len(may)) {
		return len(must), fmt.Errorf("%d rows; %d documents match (terms %q, operator %s) and pass the filter, limit %d; %s", len(rows), len(must), terms, q.Operator, q.Limit, tc)
	}
	weight := float32(1)
	if q.Weight != nil {
		weight = *q.Weight
	}
	seen := model.IdSet{}
	lowest := math.Inf(1)
	var prev float32
	for i, r := range rows {
		if !may.Has(r.Id) {
			return len(must), fmt.Errorf("row %d: %s does not match terms %q under %s (or is outside the filter)", i, r.Id, terms, q.Operator)
		}
		if seen.Has(r.Id) {
			return len(must), fmt.Errorf("row %d: %s returned twice", i, r.Id)
		}
		seen.Add(r.Id)
		if r.Score == nil {
			return len(must), fmt.Errorf("row %d: no _score", i)
		}
		got := *r.Score
		if i > 0 && got > prev {
			return len(must), fmt.Errorf("row %d: score %v after %v, not in non-increasing order", i, got, prev)
		}
		prev = got
		want, tol := tc.Score(r.Id, terms)
		if got != got || math.Abs(float64(got)-want) > tol {
			return len(must), fmt.Errorf("row %d: %s has score %v, tf-idf over the current corpus gives %v (terms %q, doc %+v, N=%d)", i, r.Id, got, want, terms, tc.Docs[r.Id], len(tc.Docs))
		}
		if r.Hybrid != got*weight {
			return len(must), fmt.Errorf("row %d: hybrid score %v, want weight*score = %v", i, r.Hybrid, got*weight)
		}
		if r.Distance != nil {
			return len(must), fmt.Errorf("row %d: text result carries a _distance", i)
		}
		if want < lowest {
			lowest = want
		}
	}
	for id := range must {
		if seen.Has(id) {
			continue
		}
		s, tol := tc.Score(id, terms)
		if s > lowest+2*tol+1e-6 {
			return len(must), fmt.Errorf("matching document %s with score %v was cut although a document with score %v was returned (limit %d)", id, s, lowest, q.Limit)
		}
	}
	return len(must), nil
}
