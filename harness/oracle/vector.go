// Package oracle holds the result predicates shared by several checks.
package oracle

import (
	"encoding/binary"
	"fmt"
	"math"
	"sort"

	"github.com/google/uuid"
	"github.com/semafind/semadb/models"
	"verif/drive"
	"verif/model"
)

// VecQuery is a vector search in harness form (flat when SearchSize == 0).
type VecQuery struct {
	Prop       string        `json:"prop"`
	Vector     []float32     `json:"vector"`
	Limit      int           `json:"limit"`
	SearchSize int           `json:"searchSize,omitempty"`
	Weight     *float32      `json:"weight,omitempty"`
	Filter     *models.Query `json:"filter,omitempty"`
	// Stray: the query also carries an options block of another index type (without a filter); only the
	// block that matches the property's index is used
	Stray bool `json:"stray,omitempty"`
}

// ToQuery builds the semadb query.
func (q VecQuery) ToQuery(schema models.IndexSchema) models.Query {
	out := models.Query{Property: q.Prop}
	if schema[q.Prop].Type == models.IndexTypeVectorFlat {
		out.VectorFlat = &models.SearchVectorFlatOptions{Vector: q.Vector, Operator: models.OperatorNear, Limit: q.Limit, Filter: q.Filter, Weight: q.Weight}
	} else {
		out.VectorVamana = &models.SearchVectorVamanaOptions{Vector: q.Vector, Operator: models.OperatorNear, Limit: q.Limit, SearchSize: q.SearchSize, Filter: q.Filter, Weight: q.Weight}
	}
	if q.Stray {
		out.Text = &models.SearchTextOptions{Value: "ring", Operator: models.OperatorContainsAny, Limit: 5}
		if out.VectorFlat != nil {
			out.VectorVamana = &models.SearchVectorVamanaOptions{Vector: q.Vector, Operator: models.OperatorNear, Limit: 5, SearchSize: 25}
		}
	}
	return out
}

// VecContext is what the oracle needs to know about the stored state.
type VecContext struct {
	M      *model.Collection
	Bucket *drive.VecBucket
	Oracle *model.VecOracle
	Points *drive.PointsView
}

// Candidate is a live point carrying the vector field.
type candidate struct {
	id   uuid.UUID
	node uint64
	ref  float64
	tol  float64
}

// CheckVectorRows verifies a vector answer. exact demands the exact k nearest
// (within rounding); otherwise only validity.
func CheckVectorRows(c VecContext, q VecQuery, rows []drive.Row, exact bool) error {
	var fb model.Bounds
	hasFilter := q.Filter != nil
	if hasFilter {
		var err error
		fb, err = c.M.EvalFilter(*q.Filter)
		if err != nil {
			return fmt.Errorf("model cannot evaluate the pre-filter: %v", err)
		}
	}
	weight := float32(1)
	if q.Weight != nil {
		weight = *q.Weight
	}
	dist := func(id uuid.UUID) (float64, float64, error) {
		vec, ok := model.FieldVector(c.M.Docs[id], q.Prop)
		if !ok {
			return 0, 0, fmt.Errorf("point has no %s field", q.Prop)
		}
		var code []byte
		if c.Oracle.PQ != nil {
			code = c.Bucket.Codes[c.Points.IdToNode[id]]
		}
		return c.Oracle.Distance(q.Vector, vec, code)
	}
	if len(rows) > q.Limit {
		return fmt.Errorf("%d rows for limit %d", len(rows), q.Limit)
	}
	seen := model.IdSet{}
	var worstRef, worstTol float64
	var prev float32
	for i, r := range rows {
		d, ok := c.M.Docs[r.Id]
		if !ok {
			return fmt.Errorf("row %d: %s is not a stored point", i, r.Id)
		}
		if _, ok := model.FieldVector(d, q.Prop); !ok {
			return fmt.Errorf("row %d: %s has no %s field", i, r.Id, q.Prop)
		}
		if seen.Has(r.Id) {
			return fmt.Errorf("row %d: %s returned twice", i, r.Id)
		}
		seen.Add(r.Id)
		if hasFilter && !fb.May.Has(r.Id) {
			return fmt.Errorf("row %d: %s is outside the pre-filter", i, r.Id)
		}
		if r.Distance == nil {
			return fmt.Errorf("row %d: %s has no _distance", i, r.Id)
		}
		got := *r.Distance
		if got != got {
			return fmt.Errorf("row %d: distance is NaN", i)
		}
		if i > 0 && got < prev {
			return fmt.Errorf("row %d: distance %v after %v, not in non-decreasing order", i, got, prev)
		}
		prev = got
		ref, tol, err := dist(r.Id)
		if err != nil {
			return fmt.Errorf("row %d (%s): %v", i, r.Id, err)
		}
		if math.Abs(float64(got)-ref) > tol {
			vec, _ := model.FieldVector(d, q.Prop)
			return fmt.Errorf("row %d: %s reported distance %v, the index distance between the query %v and its stored vector %v is %v (±%g) [metric %s, bit metric %q, pq %v]", i, r.Id, got, q.Vector, vec, ref, tol, c.Oracle.Metric, c.Oracle.BitMetric, c.Oracle.PQ != nil)
		}
		wantHybrid := -1 * weight * got
		wantHybrid2 := -1 * got * weight
		// (weight 0 times an infinite distance is NaN on both sides)
		if r.Hybrid != wantHybrid && r.Hybrid != wantHybrid2 && !(r.Hybrid != r.Hybrid && wantHybrid != wantHybrid) {
			return fmt.Errorf("row %d: hybrid score %v, want -weight*distance = %v (weight %v distance %v)", i, r.Hybrid, wantHybrid, weight, got)
		}
		if r.Score != nil {
			return fmt.Errorf("row %d: vector result carries a _score", i)
		}
		if ref > worstRef || i == 0 {
			worstRef = ref
		}
		if tol > worstTol {
			worstTol = tol
		}
	}
	if !exact {
		return nil
	}
	// candidates: live, field-bearing, inside the filter
	var must, may []uuid.UUID
	for _, id := range c.M.Ids() {
		if _, ok := model.FieldVector(c.M.Docs[id], q.Prop); !ok {
			continue
		}
		if !hasFilter || fb.Must.Has(id) {
			must = append(must, id)
			may = append(may, id)
		} else if fb.May.Has(id) {
			may = append(may, id)
		}
	}
	if len(rows) < min(q.Limit, len(must)) || len(rows) > min(q.Limit, len(may)) {
		return fmt.Errorf("%d rows; %d candidates carry the field and pass the filter, limit %d", len(rows), len(must), q.Limit)
	}
	if len(rows) == 0 {
		return nil
	}
	for _, id := range must {
		if seen.Has(id) {
			continue
		}
		ref, tol, err := dist(id)
		if err != nil {
			return fmt.Errorf("candidate %s: %v", id, err)
		}
		if ref+tol+worstTol < worstRef {
			return fmt.Errorf("candidate %s at distance %v was left out although the answer contains a point at distance %v (limit %d, %d candidates)", id, ref, worstRef, q.Limit, len(must))
		}
	}
	return nil
}

// CheckVecStore verifies what is persisted for a vector index against the
// model: one stored vector (or code) per live point carrying the field, equal to
// the model's current vector (or its quantised form).
func CheckVecStore(c VecContext, prop string, graph bool) error {
	want := map[uint64]uuid.UUID{}
	for id, d := range c.M.Docs {
		if _, ok := model.FieldVector(d, prop); ok {
			n, ok := c.Points.IdToNode[id]
			if !ok {
				return fmt.Errorf("point %s has no node id", id)
			}
			want[n] = id
		}
	}
	have := map[uint64]bool{}
	for n := range c.Bucket.Vectors {
		have[n] = true
	}
	for n := range c.Bucket.Codes {
		have[n] = true
	}
	if graph {
		if !have[1] {
			if len(have) > 0 {
				return fmt.Errorf("graph index has vectors but no entry node vector")
			}
		}
		delete(have, 1)
	}
	for n, id := range want {
		if !have[n] {
			return fmt.Errorf("live point %s (node %d) carries %s but the index stores no vector for it", id, n, prop)
		}
	}
	var extra []uint64
	for n := range have {
		if _, ok := want[n]; !ok {
			extra = append(extra, n)
		}
	}
	if len(extra) > 0 {
		sort.Slice(extra, func(i, j int) bool { return extra[i] < extra[j] })
		return fmt.Errorf("index %s stores vectors for nodes %v which belong to no live point carrying the field", prop, extra)
	}
	if len(c.Bucket.Other) > 0 {
		return fmt.Errorf("index bucket of %s holds keys of unknown shape: %v", prop, c.Bucket.Other)
	}
	for n, id := range want {
		vec, _ := model.FieldVector(c.M.Docs[id], prop)
		if c.Oracle.BitMetric != "" {
			code, ok := c.Bucket.Codes[n]
			if !ok {
				return fmt.Errorf("point %s (node %d): quantiser is trained but no quantised vector is stored", id, n)
			}
			wantBits := model.Bits(vec, c.Oracle.Threshold)
			if len(code) != 8*len(wantBits) {
				return fmt.Errorf("point %s: stored bit vector has %d bytes, expected %d", id, len(code), 8*len(wantBits))
			}
			for i, w := range wantBits {
				if binary.LittleEndian.Uint64(code[8*i:]) != w {
					return fmt.Errorf("point %s: stored bit vector word %d is %016x, thresholding its current vector %v gives %016x", id, i, binary.LittleEndian.Uint64(code[8*i:]), vec, w)
				}
			}
			continue
		}
		stored, ok := c.Bucket.Vectors[n]
		if !ok {
			return fmt.Errorf("point %s (node %d): no full vector stored", id, n)
		}
		if c.Oracle.PQ != nil {
			continue // the product quantiser's k-means may legitimately differ; codes are judged through distances
		}
		if len(stored) != len(vec) {
			return fmt.Errorf("point %s: stored vector has %d entries, document has %d", id, len(stored), len(vec))
		}
		for i := range vec {
			if math.Float32bits(stored[i]) != math.Float32bits(vec[i]) {
				return fmt.Errorf("point %s: stored vector %v differs from the document's vector %v", id, stored, vec)
			}
		}
	}
	return nil
}

// ContextOf reads the persisted state of a vector index of an instance.
func ContextOf(s *drive.Shard, m *model.Collection, prop string) (VecContext, error) {
	vb, o, err := s.VecInfo(prop)
	if err != nil {
		return VecContext{}, err
	}
	pv, err := s.InspectPoints()
	if err != nil {
		return VecContext{}, err
	}
	return VecContext{M: m, Bucket: vb, Oracle: o, Points: pv}, nil
}

// CheckPQCodes: once a product quantiser is trained every stored vector carries
// a code of NumSub bytes below NumCentroids, and a point written after training
// (ids in post) carries, per sub-vector, a centroid no farther than any other.
// Points present at training time keep the label of the last k-means
// assignment step, which need not be nearest to the final centroids.
func CheckPQCodes(c VecContext, prop string, post map[uuid.UUID]bool) error {
	p := c.Oracle.PQ
	if p == nil {
		return nil
	}
	// the persisted centroid-to-centroid table (used for point-to-point distances while pruning) holds the
	// distance between the persisted centroids
	if want := p.NumSub * p.NumCentroids * p.NumCentroids; len(c.Bucket.CDists) != want {
		return fmt.Errorf("persisted centroid distance table has %d entries, expected %d", len(c.Bucket.CDists), want)
	}
	for sv := 0; sv < p.NumSub; sv++ {
		for j := 0; j < p.NumCentroids; j++ {
			for k := 0; k < p.NumCentroids; k++ {
				cj := p.Centroids[sv*p.NumCentroids*p.SubLen+j*p.SubLen : sv*p.NumCentroids*p.SubLen+(j+1)*p.SubLen]
				ck := p.Centroids[sv*p.NumCentroids*p.SubLen+k*p.SubLen : sv*p.NumCentroids*p.SubLen+(k+1)*p.SubLen]
				ref, tol, _ := model.RefDistance(p.DistMetric, cj, ck)
				got := float64(c.Bucket.CDists[sv*p.NumCentroids*p.NumCentroids+j*p.NumCentroids+k])
				if math.Abs(got-ref) > tol+1e-6*math.Abs(ref) {
					return fmt.Errorf("centroid distance table: sub-vector %d centroids %d,%d holds %v, the %s distance between the persisted centroids %v and %v is %v", sv, j, k, got, p.DistMetric, cj, ck, ref)
				}
			}
		}
	}
	for id, d := range c.M.Docs {
		vec, ok := model.FieldVector(d, prop)
		if !ok {
			continue
		}
		code, ok := c.Bucket.Codes[c.Points.IdToNode[id]]
		if !ok || len(code) != p.NumSub {
			return fmt.Errorf("point %s has no %d-byte product code after training (code %v)", id, p.NumSub, code)
		}
		for sv := 0; sv < p.NumSub; sv++ {
			if int(code[sv]) >= p.NumCentroids {
				return fmt.Errorf("point %s: code %d of sub-vector %d is not one of the %d centroids", id, code[sv], sv, p.NumCentroids)
			}
		}
		if !post[id] {
			continue
		}
		for sv := 0; sv < p.NumSub; sv++ {
			sub := vec[sv*p.SubLen : (sv+1)*p.SubLen]
			chosen := int(code[sv])
			start := sv*p.NumCentroids*p.SubLen + chosen*p.SubLen
			dChosen, tolC, _ := model.RefDistance(p.DistMetric, sub, p.Centroids[start:start+p.SubLen])
			for k := 0; k < p.NumCentroids; k++ {
				s2 := sv*p.NumCentroids*p.SubLen + k*p.SubLen
				dk, tolK, _ := model.RefDistance(p.DistMetric, sub, p.Centroids[s2:s2+p.SubLen])
				if dk+tolK+tolC < dChosen {
					return fmt.Errorf("point %s written after training carries centroid %d for sub-vector %d (distance %v) although centroid %d is nearer (%v)", id, chosen, sv, dChosen, k, dk)
				}
			}
		}
	}
	return nil
}
