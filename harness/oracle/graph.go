package oracle

import (
	"fmt"
	"sort"

	"github.com/google/uuid"
	"verif/model"
)

// CheckGraph verifies the well-formedness of a persisted similarity graph:
// one node and one vector per live point carrying the field plus the entry
// node (id 1); every edge leads to an existing node other than its source; no
// node except the entry node exceeds the degree bound; the recorded maximum
// node id bounds all ids in use.
func CheckGraph(c VecContext, prop string, degreeBound int) error {
	want := map[uint64]uuid.UUID{}
	for id, d := range c.M.Docs {
		if _, ok := model.FieldVector(d, prop); ok {
			n, ok := c.Points.IdToNode[id]
			if !ok {
				return fmt.Errorf("point %s has no node id", id)
			}
			if other, dup := want[n]; dup {
				return fmt.Errorf("points %s and %s share node id %d", id, other, n)
			}
			want[n] = id
		}
	}
	b := c.Bucket
	if len(b.Edges) == 0 && len(b.Vectors) == 0 && len(b.Codes) == 0 {
		if len(want) > 0 {
			return fmt.Errorf("%d live points carry %s but the graph bucket is empty", len(want), prop)
		}
		return nil
	}
	if _, ok := b.Edges[1]; !ok {
		return fmt.Errorf("the entry node has no edge list")
	}
	// node set == vector set == live ∪ {1}
	nodes := map[uint64]bool{}
	for n := range b.Edges {
		nodes[n] = true
	}
	vecs := map[uint64]bool{}
	for n := range b.Vectors {
		vecs[n] = true
	}
	for n := range b.Codes {
		vecs[n] = true
	}
	var problems []string
	for n := range nodes {
		if !vecs[n] {
			problems = append(problems, fmt.Sprintf("node %d has an edge list but no vector", n))
		}
		if _, ok := want[n]; !ok && n != 1 {
			problems = append(problems, fmt.Sprintf("node %d is in the graph but belongs to no live point carrying the field", n))
		}
	}
	for n := range vecs {
		if !nodes[n] {
			problems = append(problems, fmt.Sprintf("node %d has a vector but no edge list", n))
		}
	}
	for n, id := range want {
		if !nodes[n] {
			problems = append(problems, fmt.Sprintf("live point %s (node %d) carries the field but has no graph node", id, n))
		}
	}
	for n, edges := range b.Edges {
		if n != 1 && len(edges) > degreeBound {
			problems = append(problems, fmt.Sprintf("node %d has %d edges, degree bound is %d", n, len(edges), degreeBound))
		}
		for _, e := range edges {
			if e == n {
				problems = append(problems, fmt.Sprintf("node %d has an edge to itself", n))
			}
			if !nodes[e] {
				problems = append(problems, fmt.Sprintf("node %d has an edge to %d which is not a node of the graph", n, e))
			}
		}
	}
	if b.MaxNodeId == nil {
		problems = append(problems, "no maximum node id recorded")
	} else {
		for n := range nodes {
			if n > *b.MaxNodeId {
				problems = append(problems, fmt.Sprintf("node %d exceeds the recorded maximum node id %d", n, *b.MaxNodeId))
			}
		}
	}
	if len(problems) > 0 {
		sort.Strings(problems)
		if len(problems) > 8 {
			problems = append(problems[:8], fmt.Sprintf("… %d more", len(problems)-8))
		}
		return fmt.Errorf("graph of %s malformed: %v", prop, problems)
	}
	return nil
}
