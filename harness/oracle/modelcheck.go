package oracle

import (
	"fmt"
	"sort"

	"github.com/google/uuid"
	"github.com/semafind/semadb/models"
	"verif/drive"
	"verif/model"
)

// CheckDocs compares every stored document with the model (select-all read).
func CheckDocs(s *drive.Shard, m *model.Collection, pool []uuid.UUID) error {
	cnt, err := s.PointCount()
	if err != nil {
		return err
	}
	if int(cnt) != len(m.Docs) {
		return fmt.Errorf("reported point count %d, model has %d", cnt, len(m.Docs))
	}
	all := make([]string, 0, len(pool))
	for _, id := range pool {
		all = append(all, id.String())
	}
	if len(all) == 0 {
		return nil
	}
	rows, err := s.Search(models.SearchRequest{Query: models.Query{Property: "_id", StringArray: &models.SearchStringArrayOptions{Value: all, Operator: models.OperatorContainsAny}}, Select: []string{"*"}})
	if err != nil {
		return err
	}
	inPool := 0
	for _, id := range pool {
		if _, ok := m.Docs[id]; ok {
			inPool++
		}
	}
	if len(rows) != inPool {
		return fmt.Errorf("%d points returned by the select-all read, model has %d", len(rows), inPool)
	}
	for _, r := range rows {
		want, ok := m.Docs[r.Id]
		if !ok || !model.DocEqual(map[string]any(want), r.Doc) {
			return fmt.Errorf("document of %s is %s, model has %s", r.Id, model.Show(r.Doc), model.Show(map[string]any(want)))
		}
	}
	return nil
}

// CheckSuiteAgainstModel runs a query suite and judges every answer against
// the reference model: filters by set equality, text by tf-idf, flat search as
// exact k-NN, graph search by validity.
func CheckSuiteAgainstModel(s *drive.Shard, m *model.Collection, suite []models.Query) error {
	ctxs := map[string]VecContext{}
	for i, q := range suite {
		rows, err := s.Search(models.SearchRequest{Query: q})
		if err != nil {
			return fmt.Errorf("suite query %s failed: %v", queryName(i, q), err)
		}
		switch {
		case q.Text != nil:
			tq := TextQuery{Prop: q.Property, Value: q.Text.Value, Operator: q.Text.Operator, Limit: q.Text.Limit, Weight: q.Text.Weight, Filter: q.Text.Filter}
			if _, err := CheckText(m, tq, rows); err != nil {
				return fmt.Errorf("suite query %s: %v", queryName(i, q), err)
			}
		case q.VectorFlat != nil || q.VectorVamana != nil:
			ctx, ok := ctxs[q.Property]
			if !ok {
				ctx, err = ContextOf(s, m, q.Property)
				if err != nil {
					return err
				}
				ctxs[q.Property] = ctx
			}
			var vq VecQuery
			exact := false
			if q.VectorFlat != nil {
				vq = VecQuery{Prop: q.Property, Vector: q.VectorFlat.Vector, Limit: q.VectorFlat.Limit, Weight: q.VectorFlat.Weight, Filter: q.VectorFlat.Filter}
				exact = true
			} else {
				vq = VecQuery{Prop: q.Property, Vector: q.VectorVamana.Vector, Limit: q.VectorVamana.Limit, SearchSize: q.VectorVamana.SearchSize, Weight: q.VectorVamana.Weight, Filter: q.VectorVamana.Filter}
			}
			if err := CheckVectorRows(ctx, vq, rows, exact); err != nil {
				return fmt.Errorf("suite query %s: %v", queryName(i, q), err)
			}
		default:
			b, err := m.EvalFilter(q)
			if err != nil {
				return err
			}
			if err := b.Check(drive.RowIds(rows)); err != nil {
				return fmt.Errorf("suite query %s: %v", queryName(i, q), err)
			}
		}
	}
	// persisted vector state
	var props []string
	for p := range s.Col.IndexSchema {
		props = append(props, p)
	}
	sort.Strings(props)
	for _, p := range props {
		sv := s.Col.IndexSchema[p]
		if sv.Type != models.IndexTypeVectorFlat && sv.Type != models.IndexTypeVectorVamana {
			continue
		}
		ctx, ok := ctxs[p]
		if !ok {
			var err error
			if ctx, err = ContextOf(s, m, p); err != nil {
				return err
			}
		}
		if err := CheckVecStore(ctx, p, sv.Type == models.IndexTypeVectorVamana); err != nil {
			return err
		}
		if sv.Type == models.IndexTypeVectorVamana {
			if err := CheckGraph(ctx, p, sv.VectorVamana.DegreeBound); err != nil {
				return err
			}
		}
	}
	return nil
}
