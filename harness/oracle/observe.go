package oracle

import (
	"crypto/sha256"
	"encoding/hex"
	"fmt"
	"math"
	"sort"
	"strings"

	"github.com/google/uuid"
	"github.com/semafind/semadb/models"
	"verif/drive"
	"verif/gen"
	"verif/model"
)

// Observation is everything a client (and a raw reader of the file) can see of
// a shard: named components with a printable value, compared by equality.
type Observation map[string]string

// Diff returns the names (and values) of the components that differ.
func (o Observation) Diff(p Observation) string {
	var names []string
	for k := range o {
		if p[k] != o[k] {
			names = append(names, k)
		}
	}
	for k := range p {
		if _, ok := o[k]; !ok {
			names = append(names, k)
		}
	}
	sort.Strings(names)
	if len(names) == 0 {
		return ""
	}
	s := fmt.Sprintf("%d components differ: ", len(names))
	for i, n := range names {
		if i >= 4 {
			s += fmt.Sprintf("… and %d more", len(names)-i)
			break
		}
		a, b := o[n], p[n]
		if len(a) > 300 {
			a = a[:300] + "…"
		}
		if len(b) > 300 {
			b = b[:300] + "…"
		}
		s += fmt.Sprintf("[%s: %s  VERSUS  %s] ", n, a, b)
	}
	return s
}

// Suite is a fixed set of queries derived from the schema alone.
func Suite(schema models.IndexSchema) []models.Query {
	var qs []models.Query
	for _, p := range gen.SortedProps(schema) {
		sv := schema[p]
		switch sv.Type {
		case models.IndexTypeString:
			for _, v := range []string{"a", "A", "ab", "é", "z"} {
				for _, op := range []string{models.OperatorEquals, models.OperatorNotEquals, models.OperatorStartsWith, models.OperatorGreaterOrEq, models.OperatorLessThan} {
					qs = append(qs, models.Query{Property: p, String: &models.SearchStringOptions{Value: v, Operator: op}})
				}
			}
			qs = append(qs, models.Query{Property: p, String: &models.SearchStringOptions{Value: "A", EndValue: "z", Operator: models.OperatorInRange}})
		case models.IndexTypeStringArray:
			qs = append(qs, models.Query{Property: p, StringArray: &models.SearchStringArrayOptions{Value: []string{"a", "b"}, Operator: models.OperatorContainsAny}},
				models.Query{Property: p, StringArray: &models.SearchStringArrayOptions{Value: []string{"a", "ab"}, Operator: models.OperatorContainsAll}},
				models.Query{Property: p, StringArray: &models.SearchStringArrayOptions{Value: []string{"A", "é", "z", "zz", "abc"}, Operator: models.OperatorContainsAny}})
		case models.IndexTypeInteger:
			for _, op := range []string{models.OperatorEquals, models.OperatorNotEquals, models.OperatorGreaterThan, models.OperatorLessOrEq} {
				for _, v := range []int64{0, 1, -1, 3} {
					qs = append(qs, models.Query{Property: p, Integer: &models.SearchIntegerOptions{Value: v, Operator: op}})
				}
			}
			qs = append(qs, models.Query{Property: p, Integer: &models.SearchIntegerOptions{Value: math.MinInt64, EndValue: math.MaxInt64, Operator: models.OperatorInRange}})
		case models.IndexTypeFloat:
			for _, op := range []string{models.OperatorEquals, models.OperatorNotEquals, models.OperatorGreaterOrEq, models.OperatorLessThan} {
				for _, v := range []float64{0, 0.5, -1.5} {
					qs = append(qs, models.Query{Property: p, Float: &models.SearchFloatOptions{Value: v, Operator: op}})
				}
			}
			qs = append(qs, models.Query{Property: p, Float: &models.SearchFloatOptions{Value: -math.MaxFloat64, EndValue: math.MaxFloat64, Operator: models.OperatorInRange}})
		case models.IndexTypeText:
			for _, v := range []string{"gandalf", "ring wizard", "frodo shire", "the café 42"} {
				for _, op := range []string{models.OperatorContainsAll, models.OperatorContainsAny} {
					qs = append(qs, models.Query{Property: p, Text: &models.SearchTextOptions{Value: v, Operator: op, Limit: 75}})
				}
			}
		case models.IndexTypeVectorFlat, models.IndexTypeVectorVamana:
			dim, metric := gen.VectorParams(sv)
			for k := 0; k < 3; k++ {
				v := make([]float32, dim)
				for i := range v {
					switch k {
					case 0:
						v[i] = 0
					case 1:
						v[i] = 1
					default:
						v[i] = float32((i*7+3)%5)/2 - 1
					}
				}
				if metric == models.DistanceCosine {
					var n float64
					for _, x := range v {
						n += float64(x) * float64(x)
					}
					if n == 0 {
						v[0] = 1
						n = 1
					}
					for i := range v {
						v[i] = float32(float64(v[i]) / math.Sqrt(n))
					}
				}
				if sv.Type == models.IndexTypeVectorFlat {
					qs = append(qs, models.Query{Property: p, VectorFlat: &models.SearchVectorFlatOptions{Vector: v, Operator: models.OperatorNear, Limit: 75}})
				} else {
					qs = append(qs, models.Query{Property: p, VectorVamana: &models.SearchVectorVamanaOptions{Vector: v, Operator: models.OperatorNear, Limit: 75, SearchSize: 75}})
				}
			}
		}
	}
	return qs
}

func queryName(i int, q models.Query) string {
	switch {
	case q.String != nil:
		return fmt.Sprintf("q%02d %s %s %q", i, q.Property, q.String.Operator, q.String.Value)
	case q.StringArray != nil:
		return fmt.Sprintf("q%02d %s %s %q", i, q.Property, q.StringArray.Operator, q.StringArray.Value)
	case q.Integer != nil:
		return fmt.Sprintf("q%02d %s %s %d", i, q.Property, q.Integer.Operator, q.Integer.Value)
	case q.Float != nil:
		return fmt.Sprintf("q%02d %s %s %v", i, q.Property, q.Float.Operator, q.Float.Value)
	case q.Text != nil:
		return fmt.Sprintf("q%02d %s %s %q limit %d filter=%v", i, q.Property, q.Text.Operator, q.Text.Value, q.Text.Limit, q.Text.Filter != nil)
	case q.VectorFlat != nil:
		return fmt.Sprintf("q%02d %s flat %v limit %d filter=%v", i, q.Property, q.VectorFlat.Vector, q.VectorFlat.Limit, q.VectorFlat.Filter != nil)
	case q.VectorVamana != nil:
		return fmt.Sprintf("q%02d %s graph %v limit %d searchSize %d filter=%v", i, q.Property, q.VectorVamana.Vector, q.VectorVamana.Limit, q.VectorVamana.SearchSize, q.VectorVamana.Filter != nil)
	}
	return fmt.Sprintf("q%02d %s tree", i, q.Property)
}

// ObserveOpts selects what goes into an observation.
type ObserveOpts struct {
	RawBuckets bool // digests of every raw bucket (same-file comparisons only)
	GraphLists bool // graph answers verbatim (same-file comparisons only)
}

// Observe gathers the observation of an instance.
func Observe(s *drive.Shard, pool []uuid.UUID, suite []models.Query, o ObserveOpts) (Observation, error) {
	obs := Observation{}
	cnt, err := s.PointCount()
	if err != nil {
		return nil, fmt.Errorf("Info: %v", err)
	}
	obs["pointCount"] = fmt.Sprint(cnt)
	all := make([]string, len(pool))
	for i, id := range pool {
		all[i] = id.String()
	}
	if len(all) > 0 {
		rows, err := s.Search(models.SearchRequest{Query: models.Query{Property: "_id", StringArray: &models.SearchStringArrayOptions{Value: all, Operator: models.OperatorContainsAny}}, Select: []string{"*"}})
		if err != nil {
			return nil, fmt.Errorf("select-all read: %v", err)
		}
		var docs []string
		for _, r := range rows {
			docs = append(docs, r.Id.String()+"="+model.Show(r.Doc))
		}
		sort.Strings(docs)
		obs["documents"] = strings.Join(docs, "; ")
	}
	for i, q := range suite {
		rows, err := s.Search(models.SearchRequest{Query: q})
		if err != nil {
			return nil, fmt.Errorf("suite query %s: %v", queryName(i, q), err)
		}
		if q.VectorVamana != nil && !o.GraphLists {
			continue
		}
		limit := 0
		switch {
		case q.Text != nil:
			limit = q.Text.Limit
		case q.VectorFlat != nil:
			limit = q.VectorFlat.Limit
		case q.VectorVamana != nil:
			limit = q.VectorVamana.Limit
		}
		// when an exact index had to cut at the limit, which of several equally ranked points
		// survive is unspecified: then only the keys (distances / scores) are part of the observation
		cut := limit > 0 && len(rows) == limit && q.VectorVamana == nil
		manyTerms := q.Text != nil && len(model.QueryTerms(q.Text.Value)) > 2
		var parts []string
		for _, r := range rows {
			p := ""
			if !cut {
				p = r.Id.String()[:13]
			}
			if r.Distance != nil {
				p += fmt.Sprintf(" d=%v", *r.Distance)
			}
			if r.Score != nil && !manyTerms {
				// scores of more than two terms are summed in map order: last bits may differ between evaluations
				p += fmt.Sprintf(" s=%v", *r.Score)
			}
			parts = append(parts, p)
		}
		if q.VectorVamana == nil {
			// unordered (filters) or ordered up to ties (exact ranked indexes): compare as sorted lists
			sort.Strings(parts)
		}
		obs[queryName(i, q)] = strings.Join(parts, ", ")
	}
	if o.RawBuckets {
		names := drive.BucketNames(s.Col.IndexSchema)
		d, err := s.Dump(names...)
		if err != nil {
			return nil, err
		}
		for _, n := range names {
			obs["bucket "+n] = digest(d[n])
		}
	}
	return obs, nil
}

func digest(kv map[string][]byte) string {
	keys := make([]string, 0, len(kv))
	for k := range kv {
		keys = append(keys, k)
	}
	sort.Strings(keys)
	h := sha256.New()
	for _, k := range keys {
		fmt.Fprintf(h, "%d:%s=%d:", len(k), k, len(kv[k]))
		h.Write(kv[k])
	}
	return fmt.Sprintf("%d keys %s", len(keys), hex.EncodeToString(h.Sum(nil)[:8]))
}
