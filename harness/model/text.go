package model

import (
	"fmt"
	"math"
	"sort"
	"sync"

	"github.com/blevesearch/bleve/v2/analysis"
	_ "github.com/blevesearch/bleve/v2/analysis/analyzer/standard"
	"github.com/blevesearch/bleve/v2/registry"
	"github.com/google/uuid"
)

var (
	analyserOnce sync.Once
	analyser     analysis.Analyzer
)

// Analyse runs bleve's "standard" analyser (the definition of tokenisation for
// the text index) directly from bleve's registry.
func Analyse(text string) []string {
	analyserOnce.Do(func() {
		a, err := registry.NewCache().AnalyzerNamed("standard")
		if err != nil {
			panic(err)
		}
		analyser = a
	})
	ts := analyser.Analyze([]byte(text))
	out := make([]string, len(ts))
	for i, t := range ts {
		out[i] = string(t.Term)
	}
	return out
}

// TextDoc is the analysed form of a text field.
type TextDoc struct {
	Freq map[string]int
	Len  int
}

// TextCorpus is the current corpus of a text property: documents whose field
// analyses to at least one token.
type TextCorpus struct {
	Docs map[uuid.UUID]TextDoc
	DF   map[string]int
}

func (c *Collection) TextCorpus(prop string) *TextCorpus {
	tc := &TextCorpus{Docs: map[uuid.UUID]TextDoc{}, DF: map[string]int{}}
	for id, d := range c.Docs {
		s, ok := FieldString(d, prop)
		if !ok {
			continue
		}
		toks := Analyse(s)
		if len(toks) == 0 {
			continue
		}
		td := TextDoc{Freq: map[string]int{}, Len: len(toks)}
		for _, t := range toks {
			td.Freq[t]++
		}
		tc.Docs[id] = td
		for t := range td.Freq {
			tc.DF[t]++
		}
	}
	return tc
}

// QueryTerms returns the distinct analysed terms of a query, sorted.
func QueryTerms(q string) []string {
	set := map[string]bool{}
	for _, t := range Analyse(q) {
		set[t] = true
	}
	r := make([]string, 0, len(set))
	for t := range set {
		r = append(r, t)
	}
	sort.Strings(r)
	return r
}

// Matches says whether a document matches the query terms under the operator.
func (tc *TextCorpus) Matches(id uuid.UUID, terms []string, all bool) bool {
	d, ok := tc.Docs[id]
	if !ok || len(terms) == 0 {
		return false
	}
	anyHit := false
	for _, t := range terms {
		if d.Freq[t] > 0 {
			anyHit = true
		} else if all {
			return false
		}
	}
	return anyHit
}

// Score is the tf-idf score of the property statement: sum over distinct query
// terms of (frequency / document length) * log10(corpus size / (document frequency + 1)).
func (tc *TextCorpus) Score(id uuid.UUID, terms []string) (score, tol float64) {
	d := tc.Docs[id]
	n := float64(len(tc.Docs))
	var abs float64
	for _, t := range terms {
		tf := float64(d.Freq[t]) / float64(d.Len)
		idf := math.Log10(n / float64(tc.DF[t]+1))
		score += tf * idf
		abs += math.Abs(tf * idf)
	}
	return score, 1e-4*abs + 1e-6
}

func (tc *TextCorpus) String() string {
	return fmt.Sprintf("corpus of %d documents, %d terms", len(tc.Docs), len(tc.DF))
}
