package model

import (
	"fmt"
	"math"
	"math/bits"

	"github.com/semafind/semadb/models"
)

const u32 = 1.0 / (1 << 24)

// RefDistance computes the float64 reference of a float metric together with
// the rounding allowance for a float32 implementation that accumulates in any
// order, with or without fused multiply-add.
func RefDistance(metric string, q, v []float32) (ref, tol float64, err error) {
	if len(q) != len(v) {
		return 0, 0, fmt.Errorf("length mismatch %d vs %d", len(q), len(v))
	}
	n := float64(len(q))
	switch metric {
	case models.DistanceEuclidean:
		var s float64
		for i := range q {
			d := float64(q[i]) - float64(v[i])
			s += d * d
		}
		tol := (n+8)*2*u32*s + n*1e-42
		// a float32 implementation overflows to +Inf beyond MaxFloat32; right at the edge either is fine
		switch {
		case s-tol > math.MaxFloat32:
			return math.Inf(1), 0, nil
		case s+tol > math.MaxFloat32:
			return s, math.Inf(1), nil
		}
		return s, tol, nil
	case models.DistanceDot, models.DistanceCosine:
		var s, a float64
		for i := range q {
			p := float64(q[i]) * float64(v[i])
			s += p
			a += math.Abs(p)
		}
		if metric == models.DistanceDot {
			return -s, (n+8)*2*u32*a + n*1e-42, nil
		}
		return 1 - s, (n+8)*2*u32*(a+1) + n*1e-42, nil
	case models.DistanceHaversine:
		if len(q) != 2 {
			return 0, 0, fmt.Errorf("haversine needs 2 coordinates")
		}
		const R = 6371000.0
		rad := math.Pi / 180
		p1, l1, p2, l2 := float64(q[0])*rad, float64(q[1])*rad, float64(v[0])*rad, float64(v[1])*rad
		dl := l2 - l1
		num := math.Hypot(math.Cos(p2)*math.Sin(dl), math.Cos(p1)*math.Sin(p2)-math.Sin(p1)*math.Cos(p2)*math.Cos(dl))
		den := math.Sin(p1)*math.Sin(p2) + math.Cos(p1)*math.Cos(p2)*math.Cos(dl)
		d := R * math.Atan2(num, den)
		return d, 0.5 + 1e-6*d, nil
	}
	return 0, 0, fmt.Errorf("no float reference for metric %q", metric)
}

// Bits thresholds a vector: bit i is set iff v[i] > threshold[i].
func Bits(v []float32, threshold []float32) []uint64 {
	w := make([]uint64, (len(v)+63)/64)
	for i, x := range v {
		if x > threshold[i] {
			w[i/64] |= 1 << (i % 64)
		}
	}
	return w
}

// BitDistance is the popcount definition of hamming / jaccard, evaluated in
// float32 the way a result is reported.
func BitDistance(metric string, a, b []uint64) (float32, error) {
	if len(a) != len(b) {
		return 0, fmt.Errorf("bit vector length mismatch %d vs %d", len(a), len(b))
	}
	diff, inter, union := 0, 0, 0
	for i := range a {
		diff += bits.OnesCount64(a[i] ^ b[i])
		inter += bits.OnesCount64(a[i] & b[i])
		union += bits.OnesCount64(a[i] | b[i])
	}
	switch metric {
	case models.DistanceHamming:
		return float32(diff), nil
	case models.DistanceJaccard:
		if union == 0 {
			return 0, nil
		}
		return 1 - float32(inter)/float32(union), nil
	}
	return 0, fmt.Errorf("no bit distance %q", metric)
}

// VecOracle gives the distance an index must report between a query and a
// stored vector, given the index parameters and what is persisted.
type VecOracle struct {
	Metric    string    // configured metric
	Dim       int
	BitMetric string    // non-empty when distances are bit distances (metric hamming/jaccard or trained binary quantiser)
	Threshold []float32 // per-dimension threshold when BitMetric != ""
	// Product quantiser, when trained
	PQ *PQParams
}

type PQParams struct {
	NumCentroids, NumSub, SubLen int
	Centroids                    []float32 // flat [sub][centroid][subLen]
	DistMetric                   string    // euclidean or dot (cosine is mapped to euclidean)
}

func constThreshold(dim int, t float32) []float32 {
	r := make([]float32, dim)
	for i := range r {
		r[i] = t
	}
	return r
}

// NewVecOracle derives the oracle from the schema parameters and the persisted
// quantiser state (persistedThreshold / centroids are nil when absent).
func NewVecOracle(metric string, dim int, q *models.Quantizer, persistedThreshold []float32, centroids []float32) (*VecOracle, error) {
	o := &VecOracle{Metric: metric, Dim: dim}
	if metric == models.DistanceHamming || metric == models.DistanceJaccard {
		o.BitMetric = metric
		o.Threshold = constThreshold(dim, 0.5)
		return o, nil
	}
	if q == nil || q.Type == models.QuantizerNone {
		return o, nil
	}
	switch q.Type {
	case models.QuantizerBinary:
		if q.Binary.Threshold != nil {
			o.BitMetric = q.Binary.DistanceMetric
			o.Threshold = constThreshold(dim, *q.Binary.Threshold)
		} else if persistedThreshold != nil {
			if len(persistedThreshold) != dim {
				return nil, fmt.Errorf("persisted binary threshold has %d entries for dimension %d", len(persistedThreshold), dim)
			}
			o.BitMetric = q.Binary.DistanceMetric
			o.Threshold = persistedThreshold
		}
	case models.QuantizerProduct:
		if metric == models.DistanceCosine {
			// a product-quantised cosine index is a euclidean index by construction
			// (shard/vectorstore/product.go: "for normalised vectors euclidean distance
			// = 2*cosine distance"), before and after training
			o.Metric = models.DistanceEuclidean
		}
		if centroids != nil {
			p := &PQParams{NumCentroids: q.Product.NumCentroids, NumSub: q.Product.NumSubVectors, SubLen: dim / q.Product.NumSubVectors, DistMetric: metric}
			if metric == models.DistanceCosine {
				p.DistMetric = models.DistanceEuclidean
			}
			if len(centroids) != p.NumSub*p.NumCentroids*p.SubLen {
				return nil, fmt.Errorf("persisted centroids have %d floats, expected %d", len(centroids), p.NumSub*p.NumCentroids*p.SubLen)
			}
			p.Centroids = centroids
			o.PQ = p
		}
	}
	return o, nil
}

// Quantised reports whether distances are quantised ones.
func (o *VecOracle) Quantised() bool { return o.BitMetric != "" || o.PQ != nil }

// Distance returns the expected reported distance between query q and a stored
// vector v (codes: the stored product-quantiser code of the point, only used
// when PQ is trained) and the tolerance.
func (o *VecOracle) Distance(q, v []float32, code []byte) (ref, tol float64, err error) {
	switch {
	case o.BitMetric != "":
		d, err := BitDistance(o.BitMetric, Bits(q, o.Threshold), Bits(v, o.Threshold))
		return float64(d), 0, err
	case o.PQ != nil:
		p := o.PQ
		if len(code) != p.NumSub {
			return 0, 0, fmt.Errorf("stored product code has %d entries, expected %d", len(code), p.NumSub)
		}
		var sum, tolSum float64
		for i := 0; i < p.NumSub; i++ {
			c := int(code[i])
			if c >= p.NumCentroids {
				return 0, 0, fmt.Errorf("stored centroid id %d out of range", c)
			}
			start := i*p.NumCentroids*p.SubLen + c*p.SubLen
			r, t, err := RefDistance(p.DistMetric, q[i*p.SubLen:(i+1)*p.SubLen], p.Centroids[start:start+p.SubLen])
			if err != nil {
				return 0, 0, err
			}
			sum += r
			tolSum += t + math.Abs(r)*2*u32
		}
		tol := tolSum + math.Abs(sum)*float64(p.NumSub)*u32
		// the float32 sum of the sub-distances overflows to an infinity beyond MaxFloat32
		if !math.IsInf(sum, 0) && !math.IsNaN(tol) {
			switch {
			case math.Abs(sum)-tol > math.MaxFloat32:
				return math.Inf(int(math.Copysign(1, sum))), 0, nil
			case math.Abs(sum)+tol > math.MaxFloat32:
				return sum, math.Inf(1), nil
			}
		}
		return sum, tol, nil
	default:
		return RefDistance(o.Metric, q, v)
	}
}
