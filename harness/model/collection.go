package model

import (
	"fmt"
	"sort"

	"github.com/google/uuid"
	"github.com/semafind/semadb/models"
)

// Point is a write request element: id plus document.
type Point struct {
	Id  uuid.UUID `json:"id"`
	Doc Doc       `json:"doc"`
}

// Collection is the reference state of one shard.
type Collection struct {
	Schema       models.IndexSchema
	MaxPointSize int
	Docs         map[uuid.UUID]Doc
	// SizeNames: top-level property names under which the documents are really stored (see
	// drive.OpenNamed); they only matter for the encoded size of a merged document
	SizeNames map[string]string
}

func (c *Collection) storedSize(d Doc) int {
	if len(c.SizeNames) == 0 {
		return len(Encode(d))
	}
	r := Doc{}
	for k, v := range d {
		if n, ok := c.SizeNames[k]; ok {
			r[n] = v
		} else {
			r[k] = v
		}
	}
	return len(Encode(r))
}

func NewCollection(schema models.IndexSchema, maxPointSize int) *Collection {
	return &Collection{Schema: schema, MaxPointSize: maxPointSize, Docs: map[uuid.UUID]Doc{}}
}

func (c *Collection) Clone() *Collection {
	n := NewCollection(c.Schema, c.MaxPointSize)
	n.SizeNames = c.SizeNames
	for k, v := range c.Docs {
		n.Docs[k] = CloneDoc(v)
	}
	return n
}

// Ids returns the stored ids in sorted order.
func (c *Collection) Ids() []uuid.UUID {
	ids := make([]uuid.UUID, 0, len(c.Docs))
	for id := range c.Docs {
		ids = append(ids, id)
	}
	sort.Slice(ids, func(i, j int) bool { return ids[i].String() < ids[j].String() })
	return ids
}

const DeleteValue = "_delete"

// Insert applies an insert batch. A non-empty reason means the whole batch is
// rejected and nothing changed.
func (c *Collection) Insert(points []Point) (reason string) {
	seen := map[uuid.UUID]bool{}
	for _, p := range points {
		if seen[p.Id] {
			return fmt.Sprintf("id %s repeated in the batch", p.Id)
		}
		seen[p.Id] = true
	}
	for _, p := range points {
		if _, ok := c.Docs[p.Id]; ok {
			return fmt.Sprintf("id %s already stored", p.Id)
		}
	}
	for _, p := range points {
		c.Docs[p.Id] = CloneDoc(p.Doc)
	}
	return ""
}

// Merge is the documented shallow merge of an update into a stored document.
func Merge(stored, incoming Doc) Doc {
	out := CloneDoc(stored)
	if out == nil {
		out = Doc{}
	}
	for k, v := range incoming {
		if s, ok := v.(string); ok && s == DeleteValue {
			delete(out, k)
		} else {
			out[k] = Clone(v)
		}
	}
	return out
}

// Update applies an update batch in order. Unknown ids are skipped. If a merged
// document exceeds MaxPointSize the whole batch is rejected.
func (c *Collection) Update(points []Point) (updated []uuid.UUID, reason string) {
	work := map[uuid.UUID]Doc{}
	for _, p := range points {
		cur, ok := work[p.Id]
		if !ok {
			cur, ok = c.Docs[p.Id]
			if !ok {
				continue
			}
		}
		merged := Merge(cur, p.Doc)
		if c.MaxPointSize > 0 && c.storedSize(merged) > c.MaxPointSize {
			return nil, fmt.Sprintf("merged document of %s exceeds %d bytes", p.Id, c.MaxPointSize)
		}
		work[p.Id] = merged
		updated = append(updated, p.Id)
	}
	for id, d := range work {
		c.Docs[id] = d
	}
	return updated, ""
}

// Delete removes known ids and returns them.
func (c *Collection) Delete(ids []uuid.UUID) (deleted []uuid.UUID) {
	seen := map[uuid.UUID]bool{}
	for _, id := range ids {
		if seen[id] {
			continue
		}
		seen[id] = true
		if _, ok := c.Docs[id]; ok {
			delete(c.Docs, id)
			deleted = append(deleted, id)
		}
	}
	return deleted
}

// IdSet is a set of point ids.
type IdSet map[uuid.UUID]struct{}

func (s IdSet) Has(id uuid.UUID) bool { _, ok := s[id]; return ok }
func (s IdSet) Add(id uuid.UUID)      { s[id] = struct{}{} }
func (s IdSet) Sorted() []string {
	r := make([]string, 0, len(s))
	for id := range s {
		r = append(r, id.String())
	}
	sort.Strings(r)
	return r
}

func (s IdSet) Equal(o IdSet) bool {
	if len(s) != len(o) {
		return false
	}
	for k := range s {
		if !o.Has(k) {
			return false
		}
	}
	return true
}

// Diff describes the difference of two sets briefly.
func (s IdSet) Diff(o IdSet) string {
	var missing, extra []string
	for k := range s {
		if !o.Has(k) {
			missing = append(missing, k.String())
		}
	}
	for k := range o {
		if !s.Has(k) {
			extra = append(extra, k.String())
		}
	}
	sort.Strings(missing)
	sort.Strings(extra)
	if len(missing) > 6 {
		missing = append(missing[:6], fmt.Sprintf("… %d more", len(missing)-6))
	}
	if len(extra) > 6 {
		extra = append(extra[:6], fmt.Sprintf("… %d more", len(extra)-6))
	}
	return fmt.Sprintf("expected-but-absent=%v unexpected=%v", missing, extra)
}
