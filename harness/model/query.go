package model

import (
	"fmt"
	"math"
	"strings"

	"github.com/google/uuid"
	"github.com/semafind/semadb/models"
)

// ---------------------------------------------------------------------------
// typed access to (possibly nested) indexed fields

func FieldString(d Doc, path string) (string, bool) {
	v, ok := Lookup(d, path)
	if !ok {
		return "", false
	}
	s, ok := v.(string)
	return s, ok
}

func FieldInt(d Doc, path string) (int64, bool) {
	v, ok := Lookup(d, path)
	if !ok {
		return 0, false
	}
	i, ok := Canon(v).(int64)
	if _, isFloat := v.(float64); isFloat {
		return 0, false
	}
	return i, ok
}

func FieldFloat(d Doc, path string) (float64, bool) {
	v, ok := Lookup(d, path)
	if !ok {
		return 0, false
	}
	f, ok := v.(float64)
	return f, ok
}

func FieldStrings(d Doc, path string) ([]string, bool) {
	v, ok := Lookup(d, path)
	if !ok {
		return nil, false
	}
	switch x := v.(type) {
	case []string:
		return x, true
	case []any:
		r := make([]string, len(x))
		for i, e := range x {
			s, ok := e.(string)
			if !ok {
				return nil, false
			}
			r[i] = s
		}
		return r, true
	}
	return nil, false
}

func FieldVector(d Doc, path string) ([]float32, bool) {
	v, ok := Lookup(d, path)
	if !ok {
		return nil, false
	}
	switch x := v.(type) {
	case []float32:
		return x, true
	case []any:
		r := make([]float32, len(x))
		for i, e := range x {
			switch f := e.(type) {
			case float32:
				r[i] = f
			case float64:
				r[i] = float32(f)
			default:
				return nil, false
			}
		}
		return r, true
	}
	return nil, false
}

// HasIndexedField says whether the document carries a value for the index.
func HasIndexedField(d Doc, path string, typ string) bool {
	switch typ {
	case models.IndexTypeString, models.IndexTypeText:
		_, ok := FieldString(d, path)
		return ok
	case models.IndexTypeInteger:
		_, ok := FieldInt(d, path)
		return ok
	case models.IndexTypeFloat:
		_, ok := FieldFloat(d, path)
		return ok
	case models.IndexTypeStringArray:
		_, ok := FieldStrings(d, path)
		return ok
	case models.IndexTypeVectorFlat, models.IndexTypeVectorVamana:
		_, ok := FieldVector(d, path)
		return ok
	}
	return false
}

// ---------------------------------------------------------------------------
// filter evaluation

// Bounds is what the specification demands of a filter answer: Must ⊆ answer ⊆ May.
// They differ only where the statement leaves a case open (a stored zero
// compared with the zero of the other sign).
type Bounds struct {
	Must IdSet
	May  IdSet
}

func (b Bounds) Exact() bool { return len(b.Must) == len(b.May) }

// Check verifies an answer against the bounds.
func (b Bounds) Check(got IdSet) error {
	for id := range b.Must {
		if !got.Has(id) {
			return fmt.Errorf("answer lacks %s; %s", id, b.Must.Diff(got))
		}
	}
	for id := range got {
		if !b.May.Has(id) {
			return fmt.Errorf("answer contains %s which does not satisfy the query; %s", id, b.May.Diff(got))
		}
	}
	return nil
}

func fold(s string, caseSensitive bool) string {
	if caseSensitive {
		return s
	}
	return strings.ToLower(s)
}

type tri int

const (
	no tri = iota
	yes
	open
)

func cmpOp[T int64 | string](op string, v, q, end T) (bool, error) {
	switch op {
	case models.OperatorEquals:
		return v == q, nil
	case models.OperatorNotEquals:
		return v != q, nil
	case models.OperatorGreaterThan:
		return v > q, nil
	case models.OperatorGreaterOrEq:
		return v >= q, nil
	case models.OperatorLessThan:
		return v < q, nil
	case models.OperatorLessOrEq:
		return v <= q, nil
	case models.OperatorInRange:
		return v >= q && v <= end, nil
	}
	return false, fmt.Errorf("model: operator %q not defined for this type", op)
}

func floatOp(op string, v, q, end float64) (tri, error) {
	oppositeZero := func(a, b float64) bool { return a == 0 && b == 0 && math.Signbit(a) != math.Signbit(b) }
	b2t := func(b bool) tri {
		if b {
			return yes
		}
		return no
	}
	switch op {
	case models.OperatorEquals, models.OperatorNotEquals, models.OperatorGreaterThan, models.OperatorGreaterOrEq, models.OperatorLessThan, models.OperatorLessOrEq:
		if oppositeZero(v, q) {
			return open, nil
		}
	case models.OperatorInRange:
		if oppositeZero(v, q) || oppositeZero(v, end) {
			return open, nil
		}
	}
	switch op {
	case models.OperatorEquals:
		return b2t(v == q), nil
	case models.OperatorNotEquals:
		return b2t(v != q), nil
	case models.OperatorGreaterThan:
		return b2t(v > q), nil
	case models.OperatorGreaterOrEq:
		return b2t(v >= q), nil
	case models.OperatorLessThan:
		return b2t(v < q), nil
	case models.OperatorLessOrEq:
		return b2t(v <= q), nil
	case models.OperatorInRange:
		return b2t(v >= q && v <= end), nil
	}
	return no, fmt.Errorf("model: operator %q not defined for float", op)
}

// EvalFilter evaluates a filter-only query tree (string, stringArray, integer,
// float, _id leaves and _and/_or nodes) by scanning every document.
func (c *Collection) EvalFilter(q models.Query) (Bounds, error) {
	switch q.Property {
	case "_and", "_or":
		subs := q.And
		if q.Property == "_or" {
			subs = q.Or
		}
		if len(subs) == 0 {
			return Bounds{}, fmt.Errorf("model: empty %s", q.Property)
		}
		var acc Bounds
		for i, sq := range subs {
			b, err := c.EvalFilter(sq)
			if err != nil {
				return Bounds{}, err
			}
			if i == 0 {
				acc = b
				continue
			}
			if q.Property == "_and" {
				acc = Bounds{Must: intersect(acc.Must, b.Must), May: intersect(acc.May, b.May)}
			} else {
				acc = Bounds{Must: union(acc.Must, b.Must), May: union(acc.May, b.May)}
			}
		}
		return acc, nil
	case "_id":
		res := IdSet{}
		var ids []string
		switch {
		case q.String != nil:
			ids = []string{q.String.Value}
		case q.StringArray != nil:
			ids = q.StringArray.Value
		default:
			return Bounds{}, fmt.Errorf("model: bad _id query")
		}
		for _, s := range ids {
			id, err := uuid.Parse(s)
			if err != nil {
				return Bounds{}, err
			}
			if _, ok := c.Docs[id]; ok {
				res.Add(id)
			}
		}
		return Bounds{Must: res, May: res}, nil
	}
	sv, ok := c.Schema[q.Property]
	if !ok {
		return Bounds{}, fmt.Errorf("model: property %q not indexed", q.Property)
	}
	must, may := IdSet{}, IdSet{}
	put := func(id uuid.UUID, t tri) {
		if t == yes {
			must.Add(id)
			may.Add(id)
		} else if t == open {
			may.Add(id)
		}
	}
	b2t := func(b bool) tri {
		if b {
			return yes
		}
		return no
	}
	for id, d := range c.Docs {
		switch sv.Type {
		case models.IndexTypeString:
			v, ok := FieldString(d, q.Property)
			if !ok {
				continue
			}
			cs := sv.String.CaseSensitive
			o := q.String
			fv, fq, fe := fold(v, cs), fold(o.Value, cs), fold(o.EndValue, cs)
			var r bool
			var err error
			if o.Operator == models.OperatorStartsWith {
				r = strings.HasPrefix(fv, fq)
			} else {
				r, err = cmpOp(o.Operator, fv, fq, fe)
			}
			if err != nil {
				return Bounds{}, err
			}
			put(id, b2t(r))
		case models.IndexTypeStringArray:
			vs, ok := FieldStrings(d, q.Property)
			if !ok {
				continue
			}
			cs := sv.StringArray.CaseSensitive
			set := map[string]bool{}
			for _, s := range vs {
				set[fold(s, cs)] = true
			}
			o := q.StringArray
			all, anyOf := true, false
			for _, s := range o.Value {
				if set[fold(s, cs)] {
					anyOf = true
				} else {
					all = false
				}
			}
			switch o.Operator {
			case models.OperatorContainsAll:
				put(id, b2t(all))
			case models.OperatorContainsAny:
				put(id, b2t(anyOf))
			default:
				return Bounds{}, fmt.Errorf("model: operator %q not defined for stringArray", o.Operator)
			}
		case models.IndexTypeInteger:
			v, ok := FieldInt(d, q.Property)
			if !ok {
				continue
			}
			r, err := cmpOp(q.Integer.Operator, v, q.Integer.Value, q.Integer.EndValue)
			if err != nil {
				return Bounds{}, err
			}
			put(id, b2t(r))
		case models.IndexTypeFloat:
			v, ok := FieldFloat(d, q.Property)
			if !ok {
				continue
			}
			r, err := floatOp(q.Float.Operator, v, q.Float.Value, q.Float.EndValue)
			if err != nil {
				return Bounds{}, err
			}
			put(id, r)
		default:
			return Bounds{}, fmt.Errorf("model: EvalFilter on %s index %q", sv.Type, q.Property)
		}
	}
	return Bounds{Must: must, May: may}, nil
}

func intersect(a, b IdSet) IdSet {
	r := IdSet{}
	for k := range a {
		if b.Has(k) {
			r.Add(k)
		}
	}
	return r
}

func union(a, b IdSet) IdSet {
	r := IdSet{}
	for k := range a {
		r.Add(k)
	}
	for k := range b {
		r.Add(k)
	}
	return r
}
