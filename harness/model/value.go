// Package model is the plain reference model of a semadb collection: documents,
// write semantics and naive query evaluation. It never calls semadb code.
package model

import (
	"encoding/json"
	"fmt"
	"math"
	"sort"
	"strconv"
	"strings"

	"github.com/vmihailenco/msgpack/v5"
)

// Doc is a document in the value types the HTTP layer hands to a shard after
// CheckCompatibleMap: string, int64, float64, bool, nil, map[string]any, []any,
// []string (string arrays) and []float32 (vectors).
type Doc map[string]any

// Canon brings a decoded value (whatever msgpack produced) or a model value into
// one canonical shape so that two documents can be compared: every integer
// becomes int64, float32 becomes float64 (exact), typed slices become []any.
func Canon(v any) any {
	switch x := v.(type) {
	case nil:
		return nil
	case bool, string:
		return x
	case int:
		return int64(x)
	case int8:
		return int64(x)
	case int16:
		return int64(x)
	case int32:
		return int64(x)
	case int64:
		return x
	case uint8:
		return int64(x)
	case uint16:
		return int64(x)
	case uint32:
		return int64(x)
	case uint64:
		if x > math.MaxInt64 {
			return x
		}
		return int64(x)
	case uint:
		return int64(x)
	case float32:
		return float64(x)
	case float64:
		return x
	case []float32:
		r := make([]any, len(x))
		for i, f := range x {
			r[i] = float64(f)
		}
		return r
	case []float64:
		r := make([]any, len(x))
		for i, f := range x {
			r[i] = f
		}
		return r
	case []string:
		r := make([]any, len(x))
		for i, f := range x {
			r[i] = f
		}
		return r
	case []any:
		r := make([]any, len(x))
		for i, f := range x {
			r[i] = Canon(f)
		}
		return r
	case map[string]any:
		r := make(map[string]any, len(x))
		for k, f := range x {
			r[k] = Canon(f)
		}
		return r
	case Doc:
		return Canon(map[string]any(x))
	case []byte:
		return string(x)
	}
	return fmt.Sprintf("<%T %v>", v, v)
}

// Equal compares two canonical values; floats are compared by bit pattern so a
// document must come back exactly as stored.
func Equal(a, b any) bool {
	switch x := a.(type) {
	case nil:
		return b == nil
	case float64:
		y, ok := b.(float64)
		return ok && math.Float64bits(x) == math.Float64bits(y)
	case []any:
		y, ok := b.([]any)
		if !ok || len(x) != len(y) {
			return false
		}
		for i := range x {
			if !Equal(x[i], y[i]) {
				return false
			}
		}
		return true
	case map[string]any:
		y, ok := b.(map[string]any)
		if !ok || len(x) != len(y) {
			return false
		}
		for k, v := range x {
			w, ok := y[k]
			if !ok || !Equal(v, w) {
				return false
			}
		}
		return true
	default:
		return a == b
	}
}

// DocEqual compares two documents after canonicalisation.
func DocEqual(a, b map[string]any) bool {
	return Equal(Canon(a), Canon(b))
}

// Show renders a value deterministically (sorted keys) for messages.
func Show(v any) string {
	switch x := Canon(v).(type) {
	case map[string]any:
		keys := make([]string, 0, len(x))
		for k := range x {
			keys = append(keys, k)
		}
		sort.Strings(keys)
		s := "{"
		for i, k := range keys {
			if i > 0 {
				s += ", "
			}
			s += strconv.Quote(k) + ": " + Show(x[k])
		}
		return s + "}"
	case []any:
		s := "["
		for i, e := range x {
			if i > 0 {
				s += ", "
			}
			if i >= 12 {
				s += fmt.Sprintf("… %d more", len(x)-i)
				break
			}
			s += Show(e)
		}
		return s + "]"
	case string:
		return strconv.Quote(x)
	case float64:
		return strconv.FormatFloat(x, 'g', -1, 64) + "f"
	default:
		return fmt.Sprint(x)
	}
}

// Clone deep-copies a document value.
func Clone(v any) any {
	switch x := v.(type) {
	case map[string]any:
		r := make(map[string]any, len(x))
		for k, f := range x {
			r[k] = Clone(f)
		}
		return r
	case Doc:
		return Doc(Clone(map[string]any(x)).(map[string]any))
	case []any:
		if x == nil {
			return x
		}
		r := make([]any, len(x))
		for i, f := range x {
			r[i] = Clone(f)
		}
		return r
	case []float32:
		if x == nil {
			return x
		}
		return append(make([]float32, 0, len(x)), x...)
	case []string:
		if x == nil {
			return x
		}
		return append(make([]string, 0, len(x)), x...)
	}
	return v
}

// CloneDoc deep-copies a document.
func CloneDoc(d Doc) Doc {
	if d == nil {
		return nil
	}
	return Doc(Clone(map[string]any(d)).(map[string]any))
}

// Encode is the wire form of a document handed to the shard (msgpack, the same
// library the HTTP layer uses).
func Encode(d Doc) []byte {
	b, err := msgpack.Marshal(map[string]any(d))
	if err != nil {
		panic(fmt.Sprintf("model: cannot encode %v: %v", d, err))
	}
	return b
}

// Decode decodes msgpack document bytes generically.
func Decode(b []byte) (map[string]any, error) {
	if len(b) == 0 {
		return map[string]any{}, nil
	}
	var m map[string]any
	if err := msgpack.Unmarshal(b, &m); err != nil {
		return nil, err
	}
	return m, nil
}

// Lookup follows a dotted path through nested maps. ok=false when any segment is
// missing or a non-map is met before the last segment.
func Lookup(d map[string]any, path string) (any, bool) {
	var cur any = d
	start := 0
	for i := 0; i <= len(path); i++ {
		if i == len(path) || path[i] == '.' {
			seg := path[start:i]
			start = i + 1
			var m map[string]any
			switch x := cur.(type) {
			case map[string]any:
				m = x
			case Doc:
				m = x
			default:
				return nil, false
			}
			v, ok := m[seg]
			if !ok {
				return nil, false
			}
			cur = v
		}
	}
	return cur, true
}

// ---------------------------------------------------------------------------
// Lossless JSON form of documents for replay files.
//
//	int64      {"$i":"123"}
//	float64    {"$f":"<hex bits>"}
//	[]float32  {"$v":[<uint32 bits>…]}
//	[]string   {"$s":[…]}
//	others     as JSON (null, bool, string, array, object)

func toJSONable(v any) any {
	switch x := v.(type) {
	case nil, bool, string:
		return x
	case int64:
		return map[string]any{"$i": strconv.FormatInt(x, 10)}
	case int:
		return map[string]any{"$i": strconv.Itoa(x)}
	case float64:
		return map[string]any{"$f": strconv.FormatUint(math.Float64bits(x), 16), "~": strconv.FormatFloat(x, 'g', -1, 64)}
	case float32:
		return map[string]any{"$f32": strconv.FormatUint(uint64(math.Float32bits(x)), 16)}
	case []float32:
		bitsL := make([]uint32, len(x))
		for i, f := range x {
			bitsL[i] = math.Float32bits(f)
		}
		return map[string]any{"$v": bitsL}
	case []string:
		return map[string]any{"$s": append([]string{}, x...)}
	case []any:
		r := make([]any, len(x))
		for i, e := range x {
			r[i] = toJSONable(e)
		}
		return r
	case map[string]any:
		r := make(map[string]any, len(x))
		for k, e := range x {
			r[k] = toJSONable(e)
		}
		return r
	case Doc:
		return toJSONable(map[string]any(x))
	}
	return fmt.Sprintf("<%T>", v)
}

func fromJSONable(v any) (any, error) {
	switch x := v.(type) {
	case nil, bool, string:
		return x, nil
	case float64:
		return x, nil // not produced by toJSONable, tolerate hand-written files
	case []any:
		r := make([]any, len(x))
		for i, e := range x {
			d, err := fromJSONable(e)
			if err != nil {
				return nil, err
			}
			r[i] = d
		}
		return r, nil
	case map[string]any:
		if s, ok := x["$i"].(string); ok {
			n, err := strconv.ParseInt(s, 10, 64)
			return n, err
		}
		if s, ok := x["$f"].(string); ok {
			n, err := strconv.ParseUint(s, 16, 64)
			return math.Float64frombits(n), err
		}
		if s, ok := x["$f32"].(string); ok {
			n, err := strconv.ParseUint(s, 16, 32)
			return math.Float32frombits(uint32(n)), err
		}
		if l, ok := x["$v"].([]any); ok {
			r := make([]float32, len(l))
			for i, e := range l {
				f, ok := e.(float64)
				if !ok {
					return nil, fmt.Errorf("bad $v element %v", e)
				}
				r[i] = math.Float32frombits(uint32(f))
			}
			return r, nil
		}
		if l, ok := x["$s"].([]any); ok {
			r := make([]string, len(l))
			for i, e := range l {
				r[i], _ = e.(string)
			}
			return r, nil
		}
		r := make(map[string]any, len(x))
		for k, e := range x {
			d, err := fromJSONable(e)
			if err != nil {
				return nil, err
			}
			r[k] = d
		}
		return r, nil
	}
	return nil, fmt.Errorf("unexpected JSON value %T", v)
}

func (d Doc) MarshalJSON() ([]byte, error) {
	if d == nil {
		return []byte("null"), nil
	}
	return json.Marshal(toJSONable(map[string]any(d)))
}

func (d *Doc) UnmarshalJSON(b []byte) error {
	var raw any
	if err := json.Unmarshal(b, &raw); err != nil {
		return err
	}
	if raw == nil {
		*d = nil
		return nil
	}
	v, err := fromJSONable(raw)
	if err != nil {
		return err
	}
	m, ok := v.(map[string]any)
	if !ok {
		return fmt.Errorf("document is not an object")
	}
	*d = Doc(m)
	return nil
}

// SetPath sets the value at a dotted path, creating the intermediate maps.
func SetPath(d Doc, path string, val any) {
	parts := strings.Split(path, ".")
	cur := map[string]any(d)
	for _, p := range parts[:len(parts)-1] {
		next, ok := cur[p].(map[string]any)
		if !ok {
			next = map[string]any{}
			cur[p] = next
		}
		cur = next
	}
	cur[parts[len(parts)-1]] = val
}
