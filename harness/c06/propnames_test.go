package c06

import (
	"fmt"
	"testing"

	"github.com/google/uuid"
	"github.com/semafind/semadb/models"
	"github.com/semafind/semadb/shard/cache"
	"pgregory.net/rapid"
	"verif/gen"
	"verif/model"
	"verif/oracle"
	"verif/run"
	"verif/vt"
)

// PropNamesCase: index property names are free-form strings (nothing validates them; a dot makes a nested
// path). Every index type is given a name that is unusual as a path, bucket or cache name component, a
// few documents are written, changed and removed, and each index is queried on the running instance and on
// a cold copy.
type PropNamesCase struct {
	Names  map[string]string `json:"names"` // index type -> property name
	Docs   []PropDoc         `json:"docs"`
	Update []int             `json:"update"` // documents rewritten in the second batch
	Delete []int             `json:"delete"`
	Cache  int64             `json:"cacheLimit"`
}

type PropDoc struct {
	N    int64      `json:"n"`
	S    string     `json:"s"`
	Tags []string   `json:"tags"`
	Txt  string     `json:"txt"`
	Vec  [2]float32 `json:"vec"`
}

var oddNames = []string{"doc//body", "notes/", "/lead", "x y", "é", "quote\"d", "back\\slash", "semi;colon", "per%cent", "star*", "q?", "br[ack]et", "index", "index/text", "points", "n e.s t.ed", "deep.er.name", "tab\there", "UPPER", "upper", "emoji😀", "0", "-", "=", "#h", "a:b", "a|b", "{x}", "~"}

func genPropNames(t *rapid.T) PropNamesCase {
	c := PropNamesCase{Names: map[string]string{}, Cache: rapid.SampledFrom([]int64{-1, 0, 1500}).Draw(t, "cache")}
	perm := rapid.Permutation(oddNames).Draw(t, "names")
	for i, typ := range []string{models.IndexTypeInteger, models.IndexTypeString, models.IndexTypeStringArray, models.IndexTypeText, models.IndexTypeVectorFlat, models.IndexTypeVectorVamana} {
		c.Names[typ] = perm[i]
	}
	n := rapid.IntRange(3, 10).Draw(t, "ndocs")
	for i := 0; i < n; i++ {
		c.Docs = append(c.Docs, PropDoc{N: int64(rapid.IntRange(-2, 3).Draw(t, fmt.Sprintf("n%d", i))), S: rapid.SampledFrom([]string{"a", "b", "ab"}).Draw(t, fmt.Sprintf("s%d", i)),
			Tags: []string{rapid.SampledFrom([]string{"x", "y"}).Draw(t, fmt.Sprintf("t%d", i)), "z"}, Txt: rapid.SampledFrom([]string{"frodo ring", "the ring", "wizard", "shire frodo frodo"}).Draw(t, fmt.Sprintf("x%d", i)),
			Vec: [2]float32{float32(rapid.IntRange(-3, 3).Draw(t, fmt.Sprintf("vx%d", i))), float32(rapid.IntRange(-3, 3).Draw(t, fmt.Sprintf("vy%d", i)))}})
	}
	c.Update = rapid.SliceOfNDistinct(rapid.IntRange(0, n-1), 0, 3, rapid.ID[int]).Draw(t, "update")
	c.Delete = rapid.SliceOfNDistinct(rapid.IntRange(0, n-1), 0, 3, rapid.ID[int]).Draw(t, "delete")
	return c
}

func (c PropNamesCase) schema() models.IndexSchema {
	return models.IndexSchema{
		c.Names[models.IndexTypeInteger]:      {Type: models.IndexTypeInteger},
		c.Names[models.IndexTypeString]:       {Type: models.IndexTypeString, String: &models.IndexStringParameters{CaseSensitive: true}},
		c.Names[models.IndexTypeStringArray]:  {Type: models.IndexTypeStringArray, StringArray: &models.IndexStringArrayParameters{IndexStringParameters: models.IndexStringParameters{CaseSensitive: true}}},
		c.Names[models.IndexTypeText]:         {Type: models.IndexTypeText, Text: &models.IndexTextParameters{Analyser: "standard"}},
		c.Names[models.IndexTypeVectorFlat]:   {Type: models.IndexTypeVectorFlat, VectorFlat: &models.IndexVectorFlatParameters{VectorSize: 2, DistanceMetric: models.DistanceEuclidean}},
		c.Names[models.IndexTypeVectorVamana]: {Type: models.IndexTypeVectorVamana, VectorVamana: &models.IndexVectorVamanaParameters{VectorSize: 2, DistanceMetric: models.DistanceEuclidean, SearchSize: 75, DegreeBound: 64, Alpha: 1.2}},
	}
}

func (c PropNamesCase) doc(d PropDoc, shift int) model.Doc {
	doc := model.Doc{}
	model.SetPath(doc, c.Names[models.IndexTypeInteger], d.N+int64(shift))
	model.SetPath(doc, c.Names[models.IndexTypeString], d.S)
	model.SetPath(doc, c.Names[models.IndexTypeStringArray], append([]string{}, d.Tags...))
	model.SetPath(doc, c.Names[models.IndexTypeText], d.Txt)
	model.SetPath(doc, c.Names[models.IndexTypeVectorFlat], []float32{d.Vec[0] + float32(shift), d.Vec[1]})
	model.SetPath(doc, c.Names[models.IndexTypeVectorVamana], []float32{d.Vec[0], d.Vec[1] + float32(shift)})
	return doc
}

func propId(i int) uuid.UUID {
	var u uuid.UUID
	u[0], u[6], u[8], u[15] = byte(i*41+1), 0x40, 0x80, byte(i)
	return u
}

func execPropNames(c PropNamesCase) (res vt.Result) {
	// two names that share a nesting prefix cannot both be stored ("a.b" a scalar and "a.b.c" below it): skip
	seen := map[string]bool{}
	for _, n := range c.Names {
		if seen[n] {
			return vt.Result{}
		}
		seen[n] = true
	}
	schema := c.schema()
	r, err := run.New(gen.History{Schema: schema, MaxPointSize: 1 << 20, CacheLimit: c.Cache})
	if err != nil {
		return vt.Result{Err: err}
	}
	defer r.Close()
	steps := []gen.Step{{Kind: "insert"}}
	for i, d := range c.Docs {
		steps[0].Points = append(steps[0].Points, model.Point{Id: propId(i), Doc: c.doc(d, 0)})
	}
	if len(c.Update) > 0 {
		st := gen.Step{Kind: "update"}
		for _, i := range c.Update {
			st.Points = append(st.Points, model.Point{Id: propId(i), Doc: c.doc(c.Docs[i], 5)})
		}
		steps = append(steps, st)
	}
	if len(c.Delete) > 0 {
		st := gen.Step{Kind: "delete"}
		for _, i := range c.Delete {
			st.Ids = append(st.Ids, propId(i))
		}
		steps = append(steps, st)
	}
	pool := []uuid.UUID{}
	for i := range c.Docs {
		pool = append(pool, propId(i))
	}
	for si, st := range steps {
		if _, err := r.Apply(st); err != nil {
			return vt.Result{Err: fmt.Errorf("step %d (%s) with property names %v: %v", si, st.Kind, c.Names, err)}
		}
		for _, inst := range []struct {
			name string
			mgr  *cache.Manager
		}{{"the running instance", nil}, {"a cold copy", cache.NewManager(-1)}} {
			s := r.S
			if inst.mgr != nil {
				if s, err = r.Copy(inst.mgr); err != nil {
					return vt.Result{Err: err}
				}
			}
			err := func() error {
				if err := oracle.CheckDocs(s, r.M, pool); err != nil {
					return err
				}
				// one query per index
				filters := []models.Query{
					{Property: c.Names[models.IndexTypeInteger], Integer: &models.SearchIntegerOptions{Value: 0, Operator: models.OperatorGreaterOrEq}},
					{Property: c.Names[models.IndexTypeString], String: &models.SearchStringOptions{Value: "a", Operator: models.OperatorStartsWith}},
					{Property: c.Names[models.IndexTypeStringArray], StringArray: &models.SearchStringArrayOptions{Value: []string{"x", "q"}, Operator: models.OperatorContainsAny}},
				}
				for _, q := range filters {
					b, err := r.M.EvalFilter(q)
					if err != nil {
						return fmt.Errorf("model: %v", err)
					}
					rows, err := s.Search(models.SearchRequest{Query: q})
					if err != nil {
						return fmt.Errorf("filter on %q failed: %v", q.Property, err)
					}
					got := model.IdSet{}
					for _, row := range rows {
						got.Add(row.Id)
					}
					if err := b.Check(got); err != nil {
						return fmt.Errorf("filter on %q: %v", q.Property, err)
					}
				}
				tq := oracle.TextQuery{Prop: c.Names[models.IndexTypeText], Value: "frodo ring", Operator: models.OperatorContainsAny, Limit: 50}
				rows, err := s.Search(models.SearchRequest{Query: tq.ToQuery()})
				if err != nil {
					return fmt.Errorf("text query on %q failed: %v", tq.Prop, err)
				}
				if _, err := oracle.CheckText(r.M, tq, rows); err != nil {
					return fmt.Errorf("text query on %q: %v", tq.Prop, err)
				}
				for _, typ := range []string{models.IndexTypeVectorFlat, models.IndexTypeVectorVamana} {
					prop := c.Names[typ]
					ctx, err := oracle.ContextOf(s, r.M, prop)
					if err != nil {
						return fmt.Errorf("vector index %q: %v", prop, err)
					}
					vq := oracle.VecQuery{Prop: prop, Vector: []float32{0, 0}, Limit: 50, SearchSize: 75}
					rows, err := s.Search(models.SearchRequest{Query: vq.ToQuery(schema)})
					if err != nil {
						return fmt.Errorf("vector query on %q failed: %v", prop, err)
					}
					// the collection fits the search window and a flat search is exact: all vectors, exact
					if err := oracle.CheckVectorRows(ctx, vq, rows, typ == models.IndexTypeVectorFlat); err != nil {
						return fmt.Errorf("vector query on %q: %v", prop, err)
					}
					if err := oracle.CheckVecStore(ctx, prop, typ == models.IndexTypeVectorVamana); err != nil {
						return fmt.Errorf("vector index %q: %v", prop, err)
					}
				}
				return nil
			}()
			if inst.mgr != nil {
				s.Close()
			}
			if err != nil {
				return vt.Result{Err: fmt.Errorf("after step %d (%s), %s, property names %q: %v", si, st.Kind, inst.name, c.Names, err)}
			}
		}
	}
	vt.R().Count("property_name_cases", 1)
	return vt.Result{NonTrivial: len(steps) >= 2}
}

func TestPropNames(t *testing.T)       { vt.Check(t, "propnames", genPropNames, execPropNames) }
func TestReplayPropNames(t *testing.T) { vt.Replay(t, "propnames", execPropNames) }
