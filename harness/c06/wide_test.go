package c06

import (
	"fmt"
	"testing"

	"github.com/semafind/semadb/models"
	"pgregory.net/rapid"
	"verif/gen"
	"verif/model"
	"verif/vt"
)

// Wide composite queries: several hundred points and 4-9 ranking sub-queries at the largest limit (75),
// centred at a handful of spots, so that the merged answer holds several hundred distinct ranked points
// and later sub-queries find points again that were merged long before. The main job's populations (at
// most a few dozen points) never make a merged answer larger than one sub-answer. Judged by the main
// job's executor: every leaf alone versus the composite answer.

var wideWords = []string{"frodo", "ring", "shire", "gandalf", "wizard", "mordor", "elf", "dwarf", "hobbit", "eagle"}

func genWide(t *rapid.T) Case {
	n := rapid.IntRange(300, 700).Draw(t, "n")
	schema := models.IndexSchema{
		gen.PFlat: {Type: models.IndexTypeVectorFlat, VectorFlat: &models.IndexVectorFlatParameters{VectorSize: 2, DistanceMetric: models.DistanceEuclidean}},
		gen.PText: {Type: models.IndexTypeText, Text: &models.IndexTextParameters{Analyser: "standard"}},
		gen.PInt:  {Type: models.IndexTypeInteger},
	}
	withGraph := rapid.IntRange(0, 2).Draw(t, "graph") == 0
	if withGraph {
		schema[gen.PVamana] = models.IndexSchemaValue{Type: models.IndexTypeVectorVamana, VectorVamana: &models.IndexVectorVamanaParameters{VectorSize: 2, DistanceMetric: models.DistanceEuclidean, SearchSize: 75, DegreeBound: 64, Alpha: 1.2}}
	}
	c := Case{H: gen.History{Schema: schema, MaxPointSize: 1 << 20, CacheLimit: rapid.SampledFrom([]int64{-1, 0}).Draw(t, "cacheLimit")}}
	st := gen.Step{Kind: "insert"}
	for i := 0; i < n; i++ {
		// a 30-column grid, jittered so that no two points are at the same distance from a centre
		x, y := float32(i%30)+float32(i)*1e-4, float32(i/30)+float32(i)*3e-5
		d := model.Doc{gen.PFlat: []float32{x, y}, gen.PInt: int64(i), gen.PText: wideWords[i%10] + " " + wideWords[(i/10)%10], "rank": int64(i % 7)}
		if withGraph {
			d[gen.PVamana] = []float32{y, x}
		}
		st.Points = append(st.Points, model.Point{Id: gen.BulkId(i), Doc: d})
	}
	c.H.Steps = []gen.Step{st}
	rows := n/30 + 1
	type spot struct{ x, y float32 }
	var spots []spot
	for i := 0; i < rapid.IntRange(3, 6).Draw(t, "nspots"); i++ {
		spots = append(spots, spot{float32(rapid.IntRange(0, 29).Draw(t, fmt.Sprintf("sx%d", i))) + 0.37, float32(rapid.IntRange(0, rows).Draw(t, fmt.Sprintf("sy%d", i))) + 0.41})
	}
	weight := func(label string) *float32 {
		if rapid.IntRange(0, 2).Draw(t, label+"-w") == 0 {
			return nil
		}
		w := rapid.SampledFrom([]float32{0.5, 2, -1, 3}).Draw(t, label+"-wv")
		return &w
	}
	for si := 0; si < rapid.IntRange(1, 3).Draw(t, "nspecs"); si++ {
		var leaves []models.Query
		k := rapid.IntRange(4, 9).Draw(t, fmt.Sprintf("k%d", si))
		for j := 0; j < k; j++ {
			label := fmt.Sprintf("q%d.%d", si, j)
			sp := spots[rapid.IntRange(0, len(spots)-1).Draw(t, label+"-spot")]
			limit := rapid.SampledFrom([]int{75, 75, 75, 60, 40}).Draw(t, label+"-limit")
			switch kind := rapid.IntRange(0, 5).Draw(t, label+"-kind"); {
			case kind == 0:
				leaves = append(leaves, models.Query{Property: gen.PText, Text: &models.SearchTextOptions{Value: rapid.SampledFrom(wideWords).Draw(t, label+"-word"), Operator: models.OperatorContainsAny, Limit: limit, Weight: weight(label)}})
			case kind == 1 && withGraph:
				leaves = append(leaves, models.Query{Property: gen.PVamana, VectorVamana: &models.SearchVectorVamanaOptions{Vector: []float32{sp.y, sp.x}, Operator: models.OperatorNear, Limit: limit, SearchSize: 75, Weight: weight(label)}})
			default:
				leaves = append(leaves, models.Query{Property: gen.PFlat, VectorFlat: &models.SearchVectorFlatOptions{Vector: []float32{sp.x, sp.y}, Operator: models.OperatorNear, Limit: limit, Weight: weight(label)}})
			}
		}
		q := models.Query{Property: "_or", Or: leaves}
		if rapid.IntRange(0, 3).Draw(t, fmt.Sprintf("nest%d", si)) == 0 && len(leaves) >= 4 {
			// the second half under an _or of its own, and a filter leaf beside the ranking leaves
			half := len(leaves) / 2
			q = models.Query{Property: "_or", Or: append(append([]models.Query{}, leaves[:half]...), models.Query{Property: "_or", Or: leaves[half:]},
				models.Query{Property: gen.PInt, Integer: &models.SearchIntegerOptions{Value: int64(n / 2), Operator: models.OperatorLessThan}})}
		}
		gen.MustValid(q, schema)
		spec := Spec{Query: q, Select: []string{"rank", gen.PInt}}
		if rapid.IntRange(0, 2).Draw(t, fmt.Sprintf("sort%d", si)) == 0 {
			spec.Sort = []models.SortOption{{Property: "rank", Descending: rapid.Bool().Draw(t, fmt.Sprintf("desc%d", si))}}
		}
		if rapid.IntRange(0, 2).Draw(t, fmt.Sprintf("page%d", si)) == 0 {
			spec.Offset, spec.Limit = rapid.SampledFrom([]int{0, 100, 255, 256, 300}).Draw(t, fmt.Sprintf("off%d", si)), rapid.SampledFrom([]int{1, 50, 300}).Draw(t, fmt.Sprintf("lim%d", si))
		}
		c.Specs = append(c.Specs, spec)
	}
	return c
}

func execWide(c Case) vt.Result {
	res := execCase(c)
	if res.Err == nil {
		vt.R().Count("wide_cases", 1)
		res.NonTrivial = true
	}
	return res
}

func TestPropWide(t *testing.T)   { vt.Check(t, "wide", genWide, execWide) }
func TestReplayWide(t *testing.T) { vt.Replay(t, "wide", execWide) }
