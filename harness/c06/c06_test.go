package c06

import (
	"fmt"
	"math"
	"sort"
	"strings"
	"testing"

	"github.com/google/uuid"
	"github.com/semafind/semadb/models"
	"pgregory.net/rapid"
	"verif/drive"
	"verif/gen"
	"verif/model"
	"verif/run"
	"verif/vt"
)

func TestMain(m *testing.M) {
	vt.OnExit(drive.Cleanup)
	vt.Main(m, "C06")
}

// Spec is one search request against the final state of the history.
type Spec struct {
	Query  models.Query        `json:"query"`
	Select []string            `json:"select"`
	Sort   []models.SortOption `json:"sort"`
	Offset int                 `json:"offset"`
	Limit  int                 `json:"limit"`
}

type Case struct {
	H     gen.History `json:"history"`
	Specs []Spec      `json:"specs"`
	// NarrowInts: the integers of the sortable field "rank" are stored in the narrowest integer type that
	// holds them, as a MessagePack client with compact encoding sends them (int8, int16, uint16, ...): a
	// number is the same sort key whatever its width
	NarrowInts bool `json:"narrowInts,omitempty"`
}

// sortable top-level extra fields with one value type each
var sortFields = []string{"rank", "price", "label"}

func genTree(t *rapid.T, label string, g *gen.HistoryGen, ranked []string, depth int) models.Query {
	if depth <= 0 || rapid.IntRange(0, 2).Draw(t, label+"-leaf") == 0 {
		if len(ranked) > 0 && rapid.IntRange(0, 2).Draw(t, label+"-rk") > 0 {
			prop := rapid.SampledFrom(ranked).Draw(t, label+"-rprop")
			q := gen.RankLeaf(t, label, g.M, g.Pool, prop)
			// exact ranked leaves take everything (no cut, so no unspecified choice among ties)
			if q.VectorFlat != nil {
				q.VectorFlat.Limit = 75
			}
			if q.Text != nil {
				q.Text.Limit = 75
			}
			return q
		}
		return gen.FilterLeaf(t, label, g.M, g.Pool)
	}
	n := rapid.IntRange(1, 3).Draw(t, label+"-n")
	subs := make([]models.Query, n)
	for i := range subs {
		subs[i] = genTree(t, fmt.Sprintf("%s.%d", label, i), g, ranked, depth-1)
	}
	if rapid.Bool().Draw(t, label+"-and") {
		return models.Query{Property: "_and", And: subs}
	}
	return models.Query{Property: "_or", Or: subs}
}

func genCase(t *rapid.T) Case {
	so := gen.SchemaOpts{Filters: true, MinProps: 1, Flat: rapid.IntRange(0, 3).Draw(t, "flat") > 0, Vamana: rapid.IntRange(0, 3).Draw(t, "vamana") > 0,
		Text: rapid.IntRange(0, 3).Draw(t, "text") > 0, MaxDim: 3, Quantizer: rapid.Bool().Draw(t, "quant")}
	ho := gen.HistoryOpts{MaxSteps: 6, MaxBatch: 12, PoolSize: rapid.SampledFrom([]int{10, 30}).Draw(t, "pool"), Reopen: true, Evict: true,
		FieldProb: rapid.SampledFrom([]int{60, 90}).Draw(t, "fieldProb")}
	// the same id more than once in one update batch (merged in order; the indices must see the net change)
	ho.AllowDupUpdate = rapid.IntRange(0, 3).Draw(t, "dupUpdate") == 0
	nspec := 6
	if vt.Thorough() {
		ho.MaxSteps, ho.MaxBatch, nspec = 10, 25, 10
	}
	schema := gen.Schema(t, so)
	c := Case{H: gen.History{Schema: schema, MaxPointSize: 1 << 20, CacheLimit: rapid.SampledFrom([]int64{-1, 0}).Draw(t, "cacheLimit")}}
	g := gen.NewHistoryGen(t, schema, c.H.MaxPointSize, ho)
	n := rapid.IntRange(1, ho.MaxSteps).Draw(t, "nsteps")
	narrow := rapid.IntRange(0, 3).Draw(t, "narrowInts") == 0
	c.NarrowInts = narrow
	for i := 0; i < n; i++ {
		st := g.Next()
		// give inserted documents sortable extra fields (one type per key, sometimes missing)
		if st.Kind == "insert" && st.Note == "" {
			for pi := range st.Points {
				d := st.Points[pi].Doc
				if rapid.IntRange(0, 3).Draw(t, fmt.Sprintf("hr%d.%d", i, pi)) > 0 {
					d["rank"] = int64(rapid.IntRange(-2, 3).Draw(t, fmt.Sprintf("rank%d.%d", i, pi)))
					if narrow && rapid.Bool().Draw(t, fmt.Sprintf("rankwide%d.%d", i, pi)) {
						d["rank"] = rapid.SampledFrom([]int64{-5000000000, -70000, -200, -5, 40, 200, 300, 70000, 5000000000}).Draw(t, fmt.Sprintf("rankw%d.%d", i, pi))
					}
				}
				if rapid.IntRange(0, 3).Draw(t, fmt.Sprintf("hp%d.%d", i, pi)) > 0 {
					d["price"] = float64(rapid.IntRange(-4, 8).Draw(t, fmt.Sprintf("price%d.%d", i, pi))) / 2
					if rapid.IntRange(0, 11).Draw(t, fmt.Sprintf("pricenan%d.%d", i, pi)) == 0 {
						// not a number (a MessagePack body can carry it): written as a marker, cases are JSON
						d["price"] = nanMarker
					}
				}
				if rapid.IntRange(0, 3).Draw(t, fmt.Sprintf("hl%d.%d", i, pi)) > 0 {
					d["label"] = rapid.SampledFrom([]string{"a", "b", "B", "ab", "é"}).Draw(t, fmt.Sprintf("label%d.%d", i, pi))
				}
				if rapid.IntRange(0, 5).Draw(t, fmt.Sprintf("hn%d.%d", i, pi)) == 0 {
					d["nothing"] = nil
				}
				// three levels of nesting with siblings, and a top-level field named like an inner segment
				if rapid.IntRange(0, 2).Draw(t, fmt.Sprintf("hd%d.%d", i, pi)) > 0 {
					a := map[string]any{"x": int64(rapid.IntRange(-2, 3).Draw(t, fmt.Sprintf("dax%d.%d", i, pi)))}
					if rapid.Bool().Draw(t, fmt.Sprintf("hday%d.%d", i, pi)) {
						a["y"] = rapid.SampledFrom([]string{"p", "q", "r"}).Draw(t, fmt.Sprintf("day%d.%d", i, pi))
					}
					deep := map[string]any{"a": a}
					if rapid.Bool().Draw(t, fmt.Sprintf("hdb%d.%d", i, pi)) {
						deep["b"] = map[string]any{"x": int64(rapid.IntRange(0, 2).Draw(t, fmt.Sprintf("dbx%d.%d", i, pi))), "w": []any{int64(1), "two"}}
					}
					d["deep"] = deep
				}
				if rapid.IntRange(0, 3).Draw(t, fmt.Sprintf("ha%d.%d", i, pi)) == 0 {
					d["a"] = int64(rapid.IntRange(0, 3).Draw(t, fmt.Sprintf("a%d.%d", i, pi)))
				}
				g.M.Docs[st.Points[pi].Id] = model.CloneDoc(d)
			}
		}
		c.H.Steps = append(c.H.Steps, st)
	}
	var ranked []string
	for _, p := range gen.SortedProps(schema) {
		switch schema[p].Type {
		case models.IndexTypeVectorFlat, models.IndexTypeVectorVamana, models.IndexTypeText:
			ranked = append(ranked, p)
		}
	}
	selectable := append([]string{"rank", "price", "label", "nothing", "missing", "meta", "meta.k", "meta.name", "meta.absent",
		"deep.a.x", "deep.a.y", "deep.a.x", "deep.a.y", "deep.b.x", "deep.b.w", "deep.a", "deep", "deep.a.z", "deep.c.x", "a", "x"}, gen.SortedProps(schema)...)
	ns := rapid.IntRange(1, nspec).Draw(t, "nspecs")
	for i := 0; i < ns; i++ {
		sp := Spec{Query: genTree(t, fmt.Sprintf("t%d", i), g, ranked, 3)}
		gen.MustValid(sp.Query, schema)
		switch rapid.IntRange(0, 3).Draw(t, fmt.Sprintf("selk%d", i)) {
		case 0:
			sp.Select = []string{"*"}
		case 1:
			// no select: rows carry no document
		default:
			k := rapid.IntRange(1, 4).Draw(t, fmt.Sprintf("nsel%d", i))
			for j := 0; j < k; j++ {
				sp.Select = append(sp.Select, rapid.SampledFrom(selectable).Draw(t, fmt.Sprintf("sel%d.%d", i, j)))
			}
		}
		if len(sp.Select) > 0 && rapid.IntRange(0, 2).Draw(t, fmt.Sprintf("hassort%d", i)) > 0 {
			k := rapid.IntRange(1, 3).Draw(t, fmt.Sprintf("nsort%d", i))
			for j := 0; j < k; j++ {
				// sort fields must be selected first (documented)
				// keys whose values are maps or arrays (all equal as sort keys: any order among them is
				// right, rows lacking the key still come last)
				nonScalar := map[string]bool{"meta": true, "deep": true, "deep.a": true}
				for _, p := range gen.SortedProps(schema) {
					switch schema[p].Type {
					case models.IndexTypeStringArray, models.IndexTypeVectorFlat, models.IndexTypeVectorVamana:
						nonScalar[p] = true
					}
				}
				var cands []string
				if sp.Select[0] == "*" {
					cands = append(append([]string{}, sortFields...), "meta.k", "missing")
					for _, p := range []string{"meta", "deep.a", gen.PTags, gen.PFlat, gen.PVamana} {
						if nonScalar[p] {
							cands = append(cands, p)
						}
					}
				} else {
					for _, s := range sp.Select {
						switch s {
						case "rank", "price", "label", "meta.k", "missing":
							cands = append(cands, s)
						default:
							if nonScalar[s] {
								cands = append(cands, s)
							}
						}
					}
				}
				if len(cands) == 0 {
					break
				}
				sp.Sort = append(sp.Sort, models.SortOption{Property: rapid.SampledFrom(cands).Draw(t, fmt.Sprintf("sortp%d.%d", i, j)), Descending: rapid.Bool().Draw(t, fmt.Sprintf("sortd%d.%d", i, j))})
			}
		}
		sp.Offset = rapid.SampledFrom([]int{0, 0, 1, 2, 5, 50, 0, 0, 1, 2, 5, 50, 1 << 40, math.MaxInt64 - 3, math.MaxInt64}).Draw(t, fmt.Sprintf("off%d", i))
		sp.Limit = rapid.SampledFrom([]int{0, 1, 2, 3, 7, 100}).Draw(t, fmt.Sprintf("lim%d", i))
		c.Specs = append(c.Specs, sp)
	}
	c.H.Rename = gen.MaybeRename(t, c.H.Schema)
	return c
}

// ---------------------------------------------------------------------------

type leafAnswer struct {
	set    model.IdSet
	ranked map[uuid.UUID]float32 // hybrid contribution of ranked points
	order  []uuid.UUID           // ranked ids in the order they were returned / merged
}

func isRanked(r drive.Row) bool { return r.Distance != nil || r.Score != nil }

// evalTree computes what the documented merge must give from the answers of the
// leaves, each executed alone on the same state.
func evalTree(s *drive.Shard, q models.Query, multi *int) (leafAnswer, error) {
	if q.Property == "_and" || q.Property == "_or" {
		subs := q.And
		if q.Property == "_or" {
			subs = q.Or
		}
		var answers []leafAnswer
		for _, sq := range subs {
			a, err := evalTree(s, sq, multi)
			if err != nil {
				return leafAnswer{}, err
			}
			answers = append(answers, a)
		}
		if len(answers) == 1 {
			return answers[0], nil
		}
		out := leafAnswer{set: model.IdSet{}, ranked: map[uuid.UUID]float32{}}
		if q.Property == "_or" {
			for _, a := range answers {
				for id := range a.set {
					out.set.Add(id)
				}
			}
		} else {
			for id := range answers[0].set {
				in := true
				for _, a := range answers[1:] {
					if !a.set.Has(id) {
						in = false
					}
				}
				if in {
					out.set.Add(id)
				}
			}
		}
		for _, a := range answers {
			for _, id := range a.order {
				if q.Property == "_and" && !out.set.Has(id) {
					continue
				}
				if _, ok := out.ranked[id]; !ok {
					out.order = append(out.order, id)
					out.ranked[id] = a.ranked[id]
				} else {
					out.ranked[id] += a.ranked[id]
					*multi++
				}
			}
		}
		return out, nil
	}
	rows, err := s.Search(models.SearchRequest{Query: q})
	if err != nil {
		return leafAnswer{}, fmt.Errorf("leaf %s alone: %v", q.Property, err)
	}
	a := leafAnswer{set: model.IdSet{}, ranked: map[uuid.UUID]float32{}}
	for _, r := range rows {
		a.set.Add(r.Id)
		if isRanked(r) {
			a.ranked[r.Id] = r.Hybrid
			a.order = append(a.order, r.Id)
		}
	}
	return a, nil
}

func closeF32(a, b float32) bool {
	d := math.Abs(float64(a) - float64(b))
	return d <= 1e-6+1e-5*math.Max(math.Abs(float64(a)), math.Abs(float64(b)))
}

// projection computes the selected part of a stored document.
func projection(d model.Doc, sel []string) map[string]any {
	out := map[string]any{}
	for _, p := range sel {
		if p == "*" {
			return model.Canon(map[string]any(d)).(map[string]any)
		}
		v, ok := model.Lookup(d, p)
		if !ok {
			continue
		}
		segs := strings.Split(p, ".")
		cur := out
		for i, sname := range segs {
			if i == len(segs)-1 {
				cur[sname] = model.Canon(v)
				break
			}
			next, ok := cur[sname].(map[string]any)
			if !ok {
				next = map[string]any{}
				cur[sname] = next
			}
			cur = next
		}
	}
	return out
}

// sort key comparison of the statement: missing last, otherwise by value (asc/desc).
func keyOf(doc map[string]any, path string) (any, bool) {
	return model.Lookup(model.Doc(doc), path)
}

func cmpVals(a, b any) int {
	switch x := a.(type) {
	case int64:
		y := b.(int64)
		switch {
		case x < y:
			return -1
		case x > y:
			return 1
		}
	case float64:
		y := b.(float64)
		switch {
		case x < y:
			return -1
		case x > y:
			return 1
		}
	case string:
		return strings.Compare(x, b.(string))
	}
	return 0
}

func cmpRows(a, b map[string]any, opts []models.SortOption) int {
	for _, o := range opts {
		av, aok := keyOf(a, o.Property)
		bv, bok := keyOf(b, o.Property)
		switch {
		case aok && !bok:
			return -1
		case !aok && bok:
			return 1
		case !aok && !bok:
			continue
		}
		c := cmpVals(model.Canon(av), model.Canon(bv))
		if o.Descending {
			c = -c
		}
		if c != 0 {
			return c
		}
	}
	return 0
}

const nanMarker = "$NaN"

// expandNaN returns the steps with the NaN markers of the sortable price field turned into NaN.
func expandNaN(steps []gen.Step) ([]gen.Step, int) {
	n := 0
	out := make([]gen.Step, len(steps))
	for i, st := range steps {
		out[i] = st
		copied := false
		for pi, p := range st.Points {
			if p.Doc["price"] == nanMarker {
				if !copied {
					out[i].Points = append([]model.Point(nil), st.Points...)
					copied = true
				}
				d := model.CloneDoc(p.Doc)
				d["price"] = math.NaN()
				out[i].Points[pi] = model.Point{Id: p.Id, Doc: d}
				n++
			}
		}
	}
	return out, n
}

// narrowRanks returns the steps with every "rank" stored in the narrowest integer type that holds it.
func narrowRanks(steps []gen.Step) []gen.Step {
	out := make([]gen.Step, len(steps))
	for i, st := range steps {
		out[i] = st
		copied := false
		for pi, p := range st.Points {
			v, ok := p.Doc["rank"].(int64)
			if !ok {
				continue
			}
			if !copied {
				out[i].Points = append([]model.Point(nil), out[i].Points...)
				copied = true
			}
			d := model.CloneDoc(out[i].Points[pi].Doc)
			switch {
			case v >= 0 && v <= math.MaxUint8 && v%2 == 0:
				d["rank"] = uint8(v)
			case v >= math.MinInt8 && v <= math.MaxInt8:
				d["rank"] = int8(v)
			case v >= 0 && v <= math.MaxUint16:
				d["rank"] = uint16(v)
			case v >= math.MinInt16 && v <= math.MaxInt16:
				d["rank"] = int16(v)
			case v >= math.MinInt32 && v <= math.MaxInt32:
				d["rank"] = int32(v)
			}
			out[i].Points[pi] = model.Point{Id: p.Id, Doc: d}
		}
	}
	return out
}

// nanKey says whether one of the sort keys of the document is NaN. Where NaN sorts is not specified;
// rows with such a key are left out of the order checks (the rows around them must still be in order).
func nanKey(doc map[string]any, opts []models.SortOption) bool {
	for _, o := range opts {
		if v, ok := keyOf(doc, o.Property); ok {
			if f, isF := model.Canon(v).(float64); isF && math.IsNaN(f) {
				return true
			}
		}
	}
	return false
}

func execCase(c Case) (res vt.Result) {
	rec := vt.R()
	r, err := run.New(c.H)
	if err != nil {
		return vt.Result{Err: err}
	}
	defer r.Close()
	steps, nans := expandNaN(c.H.Steps)
	if nans > 0 {
		rec.Count("documents_with_a_nan_sort_value", int64(nans))
	}
	if c.NarrowInts {
		steps = narrowRanks(steps)
		rec.Count("cases_with_integers_of_mixed_width", 1)
	}
	for i, st := range steps {
		if _, err := r.Apply(st); err != nil {
			res.Err = fmt.Errorf("step %d (%s): %v", i, st.Kind, err)
			return res
		}
	}
	nontrivial := false
	for si, sp := range c.Specs {
		fail := func(f string, a ...any) vt.Result {
			res.Err = fmt.Errorf("spec %d (select %v sort %v offset %d limit %d): %s", si, sp.Select, sp.Sort, sp.Offset, sp.Limit, fmt.Sprintf(f, a...))
			return res
		}
		// (1) composite answer versus the documented merge of its leaves
		multi := 0
		want, err := evalTree(r.S, sp.Query, &multi)
		if err != nil {
			return fail("%v", err)
		}
		base, err := r.S.Search(models.SearchRequest{Query: sp.Query, Select: sp.Select})
		if err != nil {
			return fail("composite search failed: %v", err)
		}
		got := drive.RowIds(base)
		if len(got) != len(base) {
			return fail("the answer contains a point twice")
		}
		if !got.Equal(want.set) {
			return fail("result set differs from the union/intersection of the sub-results: %s", want.set.Diff(got))
		}
		if si == 0 && len(base) > 0 {
			// a long select list gives every path what the path gives when it is selected alone (paths through
			// array positions included, whatever form the answer gives them: both answers are the shard's)
			wide := []string{"rank", "price", "label", "missing", "meta.k", "meta.name", "deep.a.x", "deep.b.w", gen.PTags + ".0", gen.PTagsCI + ".1", gen.PFlat + ".0", "deep.a.y", "nothing"}
			wideRows, err := r.S.Search(models.SearchRequest{Query: sp.Query, Select: wide})
			if err != nil {
				return fail("search with a select list of %d paths failed: %v", len(wide), err)
			}
			byId := map[uuid.UUID]map[string]any{}
			for _, row := range wideRows {
				byId[row.Id] = row.Doc
			}
			for _, p := range wide {
				alone, err := r.S.Search(models.SearchRequest{Query: sp.Query, Select: []string{p}})
				if err != nil {
					return fail("search selecting %q failed: %v", p, err)
				}
				for _, row := range alone {
					a, aok := model.Lookup(row.Doc, p)
					w, wok := model.Lookup(byId[row.Id], p)
					if aok != wok || (aok && !model.Equal(model.Canon(a), model.Canon(w))) {
						return fail("point %s: path %q selected alone gives %s (present %v), among %d paths it gives %s (present %v)", row.Id, p, model.Show(a), aok, len(wide), model.Show(w), wok)
					}
				}
			}
			rec.Count("wide_select_lists_compared_path_by_path", 1)
		}
		seenFilterOnly := false
		merged := effectiveChildren(sp.Query) >= 2
		var prevHybrid float32
		nRanked := 0
		for i, row := range base {
			h, ranked := want.ranked[row.Id]
			if isRanked(row) != ranked {
				return fail("row %d (%s): ranked=%v but the sub-results say ranked=%v", i, row.Id, isRanked(row), ranked)
			}
			if !ranked {
				seenFilterOnly = true
				if row.Hybrid != 0 {
					return fail("row %d (%s): matched only by filters but carries hybrid score %v", i, row.Id, row.Hybrid)
				}
				continue
			}
			if seenFilterOnly {
				return fail("row %d (%s): a ranked point comes after a point matched only by filters", i, row.Id)
			}
			if !closeF32(row.Hybrid, h) {
				return fail("row %d (%s): hybrid score %v, the sum of its sub-queries' weighted contributions is %v", i, row.Id, row.Hybrid, h)
			}
			// the order by hybrid score is a property of merged results; a single ranking leaf keeps its own
			// order (nearest / best first), which a negative weight turns into ascending hybrid scores
			if merged && nRanked > 0 && row.Hybrid > prevHybrid && !closeF32(row.Hybrid, prevHybrid) {
				return fail("row %d (%s): hybrid score %v after %v, ranked points of a composite query are not ordered highest first", i, row.Id, row.Hybrid, prevHybrid)
			}
			if !merged && nRanked > 0 {
				prev := base[i-1]
				if row.Distance != nil && prev.Distance != nil && *row.Distance < *prev.Distance {
					return fail("row %d (%s): distance %v after %v in a single vector search", i, row.Id, *row.Distance, *prev.Distance)
				}
				if row.Score != nil && prev.Score != nil && *row.Score > *prev.Score {
					return fail("row %d (%s): score %v after %v in a single text search", i, row.Id, *row.Score, *prev.Score)
				}
			}
			prevHybrid = row.Hybrid
			nRanked++
		}
		// (2) selected fields
		for i, row := range base {
			if len(sp.Select) == 0 {
				if row.HasDoc {
					return fail("row %d: a document was returned although nothing was selected", i)
				}
				continue
			}
			wantDoc := projection(r.M.Docs[row.Id], sp.Select)
			gotDoc := row.Doc
			if gotDoc == nil {
				gotDoc = map[string]any{}
			}
			if !model.DocEqual(wantDoc, gotDoc) {
				return fail("row %d (%s): selected fields %v give %s, the stored document has %s", i, row.Id, sp.Select, model.Show(gotDoc), model.Show(wantDoc))
			}
		}
		// (3) sort: a permutation of the unsorted answer ordered by the keys, missing last
		nanInAnswer := false
		sorted := base
		if len(sp.Sort) > 0 {
			sorted, err = r.S.Search(models.SearchRequest{Query: sp.Query, Select: sp.Select, Sort: sp.Sort})
			if err != nil {
				return fail("sorted search failed: %v", err)
			}
			if !drive.RowIds(sorted).Equal(got) || len(sorted) != len(base) {
				return fail("sorting changed the set of rows: %s", got.Diff(drive.RowIds(sorted)))
			}
			missingSome := false
			prev := -1 // the previous row whose sort keys are all numbers, strings or missing
			for i := range sorted {
				md := map[string]any(r.M.Docs[sorted[i].Id])
				for _, o := range sp.Sort {
					if _, ok := keyOf(md, o.Property); !ok {
						missingSome = true
					}
				}
				if nanKey(md, sp.Sort) {
					nanInAnswer = true
					continue
				}
				if prev >= 0 && cmpRows(map[string]any(r.M.Docs[sorted[prev].Id]), md, sp.Sort) > 0 {
					return fail("rows %d and %d (%s, %s) are not ordered by the sort keys (missing values last): %s then %s", prev, i, sorted[prev].Id, sorted[i].Id,
						model.Show(projection(r.M.Docs[sorted[prev].Id], sortProps(sp.Sort))), model.Show(projection(r.M.Docs[sorted[i].Id], sortProps(sp.Sort))))
				}
				prev = i
			}
			if nanInAnswer {
				rec.Count("sorted_answers_with_a_nan_key", 1)
			}
			if missingSome && len(sorted) > 1 {
				nontrivial = true
				rec.Count("sort_with_missing_key", 1)
			}
		}
		// (4) paging: offset/limit return the corresponding contiguous slice of that order
		paged, err := r.S.Search(models.SearchRequest{Query: sp.Query, Select: sp.Select, Sort: sp.Sort, Offset: sp.Offset, Limit: sp.Limit})
		if err != nil {
			return fail("paged search failed: %v", err)
		}
		lo := min(sp.Offset, len(sorted))
		hi := len(sorted)
		if sp.Limit > 0 {
			hi = lo + min(sp.Limit, len(sorted)-lo) // (offset + limit can overflow)
		}
		if len(paged) != hi-lo {
			return fail("paged request returned %d rows, rows [%d,%d) of %d were expected", len(paged), lo, hi, len(sorted))
		}
		for j := range paged {
			ref := sorted[lo+j]
			if paged[j].Id == ref.Id {
				continue
			}
			// a different point at this position is only acceptable inside a group of equal keys
			if len(sp.Sort) > 0 {
				if nanInAnswer {
					// where the rows with a NaN key stand is not specified, nor is it between two requests
					continue
				}
				if cmpRows(map[string]any(r.M.Docs[paged[j].Id]), map[string]any(r.M.Docs[ref.Id]), sp.Sort) != 0 {
					return fail("paged row %d is %s, row %d of the full order is %s with different sort keys", j, paged[j].Id, lo+j, ref.Id)
				}
			} else if !(closeF32(paged[j].Hybrid, ref.Hybrid) && isRanked(paged[j]) == isRanked(ref)) || !isRanked(ref) {
				return fail("paged row %d is %s (hybrid %v), row %d of the full order is %s (hybrid %v)", j, paged[j].Id, paged[j].Hybrid, lo+j, ref.Id, ref.Hybrid)
			}
			if !got.Has(paged[j].Id) {
				return fail("paged row %d (%s) is not part of the full answer", j, paged[j].Id)
			}
		}
		if len(drive.RowIds(paged)) != len(paged) {
			return fail("the paged answer contains a point twice")
		}
		if sp.Offset > 0 && lo < len(sorted) {
			rec.Count("paged_with_offset", 1)
		}
		if multi > 0 {
			nontrivial = true
			rec.Count("points_found_by_several_ranking_leaves", int64(multi))
		}
		if nRanked > 0 && countLeaves(sp.Query) >= 2 {
			rec.Count("composites_with_ranked_rows", 1)
		}
		rec.Count("specs", 1)
	}
	res.NonTrivial = nontrivial
	return res
}

// effectiveChildren returns the number of children of the top node after
// collapsing one-element _and/_or nodes (1 for a leaf).
func effectiveChildren(q models.Query) int {
	for q.Property == "_and" || q.Property == "_or" {
		subs := q.And
		if q.Property == "_or" {
			subs = q.Or
		}
		if len(subs) != 1 {
			return len(subs)
		}
		q = subs[0]
	}
	return 1
}

func sortProps(opts []models.SortOption) []string {
	var r []string
	for _, o := range opts {
		r = append(r, o.Property)
	}
	sort.Strings(r)
	return r
}

func countLeaves(q models.Query) int {
	if q.Property == "_and" || q.Property == "_or" {
		n := 0
		for _, s := range q.And {
			n += countLeaves(s)
		}
		for _, s := range q.Or {
			n += countLeaves(s)
		}
		return n
	}
	return 1
}

func TestPropHybrid(t *testing.T)   { vt.Check(t, "hybrid", genCase, execCase) }
func TestReplayHybrid(t *testing.T) { vt.Replay(t, "hybrid", execCase) }
