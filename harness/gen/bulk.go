package gen

import (
	"math"

	"github.com/google/uuid"
	"github.com/semafind/semadb/models"
	"verif/model"
)

// BulkVector is a deterministic vector on a coarse grid (many ties), derived
// from a case seed; unit length for cosine. Used for the >= 1000 point
// histories a product quantiser needs before it trains.
func BulkVector(seed, i, dim int, metric string) []float32 {
	v := make([]float32, dim)
	x := uint32(seed*7919 + i*104729 + 1)
	var n float64
	for k := range v {
		x = x*1664525 + 1013904223
		v[k] = float32(int32(x>>20)%17-8) / 4
		n += float64(v[k]) * float64(v[k])
	}
	if metric == models.DistanceCosine {
		if n == 0 {
			v[0], n = 1, 1
		}
		for k := range v {
			v[k] = float32(float64(v[k]) / math.Sqrt(n))
		}
	}
	return v
}

func BulkId(i int) uuid.UUID {
	var u uuid.UUID
	u[0], u[1], u[2], u[6], u[8] = byte(i*37), byte(i>>8), byte(i), 0x40, 0x80
	return u
}

// BulkInsert is one insert batch of n points carrying only the vector field prop.
func BulkInsert(seed, n, dim int, metric, prop string) Step {
	st := Step{Kind: "insert"}
	for i := 0; i < n; i++ {
		st.Points = append(st.Points, model.Point{Id: BulkId(i), Doc: model.Doc{prop: BulkVector(seed, i, dim, metric)}})
	}
	return st
}
