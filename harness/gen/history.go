package gen

import (
	"fmt"
	"strings"

	"github.com/google/uuid"
	"github.com/semafind/semadb/models"
	"pgregory.net/rapid"
	"verif/model"
)

// Step is one operation of a generated history.
type Step struct {
	Kind   string        `json:"kind"` // insert | update | delete | reopen | evict
	Points []model.Point `json:"points,omitempty"`
	Ids    []uuid.UUID   `json:"ids,omitempty"`
	// Expect is filled by the generator from its private model: "ok" or the
	// reason the batch must be rejected. The executor recomputes it.
	Note string `json:"note,omitempty"`
}

// History is a generated case for the shard-level checks.
type History struct {
	Schema       models.IndexSchema `json:"schema"`
	MaxPointSize int                `json:"maxPointSize"`
	CacheLimit   int64              `json:"cacheLimit"` // -1 unlimited, 0 disabled, >0 bytes
	Steps        []Step             `json:"steps"`
	// FirstNodeId > 0: the shard starts as one that has already handed out (and freed again) that many
	// internal node ids: its next fresh node id is preset, so that the history runs with node ids around a
	// boundary that would otherwise take millions of writes to reach
	FirstNodeId uint64 `json:"firstNodeId,omitempty"`
	// Rename: the shard really runs with these index property names instead of the generators' fixed ones
	// (drive.OpenNamed translates on the way in and out, so model and oracles keep the fixed names)
	Rename Rename `json:"rename,omitempty"`
}

// NodeIdBoundaries are values around which the code under test changes its representation of node id
// sets (the size classes of the graph search's visited bit sets) or integer widths.
var NodeIdBoundaries = []uint64{255, 256, 65535, 65536, 110_000, 260_000, 520_000, 1_300_000, 2_600_000, 5_200_000, 10_500_000, 1<<32 - 1, 1 << 32, 1 << 40, 1 << 63}

// GenFirstNodeId draws a preset for History.FirstNodeId: a boundary minus a few ids, so that the history
// crosses it.
func GenFirstNodeId(t *rapid.T, label string) uint64 {
	b := rapid.SampledFrom(NodeIdBoundaries).Draw(t, label+"-boundary")
	return b - uint64(rapid.IntRange(0, 12).Draw(t, label+"-below"))
}

// HistoryOpts tunes the history generator.
type HistoryOpts struct {
	MaxSteps       int
	MaxBatch       int
	PoolSize       int  // number of distinct ids in play
	AllowRejected  bool // generate inserts that must be rejected (repeated / stored id)
	AllowDupUpdate bool // the same id twice in one update batch
	AllowOversize  bool // small MaxPointSize so that merges overflow
	Reopen         bool
	Evict          bool
	ExtraFields    bool
	FieldProb      int // percent chance that an indexed field is present in a new document (default 75)
}

// IdPool builds a deterministic pool of distinct uuids.
func IdPool(n int) []uuid.UUID {
	ids := make([]uuid.UUID, n)
	for i := range ids {
		var u uuid.UUID
		// spread over the byte range so that id order differs from pool order
		u[0] = byte(i * 37)
		u[1] = byte(i)
		u[6] = 0x40
		u[8] = 0x80
		u[15] = byte(255 - i)
		ids[i] = u
	}
	return ids
}

// GenValue draws an arbitrary JSON-like value for non-indexed fields.
func GenValue(t *rapid.T, label string, depth int) any {
	k := rapid.IntRange(0, 8).Draw(t, label+"-vk")
	if depth <= 0 && k >= 7 {
		k = 0
	}
	switch k {
	case 0:
		return GenString(t, label+"-s")
	case 1:
		return GenInt(t, label+"-i")
	case 2:
		return GenFloat(t, label+"-f")
	case 3:
		return rapid.Bool().Draw(t, label+"-b")
	case 4:
		return nil
	case 5:
		return ""
	case 6:
		return model.DeleteValue + "d" // looks like the marker but is not
	case 7:
		n := rapid.IntRange(0, 3).Draw(t, label+"-an")
		a := make([]any, n)
		for i := range a {
			a[i] = GenValue(t, fmt.Sprintf("%s-a%d", label, i), depth-1)
		}
		return a
	default:
		n := rapid.IntRange(0, 3).Draw(t, label+"-mn")
		m := map[string]any{}
		for i := 0; i < n; i++ {
			key := rapid.SampledFrom([]string{"p", "q", "k", "name", "_delete", "deep"}).Draw(t, fmt.Sprintf("%s-mk%d", label, i))
			m[key] = GenValue(t, fmt.Sprintf("%s-m%d", label, i), depth-1)
		}
		return m
	}
}

// genIndexedValue draws a value of the right type for an indexed property.
func genIndexedValue(t *rapid.T, label string, sv models.IndexSchemaValue) any {
	switch sv.Type {
	case models.IndexTypeString:
		return GenString(t, label)
	case models.IndexTypeStringArray:
		return GenTags(t, label)
	case models.IndexTypeInteger:
		return GenInt(t, label)
	case models.IndexTypeFloat:
		return GenFloat(t, label)
	case models.IndexTypeText:
		return GenText(t, label)
	case models.IndexTypeVectorFlat, models.IndexTypeVectorVamana:
		dim, metric := VectorParams(sv)
		return GenVector(t, label, dim, metric)
	}
	panic("gen: unknown index type " + sv.Type)
}

// setPath sets a (possibly dotted) path in a document, creating the maps on the way.
func setPath(d model.Doc, path string, v any) {
	parts := strings.Split(path, ".")
	var m map[string]any = d
	for _, part := range parts[:len(parts)-1] {
		next, ok := m[part].(map[string]any)
		if !ok {
			next = map[string]any{}
			m[part] = next
		}
		m = next
	}
	m[parts[len(parts)-1]] = v
}

// GenDoc draws a full document for an insert.
func GenDoc(t *rapid.T, label string, schema models.IndexSchema, o HistoryOpts) model.Doc {
	d := model.Doc{}
	prob := o.FieldProb
	if prob == 0 {
		prob = 75
	}
	for _, p := range SortedProps(schema) {
		if rapid.IntRange(0, 99).Draw(t, label+"-has-"+p) < prob {
			setPath(d, p, genIndexedValue(t, label+"-"+p, schema[p]))
		}
	}
	if o.ExtraFields {
		n := rapid.IntRange(0, 3).Draw(t, label+"-nextra")
		for i := 0; i < n; i++ {
			key := rapid.SampledFrom([]string{"extra", "note", "k1", "k2", "Meta", "_x"}).Draw(t, fmt.Sprintf("%s-ek%d", label, i))
			d[key] = GenValue(t, fmt.Sprintf("%s-ev%d", label, i), 2)
		}
		if rapid.IntRange(0, 19).Draw(t, label+"-literal-delete") == 0 {
			d["marker"] = model.DeleteValue // stored literally by an insert
		}
	}
	return d
}

// GenUpdateDoc draws the field set of an update: change, add, remove ("_delete"),
// replace the nested parent map, or nothing at all.
func GenUpdateDoc(t *rapid.T, label string, schema models.IndexSchema, o HistoryOpts) model.Doc {
	d := model.Doc{}
	// a top-level map that holds nested indexed properties is replaced as a whole by an update (the merge
	// is shallow): once it is in the update, further nested properties are set inside it
	nestedParentDone := map[string]bool{}
	for _, p := range SortedProps(schema) {
		parent := ""
		if i := strings.IndexByte(p, '.'); i >= 0 {
			parent = p[:i]
		}
		switch rapid.IntRange(0, 5).Draw(t, label+"-u-"+p) {
		case 0, 1: // set / change
			if parent != "" && d[parent] == model.DeleteValue {
				break
			}
			setPath(d, p, genIndexedValue(t, label+"-"+p, schema[p]))
			if parent != "" {
				nestedParentDone[parent] = true
			}
		case 2: // remove
			if parent != "" {
				if !nestedParentDone[parent] {
					switch rapid.IntRange(0, 3).Draw(t, label+"-rmnested-"+p) {
					case 0:
						d[parent] = model.DeleteValue
					case 1:
						d[parent] = map[string]any{} // replaced by an empty map: nested fields vanish
					case 2:
						d[parent] = map[string]any{"other": int64(1)}
					default:
						// the maps on the way stay, the last one is empty
						parts := strings.Split(p, ".")
						setPath(d, strings.Join(parts[:len(parts)-1], ".")+".other", int64(2))
					}
					nestedParentDone[parent] = true
				}
			} else {
				d[p] = model.DeleteValue
			}
		}
	}
	if o.ExtraFields {
		n := rapid.IntRange(0, 2).Draw(t, label+"-nextra")
		for i := 0; i < n; i++ {
			// (a field whose NAME contains dots is a top-level field like any other: the merge is shallow and
			// never walks into nested maps, so removing "meta.k" leaves the map meta alone)
			key := rapid.SampledFrom([]string{"extra", "note", "k1", "k2", "marker", "meta.k", "meta.name", "org.unit", "org.unit.zip"}).Draw(t, fmt.Sprintf("%s-ek%d", label, i))
			if strings.Contains(key, ".") {
				d[key] = model.DeleteValue
				continue
			}
			if rapid.IntRange(0, 3).Draw(t, fmt.Sprintf("%s-edel%d", label, i)) == 0 {
				d[key] = model.DeleteValue
			} else {
				d[key] = GenValue(t, fmt.Sprintf("%s-ev%d", label, i), 2)
			}
		}
	}
	return d
}

// HistoryGen generates steps against a private model so that ids are chosen on
// purpose.
type HistoryGen struct {
	T      *rapid.T
	Schema models.IndexSchema
	Opts   HistoryOpts
	Pool   []uuid.UUID
	M      *model.Collection
	Gone   map[uuid.UUID]bool // ids deleted at some point
	n      int
}

func NewHistoryGen(t *rapid.T, schema models.IndexSchema, maxPointSize int, o HistoryOpts) *HistoryGen {
	if o.PoolSize == 0 {
		o.PoolSize = 16
	}
	return &HistoryGen{T: t, Schema: schema, Opts: o, Pool: IdPool(o.PoolSize), M: model.NewCollection(schema, maxPointSize), Gone: map[uuid.UUID]bool{}}
}

func (g *HistoryGen) label(s string) string { g.n++; return fmt.Sprintf("%s%d", s, g.n) }

func (g *HistoryGen) freeIds() []uuid.UUID {
	var r []uuid.UUID
	for _, id := range g.Pool {
		if _, ok := g.M.Docs[id]; !ok {
			r = append(r, id)
		}
	}
	return r
}

func (g *HistoryGen) storedIds() []uuid.UUID {
	var r []uuid.UUID
	for _, id := range g.Pool {
		if _, ok := g.M.Docs[id]; ok {
			r = append(r, id)
		}
	}
	return r
}

// Insert generates an insert batch (and applies it to the private model).
func (g *HistoryGen) Insert() Step {
	t := g.T
	free := g.freeIds()
	maxB := min(g.Opts.MaxBatch, len(free))
	n := 0
	if maxB > 0 {
		n = rapid.IntRange(0, maxB).Draw(t, g.label("ins-n"))
	}
	var ids []uuid.UUID
	if n > 0 {
		perm := rapid.Permutation(free).Draw(t, g.label("ins-ids"))
		ids = perm[:n]
	}
	st := Step{Kind: "insert"}
	for i, id := range ids {
		st.Points = append(st.Points, model.Point{Id: id, Doc: GenDoc(t, g.label(fmt.Sprintf("ins-d%d-", i)), g.Schema, g.Opts)})
	}
	if g.Opts.AllowRejected && rapid.IntRange(0, 5).Draw(t, g.label("ins-bad")) == 0 {
		stored := g.storedIds()
		switch {
		case len(st.Points) > 0 && rapid.Bool().Draw(t, g.label("ins-badkind")):
			// repeat an id of the batch
			dup := st.Points[rapid.IntRange(0, len(st.Points)-1).Draw(t, g.label("ins-dupidx"))]
			st.Points = append(st.Points, model.Point{Id: dup.Id, Doc: GenDoc(t, g.label("ins-dupdoc-"), g.Schema, g.Opts)})
		case len(stored) > 0:
			id := rapid.SampledFrom(stored).Draw(t, g.label("ins-stored"))
			at := 0
			if len(st.Points) > 0 {
				at = rapid.IntRange(0, len(st.Points)).Draw(t, g.label("ins-storedat"))
			}
			p := model.Point{Id: id, Doc: GenDoc(t, g.label("ins-storeddoc-"), g.Schema, g.Opts)}
			st.Points = append(st.Points[:at], append([]model.Point{p}, st.Points[at:]...)...)
		}
	}
	if r := g.M.Insert(st.Points); r != "" {
		st.Note = "rejected: " + r
	}
	return st
}

// Update generates an update batch over stored, deleted and never-stored ids.
func (g *HistoryGen) Update() Step {
	t := g.T
	st := Step{Kind: "update"}
	n := rapid.IntRange(0, g.Opts.MaxBatch).Draw(t, g.label("upd-n"))
	used := map[uuid.UUID]bool{}
	stored := g.storedIds()
	for i := 0; i < n; i++ {
		var id uuid.UUID
		if len(stored) > 0 && rapid.IntRange(0, 9).Draw(t, g.label("upd-known")) < 8 {
			id = rapid.SampledFrom(stored).Draw(t, g.label("upd-id"))
		} else {
			id = rapid.SampledFrom(g.Pool).Draw(t, g.label("upd-anyid"))
		}
		if used[id] && !g.Opts.AllowDupUpdate {
			continue
		}
		used[id] = true
		st.Points = append(st.Points, model.Point{Id: id, Doc: GenUpdateDoc(t, g.label(fmt.Sprintf("upd-d%d-", i)), g.Schema, g.Opts)})
	}
	if _, r := g.M.Update(st.Points); r != "" {
		st.Note = "rejected: " + r
	}
	return st
}

// Delete generates a delete batch.
func (g *HistoryGen) Delete() Step {
	t := g.T
	st := Step{Kind: "delete"}
	n := rapid.IntRange(0, g.Opts.MaxBatch).Draw(t, g.label("del-n"))
	stored := g.storedIds()
	seen := map[uuid.UUID]bool{}
	for i := 0; i < n; i++ {
		var id uuid.UUID
		if len(stored) > 0 && rapid.IntRange(0, 9).Draw(t, g.label("del-known")) < 8 {
			id = rapid.SampledFrom(stored).Draw(t, g.label("del-id"))
		} else {
			id = rapid.SampledFrom(g.Pool).Draw(t, g.label("del-anyid"))
		}
		if seen[id] {
			continue
		}
		seen[id] = true
		st.Ids = append(st.Ids, id)
	}
	for _, id := range g.M.Delete(st.Ids) {
		g.Gone[id] = true
	}
	return st
}

// DeleteAll deletes every stored point (and maybe some that are not stored).
func (g *HistoryGen) DeleteAll() Step {
	st := Step{Kind: "delete", Note: "all"}
	st.Ids = append(st.Ids, g.storedIds()...)
	for _, id := range g.M.Delete(st.Ids) {
		g.Gone[id] = true
	}
	return st
}

// Next draws the next step.
func (g *HistoryGen) Next() Step {
	t := g.T
	k := rapid.IntRange(0, 11).Draw(t, g.label("step"))
	if k >= 8 && k <= 9 && len(g.M.Docs) > 0 && rapid.IntRange(0, 5).Draw(t, g.label("delall")) == 0 {
		return g.DeleteAll()
	}
	switch {
	case k <= 3 || len(g.M.Docs) == 0 && k <= 7:
		return g.Insert()
	case k <= 7:
		return g.Update()
	case k <= 9:
		return g.Delete()
	case k == 10 && g.Opts.Reopen:
		return Step{Kind: "reopen"}
	case k == 11 && g.Opts.Evict:
		return Step{Kind: "evict"}
	}
	return g.Insert()
}

// GenHistory draws a whole history.
func GenHistory(t *rapid.T, so SchemaOpts, o HistoryOpts) History {
	schema := Schema(t, so)
	h := History{Schema: schema, MaxPointSize: 1 << 20, CacheLimit: rapid.SampledFrom([]int64{-1, -1, 0, 2000}).Draw(t, "cacheLimit")}
	if o.AllowOversize && rapid.IntRange(0, 2).Draw(t, "oversize") == 0 {
		h.MaxPointSize = rapid.IntRange(60, 400).Draw(t, "maxPointSize")
	}
	g := NewHistoryGen(t, schema, h.MaxPointSize, o)
	n := rapid.IntRange(1, o.MaxSteps).Draw(t, "nsteps")
	for i := 0; i < n; i++ {
		h.Steps = append(h.Steps, g.Next())
	}
	return h
}
