package gen

import (
	"fmt"
	"math"
	"sort"

	"github.com/google/uuid"
	"github.com/semafind/semadb/models"
	"pgregory.net/rapid"
	"verif/model"
)

var stringOps = []string{models.OperatorEquals, models.OperatorNotEquals, models.OperatorStartsWith, models.OperatorGreaterThan, models.OperatorGreaterOrEq, models.OperatorLessThan, models.OperatorLessOrEq, models.OperatorInRange}
var numberOps = []string{models.OperatorEquals, models.OperatorNotEquals, models.OperatorGreaterThan, models.OperatorGreaterOrEq, models.OperatorLessThan, models.OperatorLessOrEq, models.OperatorInRange}
var arrayOps = []string{models.OperatorContainsAll, models.OperatorContainsAny}

// FilterProps lists the schema's filterable properties in sorted order.
func FilterProps(s models.IndexSchema) []string {
	var r []string
	for _, p := range SortedProps(s) {
		switch s[p].Type {
		case models.IndexTypeString, models.IndexTypeStringArray, models.IndexTypeInteger, models.IndexTypeFloat:
			r = append(r, p)
		}
	}
	return r
}

// stored values of a property in the model, sorted (deterministic).
func storedStrings(m *model.Collection, prop string, array bool) []string {
	set := map[string]bool{}
	for _, d := range m.Docs {
		if array {
			if vs, ok := model.FieldStrings(d, prop); ok {
				for _, v := range vs {
					set[v] = true
				}
			}
		} else if v, ok := model.FieldString(d, prop); ok {
			set[v] = true
		}
	}
	r := make([]string, 0, len(set))
	for v := range set {
		r = append(r, v)
	}
	sort.Strings(r)
	return r
}

func storedInts(m *model.Collection, prop string) []int64 {
	set := map[int64]bool{}
	for _, d := range m.Docs {
		if v, ok := model.FieldInt(d, prop); ok {
			set[v] = true
		}
	}
	r := make([]int64, 0, len(set))
	for v := range set {
		r = append(r, v)
	}
	sort.Slice(r, func(i, j int) bool { return r[i] < r[j] })
	return r
}

func storedFloats(m *model.Collection, prop string) []float64 {
	set := map[uint64]bool{}
	for _, d := range m.Docs {
		if v, ok := model.FieldFloat(d, prop); ok {
			set[math.Float64bits(v)] = true
		}
	}
	r := make([]float64, 0, len(set))
	for b := range set {
		r = append(r, math.Float64frombits(b))
	}
	sort.Slice(r, func(i, j int) bool { return math.Float64bits(r[i]) < math.Float64bits(r[j]) })
	return r
}

func queryString(t *rapid.T, label string, stored []string) string {
	if len(stored) > 0 && rapid.IntRange(0, 2).Draw(t, label+"-src") > 0 {
		s := rapid.SampledFrom(stored).Draw(t, label+"-stored")
		switch rapid.IntRange(0, 5).Draw(t, label+"-var") {
		case 0:
			if len(s) > 1 {
				// a prefix (cut at a rune boundary)
				r := []rune(s)
				return string(r[:rapid.IntRange(1, len(r)).Draw(t, label+"-cut")])
			}
		case 1:
			return s + rapid.SampledFrom([]string{"a", "A", " ", "~", "\x00"}).Draw(t, label+"-suffix")
		case 2:
			return swapCase(s)
		}
		if s != "" {
			return s
		}
	}
	return GenString(t, label)
}

func swapCase(s string) string {
	r := []rune(s)
	for i, c := range r {
		switch {
		case c >= 'a' && c <= 'z':
			r[i] = c - 32
		case c >= 'A' && c <= 'Z':
			r[i] = c + 32
		case c == 'é':
			r[i] = 'É'
		case c == 'É':
			r[i] = 'é'
		}
	}
	return string(r)
}

func queryInt(t *rapid.T, label string, stored []int64) int64 {
	if len(stored) > 0 && rapid.IntRange(0, 2).Draw(t, label+"-src") > 0 {
		v := rapid.SampledFrom(stored).Draw(t, label+"-stored")
		d := int64(rapid.IntRange(-1, 1).Draw(t, label+"-delta"))
		if (d > 0 && v == math.MaxInt64) || (d < 0 && v == math.MinInt64) {
			d = 0
		}
		return v + d
	}
	return GenInt(t, label)
}

func queryFloat(t *rapid.T, label string, stored []float64) float64 {
	if len(stored) > 0 && rapid.IntRange(0, 2).Draw(t, label+"-src") > 0 {
		v := rapid.SampledFrom(stored).Draw(t, label+"-stored")
		switch rapid.IntRange(0, 3).Draw(t, label+"-var") {
		case 0:
			if n := math.Nextafter(v, math.Inf(1)); !math.IsInf(n, 0) {
				return n
			}
		case 1:
			if n := math.Nextafter(v, math.Inf(-1)); !math.IsInf(n, 0) {
				return n
			}
		case 2:
			if v == 0 {
				// the zero of the other sign
				if math.Signbit(v) {
					return 0
				}
				return math.Copysign(0, -1)
			}
		}
		return v
	}
	return GenFloat(t, label)
}

// FilterLeaf draws one valid filter leaf on a filterable property or _id.
func FilterLeaf(t *rapid.T, label string, m *model.Collection, pool []uuid.UUID) models.Query {
	props := FilterProps(m.Schema)
	if len(props) == 0 || rapid.IntRange(0, 9).Draw(t, label+"-id") == 0 {
		if rapid.Bool().Draw(t, label+"-idkind") {
			return models.Query{Property: "_id", String: &models.SearchStringOptions{Value: rapid.SampledFrom(pool).Draw(t, label+"-idv").String(), Operator: models.OperatorEquals}}
		}
		n := rapid.IntRange(1, min(5, len(pool))).Draw(t, label+"-idn")
		vals := make([]string, n)
		for i := range vals {
			vals[i] = rapid.SampledFrom(pool).Draw(t, fmt.Sprintf("%s-idv%d", label, i)).String()
		}
		return models.Query{Property: "_id", StringArray: &models.SearchStringArrayOptions{Value: vals, Operator: models.OperatorContainsAny}}
	}
	prop := rapid.SampledFrom(props).Draw(t, label+"-prop")
	sv := m.Schema[prop]
	q := models.Query{Property: prop}
	switch sv.Type {
	case models.IndexTypeString:
		stored := storedStrings(m, prop, false)
		o := &models.SearchStringOptions{Operator: rapid.SampledFrom(stringOps).Draw(t, label+"-op")}
		o.Value = queryString(t, label+"-v", stored)
		if o.Operator == models.OperatorInRange {
			e := queryString(t, label+"-e", stored)
			if e < o.Value {
				o.Value, e = e, o.Value
			}
			if e == o.Value {
				e = o.Value + "z" // validation demands endValue > value
			}
			o.EndValue = e
		}
		q.String = o
	case models.IndexTypeStringArray:
		stored := storedStrings(m, prop, true)
		n := rapid.IntRange(1, 3).Draw(t, label+"-n")
		vals := make([]string, n)
		for i := range vals {
			vals[i] = queryString(t, fmt.Sprintf("%s-v%d", label, i), stored)
		}
		q.StringArray = &models.SearchStringArrayOptions{Value: vals, Operator: rapid.SampledFrom(arrayOps).Draw(t, label+"-op")}
	case models.IndexTypeInteger:
		stored := storedInts(m, prop)
		o := &models.SearchIntegerOptions{Operator: rapid.SampledFrom(numberOps).Draw(t, label+"-op")}
		o.Value = queryInt(t, label+"-v", stored)
		if o.Operator == models.OperatorInRange {
			e := queryInt(t, label+"-e", stored)
			if e < o.Value {
				o.Value, e = e, o.Value
			}
			if e == o.Value {
				if e == math.MaxInt64 {
					o.Value--
				} else {
					e++
				}
			}
			o.EndValue = e
		}
		q.Integer = o
	case models.IndexTypeFloat:
		stored := storedFloats(m, prop)
		o := &models.SearchFloatOptions{Operator: rapid.SampledFrom(numberOps).Draw(t, label+"-op")}
		o.Value = queryFloat(t, label+"-v", stored)
		if o.Operator == models.OperatorInRange {
			e := queryFloat(t, label+"-e", stored)
			if e < o.Value {
				o.Value, e = e, o.Value
			}
			if !(e > o.Value) {
				e = math.Nextafter(o.Value, math.Inf(1))
				if math.IsInf(e, 0) {
					e = o.Value
					o.Value = math.Nextafter(e, math.Inf(-1))
				}
			}
			o.EndValue = e
		}
		q.Float = o
	}
	return q
}

// FilterTree draws a filter query: a leaf or an _and/_or tree of depth <= depth.
func FilterTree(t *rapid.T, label string, m *model.Collection, pool []uuid.UUID, depth int) models.Query {
	if depth <= 0 || rapid.IntRange(0, 2).Draw(t, label+"-leaf") > 0 {
		return FilterLeaf(t, label, m, pool)
	}
	n := rapid.IntRange(1, 3).Draw(t, label+"-n")
	subs := make([]models.Query, n)
	for i := range subs {
		subs[i] = FilterTree(t, fmt.Sprintf("%s.%d", label, i), m, pool, depth-1)
	}
	if rapid.Bool().Draw(t, label+"-and") {
		return models.Query{Property: "_and", And: subs}
	}
	return models.Query{Property: "_or", Or: subs}
}

// MustValid panics if a generated query does not pass semadb's own validation:
// that would be a generator bug, not a finding.
func MustValid(q models.Query, schema models.IndexSchema) {
	if err := q.Validate(); err != nil {
		panic(fmt.Sprintf("gen: generated query fails validation: %v (%+v)", err, q))
	}
	if err := q.ValidateSchema(schema); err != nil {
		panic(fmt.Sprintf("gen: generated query fails schema validation: %v (%+v)", err, q))
	}
}

// VecQueryParts draws the pieces of a vector query on a vector property.
func VecQueryParts(t *rapid.T, label string, m *model.Collection, pool []uuid.UUID, prop string, maxLimit int) (vec []float32, limit int, weight *float32, filter *models.Query) {
	dim, metric := VectorParams(m.Schema[prop])
	// query vector: fresh, or equal to a stored one (distance 0, ties)
	var stored [][]float32
	for _, id := range m.Ids() {
		if v, ok := model.FieldVector(m.Docs[id], prop); ok {
			stored = append(stored, v)
		}
	}
	if len(stored) > 0 && rapid.IntRange(0, 3).Draw(t, label+"-qsrc") == 0 {
		vec = append([]float32(nil), stored[rapid.IntRange(0, len(stored)-1).Draw(t, label+"-qstored")]...)
	} else {
		vec = GenVector(t, label+"-qv", dim, metric)
	}
	switch rapid.IntRange(0, 3).Draw(t, label+"-limk") {
	case 0:
		limit = rapid.IntRange(1, 3).Draw(t, label+"-lim-small")
	case 1:
		limit = rapid.SampledFrom([]int{maxLimit, max(1, len(stored)), max(1, len(stored)-1), len(stored) + 1}).Draw(t, label+"-lim-edge")
	default:
		limit = rapid.IntRange(1, maxLimit).Draw(t, label+"-lim")
	}
	if limit > maxLimit {
		limit = maxLimit
	}
	if rapid.IntRange(0, 2).Draw(t, label+"-hasw") == 0 {
		w := rapid.SampledFrom([]float32{0, 1, -1, 0.5, 2.5, -3, 1e-3}).Draw(t, label+"-w")
		weight = &w
	}
	if len(FilterProps(m.Schema)) > 0 && rapid.IntRange(0, 2).Draw(t, label+"-hasf") == 0 || rapid.IntRange(0, 9).Draw(t, label+"-idf") == 0 {
		f := FilterTree(t, label+"-f", m, pool, 2)
		filter = &f
	}
	return
}

// AnyQuery draws a query of any kind the schema supports: a filter tree, a
// flat / graph vector search or a text search (ranking leaves may carry a
// pre-filter).
func AnyQuery(t *rapid.T, label string, m *model.Collection, pool []uuid.UUID) models.Query {
	var ranked []string
	for _, p := range SortedProps(m.Schema) {
		switch m.Schema[p].Type {
		case models.IndexTypeVectorFlat, models.IndexTypeVectorVamana, models.IndexTypeText:
			ranked = append(ranked, p)
		}
	}
	if len(ranked) == 0 || rapid.IntRange(0, 2).Draw(t, label+"-kind") == 0 {
		return FilterTree(t, label+"-f", m, pool, 2)
	}
	prop := rapid.SampledFrom(ranked).Draw(t, label+"-rprop")
	return RankLeaf(t, label, m, pool, prop)
}

// RankLeaf draws a ranking leaf (vector or text search) on the given property.
func RankLeaf(t *rapid.T, label string, m *model.Collection, pool []uuid.UUID, prop string) models.Query {
	sv := m.Schema[prop]
	switch sv.Type {
	case models.IndexTypeText:
		n := rapid.IntRange(1, 2).Draw(t, label+"-tn")
		v := ""
		for i := 0; i < n; i++ {
			v += rapid.SampledFrom(Words).Draw(t, fmt.Sprintf("%s-tw%d", label, i)) + " "
		}
		o := &models.SearchTextOptions{Value: v, Operator: rapid.SampledFrom(arrayOps).Draw(t, label+"-top"), Limit: rapid.IntRange(1, 75).Draw(t, label+"-tl")}
		if rapid.IntRange(0, 2).Draw(t, label+"-tw") == 0 {
			w := rapid.SampledFrom([]float32{0, 1, -1, 0.5, 3}).Draw(t, label+"-twv")
			o.Weight = &w
		}
		if len(FilterProps(m.Schema)) > 0 && rapid.IntRange(0, 2).Draw(t, label+"-tf") == 0 {
			f := FilterTree(t, label+"-tff", m, pool, 1)
			o.Filter = &f
		}
		return models.Query{Property: prop, Text: o}
	case models.IndexTypeVectorFlat:
		vec, limit, w, f := VecQueryParts(t, label, m, pool, prop, 75)
		return models.Query{Property: prop, VectorFlat: &models.SearchVectorFlatOptions{Vector: vec, Operator: models.OperatorNear, Limit: limit, Weight: w, Filter: f}}
	default:
		vec, limit, w, f := VecQueryParts(t, label, m, pool, prop, 75)
		ss := rapid.IntRange(max(25, limit), 75).Draw(t, label+"-ss")
		return models.Query{Property: prop, VectorVamana: &models.SearchVectorVamanaOptions{Vector: vec, Operator: models.OperatorNear, Limit: limit, SearchSize: ss, Weight: w, Filter: f}}
	}
}
