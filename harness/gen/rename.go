package gen

import (
	"sort"

	"github.com/semafind/semadb/models"
	"pgregory.net/rapid"
	"verif/model"
)

// Rename maps the generators' fixed property names to the names a case runs with. Index property names
// are free-form strings in semadb (nothing validates them beyond being non-empty) and they end up inside
// bucket names and shared-cache names, so a case generated with the fixed names may be executed with names
// that are unusual as path components. Only top-level (undotted) names are renamed, and only to undotted
// names, so the shape of the documents stays the same.
type Rename map[string]string

// PathyNames are property names that a path-like treatment (cleaning, joining, splitting on "/") would
// change or split.
var PathyNames = []string{"doc//body", "notes/", "/lead", "a/b", "x y", "index", "points", "é", "per%cent", "semi;colon", "back\\slash", "UPPER", "upper"}

// GenRename draws a renaming for the undotted properties of a schema (each renamed with probability 1/2).
func GenRename(t *rapid.T, schema models.IndexSchema) Rename {
	r := Rename{}
	perm := rapid.Permutation(PathyNames).Draw(t, "rename-names")
	i := 0
	for _, p := range SortedProps(schema) {
		if !undotted(p) || i >= len(perm) {
			continue
		}
		if _, clash := schema[perm[i]]; clash {
			i++
			continue
		}
		if rapid.Bool().Draw(t, "rename-"+p) {
			r[p] = perm[i]
			i++
		}
	}
	return r
}

func undotted(p string) bool {
	for _, c := range p {
		if c == '.' {
			return false
		}
	}
	return true
}

func (r Rename) Name(p string) string {
	if n, ok := r[p]; ok {
		return n
	}
	return p
}

func (r Rename) Schema(s models.IndexSchema) models.IndexSchema {
	if len(r) == 0 {
		return s
	}
	out := models.IndexSchema{}
	for p, v := range s {
		out[r.Name(p)] = v
	}
	return out
}

func (r Rename) Doc(d model.Doc) model.Doc {
	if len(r) == 0 || d == nil {
		return d
	}
	out := model.Doc{}
	keys := make([]string, 0, len(d))
	for k := range d {
		keys = append(keys, k)
	}
	sort.Strings(keys)
	for _, k := range keys {
		out[r.Name(k)] = d[k]
	}
	return out
}

func (r Rename) Steps(steps []Step) []Step {
	if len(r) == 0 {
		return steps
	}
	out := make([]Step, len(steps))
	for i, st := range steps {
		out[i] = st
		if st.Points != nil {
			out[i].Points = make([]model.Point, len(st.Points))
			for j, p := range st.Points {
				out[i].Points[j] = model.Point{Id: p.Id, Doc: r.Doc(p.Doc)}
			}
		}
	}
	return out
}

func (r Rename) Query(q models.Query) models.Query {
	if len(r) == 0 {
		return q
	}
	q.Property = r.Name(q.Property)
	sub := func(f *models.Query) *models.Query {
		if f == nil {
			return nil
		}
		g := r.Query(*f)
		return &g
	}
	if q.VectorFlat != nil {
		o := *q.VectorFlat
		o.Filter = sub(o.Filter)
		q.VectorFlat = &o
	}
	if q.VectorVamana != nil {
		o := *q.VectorVamana
		o.Filter = sub(o.Filter)
		q.VectorVamana = &o
	}
	if q.Text != nil {
		o := *q.Text
		o.Filter = sub(o.Filter)
		q.Text = &o
	}
	if q.And != nil {
		and := make([]models.Query, len(q.And))
		for i := range q.And {
			and[i] = r.Query(q.And[i])
		}
		q.And = and
	}
	if q.Or != nil {
		or := make([]models.Query, len(q.Or))
		for i := range q.Or {
			or[i] = r.Query(q.Or[i])
		}
		q.Or = or
	}
	return q
}
