package gen

import (
	"github.com/semafind/semadb/models"
	"pgregory.net/rapid"
)

// Rename maps the generators' fixed property names to the names a case runs with. Index property names
// are free-form strings in semadb (nothing validates them beyond being non-empty) and they end up inside
// bucket names and shared-cache names, so a case generated with the fixed names may be executed with names
// that are unusual as path components. Only top-level (undotted) names are renamed, and only to undotted
// names, so the shape of the documents stays the same. The translation happens in the driver
// (drive.OpenNamed): schema, documents, queries, select and sort lists and bucket names on the way in,
// documents on the way out; the model and the oracles keep the fixed names.
type Rename map[string]string

// PathyNames are property names that a path-like treatment (cleaning, joining, splitting on "/") would
// change or split.
var PathyNames = []string{"doc//body", "notes/", "/lead", "a/b", "x y", "index", "points", "é", "per%cent", "semi;colon", "back\\slash", "UPPER", "upper"}

// GenRename draws a renaming for the undotted properties of a schema (each renamed with probability 1/2).
func GenRename(t *rapid.T, schema models.IndexSchema) Rename {
	r := Rename{}
	perm := rapid.Permutation(PathyNames).Draw(t, "rename-names")
	i := 0
	for _, p := range SortedProps(schema) {
		if !undotted(p) || i >= len(perm) {
			continue
		}
		if _, clash := schema[perm[i]]; clash {
			i++
			continue
		}
		if rapid.Bool().Draw(t, "rename-"+p) {
			r[p] = perm[i]
			i++
		}
	}
	return r
}

func undotted(p string) bool {
	for _, c := range p {
		if c == '.' {
			return false
		}
	}
	return true
}

func (r Rename) Name(p string) string {
	if n, ok := r[p]; ok {
		return n
	}
	return p
}

// MaybeRename draws a renaming for one case in six (nil otherwise).
func MaybeRename(t *rapid.T, schema models.IndexSchema) Rename {
	if rapid.IntRange(0, 5).Draw(t, "rename") != 0 {
		return nil
	}
	return GenRename(t, schema)
}
