// Package gen holds the rapid generators shared by the shard-level checks:
// index schemas, documents, write batches (driven by a private copy of the
// reference model so that ids are fresh / stored / deleted / unknown on
// purpose) and queries.
package gen

import (
	"fmt"
	"math"
	"sort"

	"github.com/semafind/semadb/models"
	"pgregory.net/rapid"
)

// Kinds of indexed properties the generators know. Property names are fixed per
// kind so that queries can be generated from the schema alone.
const (
	PString    = "s"      // string, case sensitive
	PStringCI  = "si"     // string, case insensitive
	PTags      = "tags"   // string array, case sensitive
	PTagsCI    = "tagsi"  // string array, case insensitive
	PInt       = "n"      // integer
	PFloat     = "x"      // float
	PNestedInt = "meta.k" // dotted path, integer
	PNestedStr = "meta.name"
	PDeepInt   = "org.unit.zip" // a path of three segments, integer
	PFlat      = "fv"           // flat vector index
	PVamana    = "vec"          // graph vector index
	PText      = "txt"          // text index
)

// SchemaOpts selects what a generated schema may contain.
type SchemaOpts struct {
	Filters   bool // string / string array / integer / float / nested
	Flat      bool
	Vamana    bool
	Text      bool
	MaxDim    int      // vector dimension upper bound
	Metrics   []string // allowed metrics (nil = all six)
	Quantizer bool     // allow binary quantisers (product needs >= 1000 points: ProductOK)
	ProductOK bool
	MinProps  int
}

var allMetrics = []string{models.DistanceEuclidean, models.DistanceCosine, models.DistanceDot, models.DistanceHamming, models.DistanceJaccard, models.DistanceHaversine}

func genQuantizer(t *rapid.T, label string, metric string, dim int, productOK bool) *models.Quantizer {
	if metric == models.DistanceHaversine {
		return nil
	}
	if metric == models.DistanceHamming || metric == models.DistanceJaccard {
		// a bit metric thresholds at 0.5 and counts bits whatever the schema says about quantisers: a quantiser
		// section beside it (legal, validated on its own) changes nothing, whichever bit metric it names
		switch rapid.IntRange(0, 5).Draw(t, label+"-bitquant") {
		case 0:
			th := rapid.SampledFrom([]float32{0, 0.5, 0.75}).Draw(t, label+"-bth")
			return &models.Quantizer{Type: models.QuantizerBinary, Binary: &models.BinaryQuantizerParamaters{
				Threshold: &th, DistanceMetric: rapid.SampledFrom([]string{models.DistanceHamming, models.DistanceJaccard}).Draw(t, label+"-bbm")}}
		case 1:
			return &models.Quantizer{Type: models.QuantizerBinary, Binary: &models.BinaryQuantizerParamaters{
				TriggerThreshold: rapid.IntRange(0, 12).Draw(t, label+"-btrig"),
				DistanceMetric:   rapid.SampledFrom([]string{models.DistanceHamming, models.DistanceJaccard}).Draw(t, label+"-bbm2")}}
		}
		return nil
	}
	switch rapid.IntRange(0, 4).Draw(t, label+"-quant") {
	case 0:
		q := &models.Quantizer{Type: models.QuantizerNone}
		if rapid.IntRange(0, 2).Draw(t, label+"-stray") == 0 {
			// type "none" with a section left over from another type: the type decides, the section is ignored
			th := float32(0.5)
			q.Binary = &models.BinaryQuantizerParamaters{Threshold: &th, DistanceMetric: models.DistanceHamming}
		}
		return q
	case 1:
		th := rapid.SampledFrom([]float32{0, 0.5, -0.25, 1}).Draw(t, label+"-th")
		return &models.Quantizer{Type: models.QuantizerBinary, Binary: &models.BinaryQuantizerParamaters{
			Threshold: &th, DistanceMetric: rapid.SampledFrom([]string{models.DistanceHamming, models.DistanceJaccard}).Draw(t, label+"-bm")}}
	case 2:
		return &models.Quantizer{Type: models.QuantizerBinary, Binary: &models.BinaryQuantizerParamaters{
			TriggerThreshold: rapid.IntRange(0, 12).Draw(t, label+"-trig"),
			DistanceMetric:   rapid.SampledFrom([]string{models.DistanceHamming, models.DistanceJaccard}).Draw(t, label+"-bm")}}
	case 3:
		if productOK && dim%2 == 0 && dim >= 2 {
			return &models.Quantizer{Type: models.QuantizerProduct, Product: &models.ProductQuantizerParameters{
				NumCentroids: rapid.IntRange(2, 8).Draw(t, label+"-pqc"), NumSubVectors: 2, TriggerThreshold: 1000}}
		}
	}
	return nil
}

func genVectorParams(t *rapid.T, label string, o SchemaOpts) (dim uint, metric string, q *models.Quantizer) {
	metrics := o.Metrics
	if metrics == nil {
		metrics = allMetrics
	}
	metric = rapid.SampledFrom(metrics).Draw(t, label+"-metric")
	maxDim := o.MaxDim
	if maxDim == 0 {
		maxDim = 8
	}
	d := rapid.IntRange(1, maxDim).Draw(t, label+"-dim")
	if metric == models.DistanceHaversine {
		d = 2
	}
	if o.Quantizer {
		q = genQuantizer(t, label, metric, d, o.ProductOK)
	}
	return uint(d), metric, q
}

// Schema draws an index schema.
func Schema(t *rapid.T, o SchemaOpts) models.IndexSchema {
	s := models.IndexSchema{}
	if o.Filters {
		cands := []string{PString, PStringCI, PTags, PTagsCI, PInt, PFloat, PNestedInt, PNestedStr, PDeepInt}
		n := rapid.IntRange(o.MinProps, 5).Draw(t, "nfilters")
		perm := rapid.Permutation(cands).Draw(t, "filter-props")
		for _, p := range perm[:min(n, len(perm))] {
			switch p {
			case PString:
				s[p] = models.IndexSchemaValue{Type: models.IndexTypeString, String: &models.IndexStringParameters{CaseSensitive: true}}
			case PStringCI:
				s[p] = models.IndexSchemaValue{Type: models.IndexTypeString, String: &models.IndexStringParameters{CaseSensitive: false}}
			case PNestedStr:
				s[p] = models.IndexSchemaValue{Type: models.IndexTypeString, String: &models.IndexStringParameters{CaseSensitive: rapid.Bool().Draw(t, "nested-cs")}}
			case PTags:
				s[p] = models.IndexSchemaValue{Type: models.IndexTypeStringArray, StringArray: &models.IndexStringArrayParameters{IndexStringParameters: models.IndexStringParameters{CaseSensitive: true}}}
			case PTagsCI:
				s[p] = models.IndexSchemaValue{Type: models.IndexTypeStringArray, StringArray: &models.IndexStringArrayParameters{IndexStringParameters: models.IndexStringParameters{CaseSensitive: false}}}
			case PInt, PNestedInt, PDeepInt:
				s[p] = models.IndexSchemaValue{Type: models.IndexTypeInteger}
			case PFloat:
				s[p] = models.IndexSchemaValue{Type: models.IndexTypeFloat}
			}
		}
	}
	if o.Flat {
		dim, metric, q := genVectorParams(t, "flat", o)
		s[PFlat] = models.IndexSchemaValue{Type: models.IndexTypeVectorFlat, VectorFlat: &models.IndexVectorFlatParameters{VectorSize: dim, DistanceMetric: metric, Quantizer: q}}
	}
	if o.Vamana {
		dim, metric, q := genVectorParams(t, "vamana", o)
		s[PVamana] = models.IndexSchemaValue{Type: models.IndexTypeVectorVamana, VectorVamana: &models.IndexVectorVamanaParameters{
			VectorSize: dim, DistanceMetric: metric, Quantizer: q,
			SearchSize:  rapid.SampledFrom([]int{25, 26, 40, 75}).Draw(t, "vamana-ss"),
			DegreeBound: rapid.SampledFrom([]int{32, 33, 48, 64}).Draw(t, "vamana-db"),
			Alpha:       rapid.SampledFrom([]float32{1.1, 1.2, 1.5}).Draw(t, "vamana-alpha"),
		}}
	}
	if o.Text {
		s[PText] = models.IndexSchemaValue{Type: models.IndexTypeText, Text: &models.IndexTextParameters{Analyser: "standard"}}
	}
	if err := s.Validate(); err != nil {
		panic(fmt.Sprintf("gen: generated invalid schema: %v", err))
	}
	return s
}

// SortedProps returns the schema's property names in sorted order (never rely on
// map order inside a property).
func SortedProps(s models.IndexSchema) []string {
	r := make([]string, 0, len(s))
	for k := range s {
		r = append(r, k)
	}
	sort.Strings(r)
	return r
}

// ---------------------------------------------------------------------------
// value pools

var StringPool = []string{"a", "A", "ab", "aB", "AB", "abc", "abd", "b", "B", "é", "É", "éa", "ß", "z", "Z", "zz", "a b", "日本", "日", "_delete_x", "0", "~",
	// characters whose case-fold orbit has several lower-case members (simple folding and lower-casing
	// disagree on them): micro sign / Greek mu, final sigma / sigma, long s / s, Kelvin sign / k, dotted and
	// dotless i, the dz digraphs
	"\u00b5m", "\u03bcm", "\u039cm", "lo\u03c2", "lo\u03c3", "lo\u03a3", "\u017f", "s", "S", "\u212a", "k", "\u0130", "\u0131", "i", "I", "\u01c5", "\u01c6", "\u01c4"}

var IntPool = []int64{math.MinInt64, math.MinInt64 + 1, -1000, -2, -1, 0, 1, 2, 3, 1000, math.MaxInt64 - 1, math.MaxInt64}

var FloatPool = []float64{
	math.Copysign(0, -1), 0, math.SmallestNonzeroFloat64, -math.SmallestNonzeroFloat64, 2.2250738585072014e-308, -2.2250738585072014e-308,
	-1, 1, -0.5, 0.5, 1.5, -1.5, 1e-300, -1e-300, math.MaxFloat64, -math.MaxFloat64, 3, -3, 1e10, -1e10,
}

func GenString(t *rapid.T, label string) string {
	if rapid.IntRange(0, 9).Draw(t, label+"-k") == 0 {
		s := rapid.StringOfN(rapid.RuneFrom([]rune("abABéÉz ")), 1, 5, -1).Draw(t, label+"-free")
		return s
	}
	return rapid.SampledFrom(StringPool).Draw(t, label)
}

func GenInt(t *rapid.T, label string) int64 {
	switch rapid.IntRange(0, 3).Draw(t, label+"-k") {
	case 0:
		return rapid.Int64().Draw(t, label+"-any")
	case 1:
		return int64(rapid.IntRange(-4, 4).Draw(t, label+"-small"))
	default:
		return rapid.SampledFrom(IntPool).Draw(t, label)
	}
}

// GenFloat draws a finite, non-NaN float64 (infinities cannot be carried by the
// JSON API and are left to C19).
func GenFloat(t *rapid.T, label string) float64 {
	switch rapid.IntRange(0, 4).Draw(t, label+"-k") {
	case 0:
		f := rapid.Float64().Draw(t, label+"-any")
		if f != f || math.IsInf(f, 0) {
			return 0
		}
		return f
	case 1:
		return float64(rapid.IntRange(-8, 8).Draw(t, label+"-small")) / 4
	case 2:
		base := rapid.SampledFrom(FloatPool).Draw(t, label+"-base")
		dir := rapid.SampledFrom([]float64{math.Inf(1), math.Inf(-1)}).Draw(t, label+"-dir")
		f := math.Nextafter(base, dir)
		if math.IsInf(f, 0) {
			return base
		}
		return f
	default:
		return rapid.SampledFrom(FloatPool).Draw(t, label)
	}
}

// SpacedTags are groupings of the same words into different values: joined with a blank they read the same.
var SpacedTags = [][]string{{"new york", "city"}, {"new", "york city"}, {"new", "york", "city"}, {"new york city"}, {"a b"}, {"a", "b"}}

func GenTags(t *rapid.T, label string) []string {
	if rapid.IntRange(0, 7).Draw(t, label+"-spaced") == 0 {
		return append([]string{}, rapid.SampledFrom(SpacedTags).Draw(t, label+"-sp")...)
	}
	n := rapid.IntRange(0, 4).Draw(t, label+"-n")
	r := make([]string, n)
	for i := range r {
		r[i] = GenString(t, fmt.Sprintf("%s-%d", label, i))
	}
	return r
}

// Vocabulary for text fields: content words, stop words of bleve's standard
// (English) analyser, punctuation and unicode.
var Words = []string{"gandalf", "wizard", "ring", "Ring", "RING", "frodo", "shire", "mordor", "elf", "elves", "naïve", "café", "日本語", "x1", "42", "rings"}
var StopWords = []string{"the", "a", "and", "of", "to", "is", "The", "AND"}
var Puncts = []string{".", ",", "!", "-", "...", "?", "'", "\""}

func GenText(t *rapid.T, label string) string {
	kind := rapid.IntRange(0, 9).Draw(t, label+"-kind")
	if kind == 0 {
		// blank: only stop words and punctuation → analyses to nothing
		n := rapid.IntRange(0, 3).Draw(t, label+"-nb")
		s := ""
		for i := 0; i < n; i++ {
			s += rapid.SampledFrom(append(append([]string{}, StopWords...), Puncts...)).Draw(t, label+"-b") + " "
		}
		if s == "" {
			s = " "
		}
		return s
	}
	n := rapid.IntRange(1, 7).Draw(t, label+"-n")
	s := ""
	for i := 0; i < n; i++ {
		switch rapid.IntRange(0, 5).Draw(t, label+"-w") {
		case 0:
			s += rapid.SampledFrom(StopWords).Draw(t, label+"-sw")
		case 1:
			s += rapid.SampledFrom(Puncts).Draw(t, label+"-p")
		default:
			s += rapid.SampledFrom(Words).Draw(t, label+"-cw")
		}
		s += rapid.SampledFrom([]string{" ", " ", ", ", ". ", "-"}).Draw(t, label+"-sep")
	}
	return s
}

// HugeVectors lets GenVector produce euclidean vectors whose squared distances overflow float32 (set by
// the checks whose oracle handles infinite distances).
var HugeVectors bool

// GenVector draws a vector valid for the metric: unit length for cosine,
// latitude/longitude for haversine, mostly 0/1 for the bit metrics, small grid
// values (many ties) otherwise. Magnitudes stay far below float32 overflow.
func GenVector(t *rapid.T, label string, dim int, metric string) []float32 {
	v := make([]float32, dim)
	switch metric {
	case models.DistanceHaversine:
		v[0] = float32(rapid.IntRange(-90, 90).Draw(t, label+"-lat"))
		v[1] = float32(rapid.IntRange(-180, 180).Draw(t, label+"-lon"))
		if rapid.Bool().Draw(t, label+"-frac") {
			v[0] = float32(rapid.Float64Range(-90, 90).Draw(t, label+"-latf"))
			v[1] = float32(rapid.Float64Range(-180, 180).Draw(t, label+"-lonf"))
		}
		return v
	case models.DistanceHamming, models.DistanceJaccard:
		for i := range v {
			v[i] = rapid.SampledFrom([]float32{0, 1, 0, 1, 0.5, 0.75, -1, 0.25}).Draw(t, fmt.Sprintf("%s-%d", label, i))
		}
		return v
	}
	if HugeVectors && metric == models.DistanceEuclidean && rapid.IntRange(0, 11).Draw(t, label+"-huge") == 0 {
		// coordinates so far apart that the squared distance leaves the float32 range (+Inf): still an
		// ordinary distance, larger than every finite one
		for i := range v {
			// (the coordinates themselves stay far from the float32 limit, so that sums of coordinates - the
			// mean a binary quantiser learns, k-means centroids - do not overflow)
			v[i] = rapid.SampledFrom([]float32{0, 1, -1, 1e19, -1e19, 3e19, -3e19, 2e19, 1e25}).Draw(t, fmt.Sprintf("%s-h%d", label, i))
		}
		return v
	}
	mode := rapid.IntRange(0, 4).Draw(t, label+"-grid")
	if mode == 4 {
		// collinear points: alpha pruning turns them into chain-like sparse graphs, where deleting
		// inner nodes orphans the rest
		k := float32(rapid.IntRange(-20, 20).Draw(t, label+"-line"))
		for i := range v {
			v[i] = k / float32(i+1)
		}
	}
	grid := mode > 0
	for i := range v {
		if mode == 4 {
			continue
		}
		if grid {
			v[i] = float32(rapid.IntRange(-3, 3).Draw(t, fmt.Sprintf("%s-%d", label, i))) / 2
		} else {
			v[i] = float32(rapid.Float64Range(-10, 10).Draw(t, fmt.Sprintf("%s-%d", label, i)))
		}
	}
	if metric == models.DistanceCosine {
		var n float64
		for _, x := range v {
			n += float64(x) * float64(x)
		}
		if n == 0 {
			v[0] = 1
			n = 1
		}
		n = math.Sqrt(n)
		for i := range v {
			v[i] = float32(float64(v[i]) / n)
		}
	}
	return v
}

// VectorParams extracts (dim, metric) of a vector property.
func VectorParams(sv models.IndexSchemaValue) (int, string) {
	switch sv.Type {
	case models.IndexTypeVectorFlat:
		return int(sv.VectorFlat.VectorSize), sv.VectorFlat.DistanceMetric
	case models.IndexTypeVectorVamana:
		return int(sv.VectorVamana.VectorSize), sv.VectorVamana.DistanceMetric
	}
	return 0, ""
}
