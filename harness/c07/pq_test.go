package c07

import (
	"errors"
	"fmt"
	"runtime"
	"sort"
	"testing"

	"github.com/google/uuid"
	"github.com/semafind/semadb/models"
	"github.com/semafind/semadb/shard/cache"
	"pgregory.net/rapid"
	"verif/drive"
	"verif/gen"
	"verif/model"
	"verif/oracle"
	"verif/run"
	"verif/vt"
)

// PQFaultCase: storage faults in the batch that makes a product quantiser train. That batch is by far the
// largest in storage operations (every stored vector is rewritten with its code, then the codebook is
// written), and it only exists once an index holds 1000 vectors, so the main job never meets it.
type PQFaultCase struct {
	Vamana       bool    `json:"vamana"`
	Dim          int     `json:"dim"`
	Metric       string  `json:"metric"`
	NumCentroids int     `json:"numCentroids"`
	Bulk         int     `json:"bulk"`  // 990..999 points inserted without faults
	Batch        int     `json:"batch"` // size of the batch that crosses the trigger
	Seed         int     `json:"seed"`
	Tail         []int   `json:"tail"`   // fault positions counted from the last storage operation of the batch (0 = last)
	Random       []int64 `json:"random"` // further fault positions as a fraction (per mille) of the batch's operations
	FailCommit   bool    `json:"failCommit"`
}

func genPQFault(t *rapid.T) PQFaultCase {
	c := PQFaultCase{Vamana: rapid.Bool().Draw(t, "vamana"), Dim: 2 * rapid.IntRange(1, 3).Draw(t, "halfdim"), Metric: rapid.SampledFrom([]string{models.DistanceEuclidean, models.DistanceDot, models.DistanceCosine}).Draw(t, "metric"),
		NumCentroids: rapid.IntRange(2, 6).Draw(t, "centroids"), Bulk: rapid.IntRange(990, 999).Draw(t, "bulk"), Batch: rapid.IntRange(10, 16).Draw(t, "batch"), Seed: rapid.IntRange(1, 1000).Draw(t, "seed"),
		FailCommit: rapid.IntRange(0, 3).Draw(t, "failCommit") == 0}
	for i := 0; i < rapid.IntRange(3, 8).Draw(t, "ntail"); i++ {
		c.Tail = append(c.Tail, rapid.IntRange(0, 12).Draw(t, fmt.Sprintf("tail%d", i)))
	}
	for i := 0; i < rapid.IntRange(2, 6).Draw(t, "nrandom"); i++ {
		c.Random = append(c.Random, int64(rapid.IntRange(1, 999).Draw(t, fmt.Sprintf("rnd%d", i))))
	}
	return c
}

func execPQFault(c PQFaultCase) (res vt.Result) {
	rec := vt.R()
	pc := oracle.PQCase{Vamana: c.Vamana, Dim: c.Dim, Metric: c.Metric, NumCentroids: c.NumCentroids, NumSub: 2, SearchSize: 75, DegreeBound: 32}
	schema, prop := pc.Schema(), pc.Prop()
	r, err := run.New(gen.History{Schema: schema, MaxPointSize: 1 << 20, CacheLimit: -1})
	if err != nil {
		return vt.Result{Err: err}
	}
	defer r.Close()
	if _, err := r.Apply(gen.BulkInsert(c.Seed, c.Bulk, c.Dim, c.Metric, prop)); err != nil {
		return vt.Result{Err: fmt.Errorf("bulk insert: %v", err)}
	}
	batch := gen.Step{Kind: "insert"}
	for i := 0; i < c.Batch; i++ {
		batch.Points = append(batch.Points, model.Point{Id: gen.BulkId(5000 + i), Doc: model.Doc{prop: gen.BulkVector(c.Seed+7, 5000+i, c.Dim, c.Metric)}})
	}
	suite := []models.Query{oracle.VecQuery{Prop: prop, Vector: gen.BulkVector(c.Seed, 3, c.Dim, c.Metric), Limit: 20, SearchSize: 75}.ToQuery(schema)}
	pool := []uuid.UUID{gen.BulkId(0), gen.BulkId(1), gen.BulkId(c.Bulk - 1)}
	for _, p := range batch.Points {
		pool = append(pool, p.Id)
	}
	opts := oracle.ObserveOpts{RawBuckets: true, GraphLists: true}
	before, err := oracle.Observe(r.S, pool, suite, opts)
	if err != nil {
		return vt.Result{Err: fmt.Errorf("observing before the training batch: %v", err)}
	}
	baseGoroutines := runtime.NumGoroutine()
	unchanged := func(what string) error {
		got, err := oracle.Observe(r.S, pool, suite, opts)
		if err != nil {
			return fmt.Errorf("%s: observing the running instance: %v", what, err)
		}
		if d := before.Diff(got); d != "" {
			return fmt.Errorf("%s: the batch failed but the running instance differs from before: %s", what, d)
		}
		cold, err := r.Copy(cache.NewManager(-1))
		if err != nil {
			return err
		}
		gotCold, err := oracle.Observe(cold, pool, suite, opts)
		cold.Close()
		if err != nil {
			return fmt.Errorf("%s: observing a cold copy: %v", what, err)
		}
		if d := before.Diff(gotCold); d != "" {
			return fmt.Errorf("%s: the batch failed but a cold copy of the file differs from before: %s", what, d)
		}
		return nil
	}
	// The number of storage operations of the batch depends on what the shared cache holds. Two attempts
	// whose commit is made to fail: the first runs on the warm cache, and as every failed attempt leaves
	// the cache scrapped, the second one shows the count that all later attempts will have.
	var nops int64
	for probe := 0; probe < 2; probe++ {
		plan := &drive.Plan{FailCommit: true}
		r.S.Proxy.Arm(plan)
		callErr := r.S.Insert(batch.Points)
		r.S.Proxy.Arm(nil)
		drive.Quiesce(baseGoroutines)
		if callErr == nil {
			return vt.Result{Err: fmt.Errorf("the commit of the training batch was made to fail but the call reported success")}
		}
		if err := drive.StrayVerdict(r.S); err != nil {
			return vt.Result{Err: err}
		}
		if err := unchanged("failed commit of the training batch"); err != nil {
			return vt.Result{Err: err}
		}
		nops = plan.Ops()
		rec.Count("pq_faults_fired", 1)
	}
	positions := map[int64]bool{}
	for _, k := range c.Tail {
		if p := nops - int64(k); p >= 1 {
			positions[p] = true
		}
	}
	for _, pm := range c.Random {
		positions[1+pm*(nops-1)/1000] = true
	}
	var order []int64
	for p := range positions {
		order = append(order, p)
	}
	sort.Slice(order, func(i, j int) bool { return order[i] > order[j] })
	// afterSuccess judges the state once the batch has reported success (with or without a swallowed fault)
	afterSuccess := func(what string) error {
		if reason := r.M.Insert(batch.Points); reason != "" {
			return fmt.Errorf("model: %s", reason)
		}
		for _, inst := range []struct {
			name string
			mgr  *cache.Manager
		}{{"the running instance", nil}, {"a cold copy", cache.NewManager(-1)}} {
			s := r.S
			if inst.mgr != nil {
				if s, err = r.Copy(inst.mgr); err != nil {
					return err
				}
				defer s.Close()
			}
			if err := oracle.CheckDocs(s, r.M, pool); err != nil {
				return fmt.Errorf("%s, %s: %v", what, inst.name, err)
			}
			ctx, err := oracle.ContextOf(s, r.M, prop)
			if err != nil {
				return fmt.Errorf("%s, %s: %v", what, inst.name, err)
			}
			if ctx.Oracle.PQ == nil {
				// a swallowed read error while counting the vectors postpones the training to a later batch:
				// when the quantiser trains is the index's business, nothing is demanded here
				rec.Count("pq_training_postponed_by_a_swallowed_fault", 1)
			}
			if err := oracle.CheckVecStore(ctx, prop, c.Vamana); err != nil {
				return fmt.Errorf("%s, %s: %v", what, inst.name, err)
			}
			if err := oracle.CheckPQCodes(ctx, prop, nil); err != nil {
				return fmt.Errorf("%s, %s: %v", what, inst.name, err)
			}
			// the instance keeps working: a search and a further write
			if _, err := s.Search(models.SearchRequest{Query: suite[0]}); err != nil {
				return fmt.Errorf("%s, %s: search fails: %v", what, inst.name, err)
			}
			if inst.mgr != nil {
				extra := []model.Point{{Id: gen.BulkId(7000), Doc: model.Doc{prop: gen.BulkVector(c.Seed, 7000, c.Dim, c.Metric)}}}
				var ierr error
				if werr := drive.Watch("an insert after the training batch", func() {
					defer func() {
						if p := recover(); p != nil {
							ierr = fmt.Errorf("panic: %v", p)
						}
					}()
					ierr = s.Insert(extra)
				}); werr != nil {
					return werr
				}
				if ierr != nil {
					return fmt.Errorf("%s, %s: a further insert fails: %v", what, inst.name, ierr)
				}
			}
		}
		return nil
	}
	attempts := 0
	plans := []*drive.Plan{}
	for _, p := range order {
		plans = append(plans, &drive.Plan{FailAt: p})
	}
	for _, plan := range plans {
		what := fmt.Sprintf("fault at storage operation %d of %d of the training batch", plan.FailAt, nops)
		if plan.FailCommit {
			what = "failed commit of the training batch"
		}
		r.S.Proxy.Arm(plan)
		var callErr error
		if werr := drive.Watch("the training batch", func() { callErr = r.S.Insert(batch.Points) }); werr != nil {
			r.Dead = true
			return vt.Result{Err: fmt.Errorf("%s: %v", what, werr)}
		}
		r.S.Proxy.Arm(nil)
		drive.Quiesce(baseGoroutines)
		if err := drive.StrayVerdict(r.S); err != nil {
			return vt.Result{Err: fmt.Errorf("%s: %v", what, err)}
		}
		attempts++
		if !plan.Fired() {
			// k-means is randomised, the batch can be a little shorter than on the scratch copy
			if callErr != nil {
				return vt.Result{Err: fmt.Errorf("%s did not fire, yet the batch failed: %v", what, callErr)}
			}
			if err := afterSuccess(what + " (not reached)"); err != nil {
				return vt.Result{Err: err}
			}
			rec.Count("pq_training_batches_completed", 1)
			return vt.Result{NonTrivial: attempts > 1}
		}
		if callErr == nil {
			// the storage error was swallowed: the call claims success, so everything must be complete
			rec.Count("pq_faults_not_failing_the_call", 1)
			if err := afterSuccess(what + " (" + plan.FailedOp + ") was swallowed and the batch reported success"); err != nil {
				return vt.Result{Err: err}
			}
			return vt.Result{NonTrivial: true}
		}
		if !errors.Is(callErr, drive.ErrInjected) {
			rec.Count("pq_failed_with_other_error_after_fault", 1)
		}
		rec.Count("pq_faults_fired", 1)
		if err := unchanged(what + " (" + plan.FailedOp + ")"); err != nil {
			return vt.Result{Err: err}
		}
	}
	// finally without faults
	if err := r.S.Insert(batch.Points); err != nil {
		return vt.Result{Err: fmt.Errorf("the training batch fails after %d failed attempts: %v", attempts, err)}
	}
	if err := afterSuccess("the training batch after the failed attempts"); err != nil {
		return vt.Result{Err: err}
	}
	rec.Count("pq_training_batches_completed", 1)
	rec.Max("pq_training_batch_operations", nops)
	return vt.Result{NonTrivial: attempts >= 2}
}

func TestPropPQFault(t *testing.T)   { vt.Check(t, "pqfault", genPQFault, execPQFault) }
func TestReplayPQFault(t *testing.T) { vt.Replay(t, "pqfault", execPQFault) }
