package c07

import (
	"bufio"
	"encoding/json"
	"fmt"
	"os"
	"os/exec"
	"os/signal"
	"path/filepath"
	"strings"
	"syscall"
	"testing"

	"github.com/google/uuid"
	"github.com/semafind/semadb/models"
	"github.com/semafind/semadb/shard/cache"
	"pgregory.net/rapid"
	"verif/drive"
	"verif/gen"
	"verif/model"
	"verif/oracle"
	"verif/vt"
)

// CommitFailCase: the storage engine itself fails to commit a batch whose every operation succeeded (the
// database file cannot grow: disk full, quota, file size limit). This happens below the storage interface
// the fault plans of the other jobs work on, so it is produced for real: a child process lowers its file
// size limit to the current size of the shard file and then issues a batch that needs the file to grow.
// The batch must report the failure and leave the running instance and the file as they were.
type CommitFailCase struct {
	Initial int    `json:"initial"` // points stored before the limit is lowered
	Batch   int    `json:"batch"`   // points of the batch that cannot be committed
	Pad     int    `json:"pad"`     // payload bytes per point
	Kind    string `json:"kind"`    // insert | update | delete
	Cache   int64  `json:"cacheLimit"`
	Vamana  bool   `json:"vamana"`
}

func genCommitFail(t *rapid.T) CommitFailCase {
	return CommitFailCase{Initial: rapid.IntRange(1, 60).Draw(t, "initial"), Batch: rapid.SampledFrom([]int{800, 1500, 3000}).Draw(t, "batch"), Pad: rapid.SampledFrom([]int{200, 600}).Draw(t, "pad"),
		Kind: rapid.SampledFrom([]string{"insert", "insert", "update"}).Draw(t, "kind"), Cache: rapid.SampledFrom([]int64{-1, 0}).Draw(t, "cache"), Vamana: rapid.Bool().Draw(t, "vamana")}
}

func commitFailId(i int) uuid.UUID {
	var u uuid.UUID
	u[0], u[1], u[2], u[6], u[8] = byte(i*53), byte(i>>8), byte(i), 0x40, 0x80
	return u
}

// the child: prints one line "RESULT <text>" ("RESULT ok" when everything held)
func TestChildCommitFailure(t *testing.T) {
	spec := os.Getenv("VERIF_COMMITFAIL_CASE")
	if spec == "" {
		t.Skip("child of TestPropCommitFailure")
	}
	var c CommitFailCase
	if err := json.Unmarshal([]byte(spec), &c); err != nil {
		fmt.Println("RESULT harness: " + err.Error())
		return
	}
	fmt.Println("RESULT " + runCommitFail(c, os.Getenv("VERIF_COMMITFAIL_DIR")))
}

func runCommitFail(c CommitFailCase, dir string) string {
	schema := models.IndexSchema{"n": {Type: models.IndexTypeInteger}}
	prop := gen.PFlat
	if c.Vamana {
		prop = gen.PVamana
		schema[prop] = models.IndexSchemaValue{Type: models.IndexTypeVectorVamana, VectorVamana: &models.IndexVectorVamanaParameters{VectorSize: 2, DistanceMetric: models.DistanceEuclidean, SearchSize: 75, DegreeBound: 64, Alpha: 1.2}}
	} else {
		schema[prop] = models.IndexSchemaValue{Type: models.IndexTypeVectorFlat, VectorFlat: &models.IndexVectorFlatParameters{VectorSize: 2, DistanceMetric: models.DistanceEuclidean}}
	}
	path := filepath.Join(dir, "sharddb.bbolt")
	s, err := drive.Open(path, schema, 1<<20, drive.Manager(c.Cache))
	if err != nil {
		return "harness: " + err.Error()
	}
	m := model.NewCollection(schema, 1<<20)
	pad := strings.Repeat("x", c.Pad)
	mk := func(i int, v float32) model.Point {
		return model.Point{Id: commitFailId(i), Doc: model.Doc{"n": int64(i), prop: []float32{v, float32(i % 7)}, "pad": pad}}
	}
	var first []model.Point
	for i := 0; i < c.Initial; i++ {
		first = append(first, mk(i, float32(i)))
	}
	if err := s.Insert(first); err != nil {
		return "harness: initial insert: " + err.Error()
	}
	m.Insert(first)
	st, err := os.Stat(path)
	if err != nil {
		return "harness: " + err.Error()
	}
	// the batch: new points, or a rewrite of the stored ones with a much larger payload
	var batch []model.Point
	switch c.Kind {
	case "insert":
		for i := 0; i < c.Batch; i++ {
			batch = append(batch, mk(1000+i, float32(i%50)))
		}
	default:
		big := strings.Repeat("y", 200*1024/max(1, c.Initial))
		for i := 0; i < c.Initial; i++ {
			batch = append(batch, model.Point{Id: commitFailId(i), Doc: model.Doc{"n": int64(i + 500), prop: []float32{float32(i + 3), 1}, "pad": big}})
		}
	}
	signal.Ignore(syscall.SIGXFSZ)
	var old syscall.Rlimit
	if err := syscall.Getrlimit(syscall.RLIMIT_FSIZE, &old); err != nil {
		return "harness: getrlimit: " + err.Error()
	}
	if err := syscall.Setrlimit(syscall.RLIMIT_FSIZE, &syscall.Rlimit{Cur: uint64(st.Size()), Max: old.Max}); err != nil {
		return "harness: setrlimit: " + err.Error()
	}
	var callErr error
	if c.Kind == "insert" {
		callErr = s.Insert(batch)
	} else {
		_, callErr = s.Update(batch)
	}
	syscall.Setrlimit(syscall.RLIMIT_FSIZE, &old)
	if callErr == nil {
		// the file may not have had to grow after all (free pages): then the batch simply succeeded
		if st2, _ := os.Stat(path); st2 != nil && st2.Size() > st.Size() {
			return fmt.Sprintf("the database file could not grow beyond %d bytes, yet the %s batch reported success and the file now has %d bytes", st.Size(), c.Kind, st2.Size())
		}
		if c.Kind == "insert" {
			m.Insert(batch)
		} else {
			m.Update(batch)
		}
	}
	pool := []uuid.UUID{}
	for i := 0; i < c.Initial; i++ {
		pool = append(pool, commitFailId(i))
	}
	for i := 0; i < min(c.Batch, 40); i++ {
		pool = append(pool, commitFailId(1000+i))
	}
	suite := oracle.Suite(schema)
	outcome := "failed (" + fmt.Sprint(callErr) + ")"
	if callErr == nil {
		outcome = "succeeded"
	}
	if err := oracle.CheckDocs(s, m, pool); err != nil {
		return fmt.Sprintf("the %s batch %s; running instance: %v", c.Kind, outcome, err)
	}
	if err := oracle.CheckSuiteAgainstModel(s, m, suite); err != nil {
		return fmt.Sprintf("the %s batch %s; running instance: %v", c.Kind, outcome, err)
	}
	// the instance keeps working
	extra := []model.Point{mk(9000, 2)}
	if err := s.Insert(extra); err != nil {
		return fmt.Sprintf("the %s batch %s; a later small insert fails: %v", c.Kind, outcome, err)
	}
	m.Insert(extra)
	pool = append(pool, extra[0].Id)
	if err := s.Close(); err != nil {
		return "close: " + err.Error()
	}
	cold, err := drive.Open(path, schema, 1<<20, cache.NewManager(-1))
	if err != nil {
		return "reopen: " + err.Error()
	}
	defer cold.Close()
	if err := oracle.CheckDocs(cold, m, pool); err != nil {
		return fmt.Sprintf("the %s batch %s; after reopening the file: %v", c.Kind, outcome, err)
	}
	if err := oracle.CheckSuiteAgainstModel(cold, m, suite); err != nil {
		return fmt.Sprintf("the %s batch %s; after reopening the file: %v", c.Kind, outcome, err)
	}
	if callErr != nil {
		return "ok failed"
	}
	return "ok succeeded"
}

func execCommitFail(c CommitFailCase) vt.Result {
	dir, cleanup := drive.CaseDir()
	defer cleanup()
	spec, _ := json.Marshal(c)
	cmd := exec.Command(os.Args[0], "-test.run=^TestChildCommitFailure$", "-test.count=1")
	cmd.Env = append(os.Environ(), "VERIF_COMMITFAIL_CASE="+string(spec), "VERIF_COMMITFAIL_DIR="+dir, "VERIF_STATS=", "VERIF_JOURNAL=")
	out, err := cmd.CombinedOutput()
	result := ""
	sc := bufio.NewScanner(strings.NewReader(string(out)))
	sc.Buffer(make([]byte, 1<<20), 1<<20)
	for sc.Scan() {
		if strings.HasPrefix(sc.Text(), "RESULT ") {
			result = strings.TrimPrefix(sc.Text(), "RESULT ")
		}
	}
	if result == "" {
		tail := string(out)
		if len(tail) > 1500 {
			tail = tail[len(tail)-1500:]
		}
		return vt.Result{Err: fmt.Errorf("the child process died without a verdict (%v): %s", err, tail)}
	}
	switch result {
	case "ok failed":
		vt.R().Count("commit_failures_reported_and_harmless", 1)
		return vt.Result{NonTrivial: true}
	case "ok succeeded":
		vt.R().Count("batches_that_fitted_without_growing_the_file", 1)
		return vt.Result{}
	}
	if strings.HasPrefix(result, "harness: ") {
		vt.R().Note("commitfail child: " + result)
		return vt.Result{}
	}
	return vt.Result{Err: fmt.Errorf("%s", result)}
}

func TestPropCommitFailure(t *testing.T)   { vt.Check(t, "commitfail", genCommitFail, execCommitFail) }
func TestReplayCommitFailure(t *testing.T) { vt.Replay(t, "commitfail", execCommitFail) }
