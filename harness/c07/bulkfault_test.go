package c07

import (
	"errors"
	"fmt"
	"runtime"
	"sort"
	"testing"

	"github.com/google/uuid"
	"github.com/semafind/semadb/models"
	"github.com/semafind/semadb/shard/cache"
	"pgregory.net/rapid"
	"verif/drive"
	"verif/gen"
	"verif/model"
	"verif/oracle"
	"verif/run"
	"verif/vt"
)

// BulkFaultCase: one insert batch of the largest sizes the API hands to a shard (up to 10000 points),
// which fails late: a stored or repeated id among its last points, a storage fault among its last
// operations or anywhere, a failed commit. Thousands of points have been handled by then; none of them may
// stay behind. The main job's batches have at most a few dozen points.
type BulkFaultCase struct {
	Indexed bool    `json:"indexed"` // an integer index on "n"
	Stored  int     `json:"stored"`  // points stored beforehand (ids outside the batch, except the clashing one)
	N       int     `json:"n"`       // size of the batch
	Reject  string  `json:"reject"`  // "" | clash (a point of the batch has a stored id) | dup (an id is repeated inside the batch)
	At      int     `json:"at"`      // position of the offending point
	Tail    []int   `json:"tail"`    // fault positions counted from the last storage operation of the batch (0 = last)
	Random  []int64 `json:"random"`  // further fault positions as a fraction (per mille) of the batch's operations
	Cache   int64   `json:"cacheLimit"`
}

func genBulkFault(t *rapid.T) BulkFaultCase {
	c := BulkFaultCase{Indexed: rapid.Bool().Draw(t, "indexed"), Stored: rapid.IntRange(0, 6).Draw(t, "stored"),
		N:      rapid.SampledFrom([]int{4095, 4097, 8191, 8192, 8193, 8200, 9000, 9999, 10000}).Draw(t, "n"),
		Reject: rapid.SampledFrom([]string{"", "", "clash", "dup"}).Draw(t, "reject"), Cache: rapid.SampledFrom([]int64{-1, 0}).Draw(t, "cache")}
	if c.Reject != "" {
		c.At = rapid.SampledFrom([]int{c.N - 1, c.N - 2, c.N / 2, 4096, 8192, 8193, 1}).Draw(t, "at")
		if c.At >= c.N {
			c.At = c.N - 1
		}
	}
	for i := 0; i < rapid.IntRange(1, 3).Draw(t, "ntail"); i++ {
		c.Tail = append(c.Tail, rapid.IntRange(0, 6).Draw(t, fmt.Sprintf("tail%d", i)))
	}
	for i := 0; i < rapid.IntRange(1, 3).Draw(t, "nrandom"); i++ {
		c.Random = append(c.Random, int64(rapid.IntRange(400, 999).Draw(t, fmt.Sprintf("rnd%d", i))))
	}
	return c
}

func execBulkFault(c BulkFaultCase) (res vt.Result) {
	rec := vt.R()
	schema := models.IndexSchema{}
	if c.Indexed {
		schema["n"] = models.IndexSchemaValue{Type: models.IndexTypeInteger}
	}
	r, err := run.New(gen.History{Schema: schema, MaxPointSize: 1 << 20, CacheLimit: c.Cache})
	if err != nil {
		return vt.Result{Err: err}
	}
	defer r.Close()
	doc := func(i int) model.Doc { return model.Doc{"n": int64(i % 97), "tag": fmt.Sprintf("p%d", i)} }
	var pool []uuid.UUID
	if c.Stored > 0 {
		st := gen.Step{Kind: "insert"}
		for i := 0; i < c.Stored; i++ {
			st.Points = append(st.Points, model.Point{Id: gen.BulkId(20000 + i), Doc: doc(20000 + i)})
			pool = append(pool, gen.BulkId(20000+i))
		}
		if _, err := r.Apply(st); err != nil {
			return vt.Result{Err: fmt.Errorf("storing the earlier points: %v", err)}
		}
	}
	batch := gen.Step{Kind: "insert"}
	for i := 0; i < c.N; i++ {
		batch.Points = append(batch.Points, model.Point{Id: gen.BulkId(i), Doc: doc(i)})
	}
	switch c.Reject {
	case "clash":
		// the offending id is stored beforehand under another document
		if _, err := r.Apply(gen.Step{Kind: "insert", Points: []model.Point{{Id: gen.BulkId(c.At), Doc: model.Doc{"n": int64(-5), "tag": "stored first"}}}}); err != nil {
			return vt.Result{Err: fmt.Errorf("storing the clashing point: %v", err)}
		}
	case "dup":
		if c.At == 0 {
			return vt.Result{}
		}
		batch.Points[c.At].Id = batch.Points[c.At/2].Id
	}
	inPool := map[int]bool{}
	for _, i := range []int{0, 1, 4095, 4096, 8191, 8192, 8193, c.At, c.At / 2, c.N - 2, c.N - 1} {
		if i >= 0 && i < c.N && !inPool[i] {
			inPool[i] = true
			pool = append(pool, gen.BulkId(i))
		}
	}
	var suite []models.Query
	if c.Indexed {
		suite = append(suite, models.Query{Property: "n", Integer: &models.SearchIntegerOptions{Value: 3, Operator: models.OperatorEquals}},
			models.Query{Property: "n", Integer: &models.SearchIntegerOptions{Value: -5, Operator: models.OperatorEquals}})
	}
	opts := oracle.ObserveOpts{RawBuckets: true}
	before, err := oracle.Observe(r.S, pool, suite, opts)
	if err != nil {
		return vt.Result{Err: fmt.Errorf("observing before the batch: %v", err)}
	}
	baseGoroutines := runtime.NumGoroutine()
	unchanged := func(what string) error {
		got, err := oracle.Observe(r.S, pool, suite, opts)
		if err != nil {
			return fmt.Errorf("%s: observing the running instance: %v", what, err)
		}
		if d := before.Diff(got); d != "" {
			return fmt.Errorf("%s: the batch of %d points failed but the running instance differs from before: %s", what, c.N, d)
		}
		cold, err := r.Copy(cache.NewManager(-1))
		if err != nil {
			return err
		}
		gotCold, err := oracle.Observe(cold, pool, suite, opts)
		cold.Close()
		if err != nil {
			return fmt.Errorf("%s: observing a cold copy: %v", what, err)
		}
		if d := before.Diff(gotCold); d != "" {
			return fmt.Errorf("%s: the batch of %d points failed but a cold copy of the file differs from before: %s", what, c.N, d)
		}
		return nil
	}
	insert := func(plan *drive.Plan) (callErr error, err error) {
		r.S.Proxy.Arm(plan)
		if werr := drive.Watch("the bulk insert", func() {
			defer func() {
				if p := recover(); p != nil {
					callErr = fmt.Errorf("panic: %v", p)
				}
			}()
			callErr = r.S.Insert(batch.Points)
		}); werr != nil {
			return nil, werr
		}
		r.S.Proxy.Arm(nil)
		drive.Quiesce(baseGoroutines + 1)
		if err := drive.StrayVerdict(r.S); err != nil {
			return callErr, err
		}
		return callErr, nil
	}
	if c.Reject != "" {
		// rejected by its own content: as a whole
		callErr, err := insert(nil)
		if err != nil {
			return vt.Result{Err: err}
		}
		if callErr == nil {
			return vt.Result{Err: fmt.Errorf("a batch of %d points whose point %d has a %s id was accepted", c.N, c.At, map[string]string{"clash": "stored", "dup": "repeated"}[c.Reject])}
		}
		if err := unchanged(fmt.Sprintf("rejected batch (%s at point %d)", c.Reject, c.At)); err != nil {
			return vt.Result{Err: err}
		}
		rec.Count("bulk_batches_rejected_late", 1)
		rec.NonTrivial(fmt.Sprintf("bulk-%s-%d-%d-%v", c.Reject, c.N, c.At, c.Indexed))
		return vt.Result{}
	}
	// a failed commit measures the number of storage operations
	plan := &drive.Plan{FailCommit: true}
	callErr, err := insert(plan)
	if err != nil {
		return vt.Result{Err: err}
	}
	if callErr == nil {
		return vt.Result{Err: fmt.Errorf("the commit of a batch of %d points was made to fail but the call reported success", c.N)}
	}
	if err := unchanged("failed commit"); err != nil {
		return vt.Result{Err: err}
	}
	nops := plan.Ops()
	rec.Max("bulk_batch_storage_operations", nops)
	positions := map[int64]bool{}
	for _, k := range c.Tail {
		if p := nops - int64(k); p >= 1 {
			positions[p] = true
		}
	}
	for _, pm := range c.Random {
		positions[1+pm*(nops-1)/1000] = true
	}
	var order []int64
	for p := range positions {
		order = append(order, p)
	}
	sort.Slice(order, func(i, j int) bool { return order[i] > order[j] })
	fired, done := 0, false
	for _, p := range order {
		plan := &drive.Plan{FailAt: p}
		what := fmt.Sprintf("fault at storage operation %d of %d", p, nops)
		callErr, err := insert(plan)
		if err != nil {
			return vt.Result{Err: fmt.Errorf("%s: %v", what, err)}
		}
		if !plan.Fired() {
			if callErr != nil {
				return vt.Result{Err: fmt.Errorf("%s (not reached): the batch failed: %v", what, callErr)}
			}
			done = true
			break
		}
		fired++
		rec.Count("bulk_faults_fired", 1)
		if callErr == nil {
			// the injected error was swallowed: the call claims success, so the batch must be complete
			rec.Count("bulk_faults_swallowed", 1)
			done = true
			break
		}
		if !errors.Is(callErr, drive.ErrInjected) {
			rec.Count("failed_with_other_error_after_fault", 1)
		}
		if err := unchanged(what + " (" + plan.FailedOp + ")"); err != nil {
			return vt.Result{Err: err}
		}
	}
	if !done {
		if callErr, err := insert(nil); err != nil || callErr != nil {
			return vt.Result{Err: fmt.Errorf("the batch without fault: %v %v", callErr, err)}
		}
	}
	if reason := r.M.Insert(batch.Points); reason != "" {
		return vt.Result{Err: fmt.Errorf("model: %s", reason)}
	}
	for _, inst := range []string{"the running instance", "a cold copy"} {
		s := r.S
		if inst == "a cold copy" {
			if s, err = r.Copy(cache.NewManager(-1)); err != nil {
				return vt.Result{Err: err}
			}
			defer s.Close()
		}
		if err := oracle.CheckDocs(s, r.M, pool); err != nil {
			return vt.Result{Err: fmt.Errorf("after the batch of %d points succeeded, %s: %v", c.N, inst, err)}
		}
		if n, err := s.PointCount(); err != nil || n != uint64(len(r.M.Docs)) {
			return vt.Result{Err: fmt.Errorf("after the batch of %d points succeeded, %s: point count %d (%v), model %d", c.N, inst, n, err, len(r.M.Docs))}
		}
	}
	if fired > 0 {
		rec.NonTrivial(fmt.Sprintf("bulk-fault-%d-%v-%v", c.N, order, c.Indexed))
	}
	return vt.Result{}
}

func TestPropBulkFault(t *testing.T)   { vt.Check(t, "bulkfault", genBulkFault, execBulkFault) }
func TestReplayBulkFault(t *testing.T) { vt.Replay(t, "bulkfault", execBulkFault) }
