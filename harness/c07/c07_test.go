package c07

import (
	"errors"
	"fmt"
	"path/filepath"
	"runtime"
	"sort"
	"testing"

	"github.com/google/uuid"
	"github.com/semafind/semadb/models"
	"github.com/semafind/semadb/shard/cache"
	"pgregory.net/rapid"
	"verif/drive"
	"verif/gen"
	"verif/model"
	"verif/oracle"
	"verif/run"
	"verif/vt"
)

func TestMain(m *testing.M) {
	vt.OnExit(drive.Cleanup)
	vt.Main(m, "C07")
}

// Fault is what happens to one write batch.
type Fault struct {
	Kind       string `json:"kind"`       // none | failop | failcommit | enumerate
	At         int64  `json:"at"`         // failop: first failable storage operation with index >= At fails
	SnapshotAt int64  `json:"snapshotAt"` // copy the file when the operation counter reaches this value (crash point), 0 = none
	WrongType  int    `json:"wrongType"`  // >0: corrupt the type of an indexed field of point (WrongType-1) — a validation rejection
}

type Case struct {
	H      gen.History `json:"history"`
	Faults []Fault     `json:"faults"`
}

func genCase(t *rapid.T) Case {
	so := gen.SchemaOpts{Filters: true, MinProps: 1, Flat: rapid.Bool().Draw(t, "flat"), Vamana: rapid.Bool().Draw(t, "vamana"), Text: rapid.Bool().Draw(t, "text"), MaxDim: 4, Quantizer: true}
	ho := gen.HistoryOpts{MaxSteps: 8, MaxBatch: 8, PoolSize: rapid.SampledFrom([]int{8, 20}).Draw(t, "pool"),
		AllowRejected: true, AllowOversize: true, Reopen: true, Evict: true, ExtraFields: true}
	// the same id more than once in one update batch (merged in order; the indices must see the net change)
	ho.AllowDupUpdate = rapid.IntRange(0, 3).Draw(t, "dupUpdate") == 0
	if vt.Thorough() {
		ho.MaxSteps = 12
	}
	h := gen.GenHistory(t, so, ho)
	if h.CacheLimit == 0 && rapid.Bool().Draw(t, "preferWarm") {
		h.CacheLimit = -1
	}
	c := Case{H: h}
	for i, st := range h.Steps {
		f := Fault{Kind: "none"}
		if st.Kind == "insert" || st.Kind == "update" || st.Kind == "delete" {
			switch rapid.IntRange(0, 9).Draw(t, fmt.Sprintf("fk%d", i)) {
			case 0, 1, 2, 3:
				f.Kind = "failop"
				if rapid.Bool().Draw(t, fmt.Sprintf("fsmall%d", i)) {
					f.At = int64(rapid.IntRange(1, 12).Draw(t, fmt.Sprintf("fat%d", i)))
				} else {
					f.At = int64(rapid.IntRange(1, 150).Draw(t, fmt.Sprintf("fatL%d", i)))
				}
			case 4:
				f.Kind = "failcommit"
			case 5, 6:
				f.Kind = "enumerate"
			}
			if rapid.IntRange(0, 2).Draw(t, fmt.Sprintf("snap%d", i)) == 0 {
				f.SnapshotAt = int64(rapid.IntRange(1, 60).Draw(t, fmt.Sprintf("snapAt%d", i)))
			}
			if st.Kind != "delete" && len(st.Points) > 0 && st.Note == "" && rapid.IntRange(0, 7).Draw(t, fmt.Sprintf("wt%d", i)) == 0 {
				f.WrongType = 1 + rapid.IntRange(0, len(st.Points)-1).Draw(t, fmt.Sprintf("wtIdx%d", i))
			}
		}
		c.Faults = append(c.Faults, f)
	}
	c.H.Rename = gen.MaybeRename(t, c.H.Schema)
	return c
}

// corrupt gives point idx a wrongly typed value for some indexed property and
// reports whether the batch must now be rejected.
func corrupt(st gen.Step, idx int, schema models.IndexSchema, m *model.Collection) (gen.Step, bool) {
	props := gen.SortedProps(schema)
	if len(props) == 0 {
		return st, false
	}
	out := gen.Step{Kind: st.Kind, Ids: st.Ids, Note: st.Note}
	for _, p := range st.Points {
		out.Points = append(out.Points, model.Point{Id: p.Id, Doc: model.CloneDoc(p.Doc)})
	}
	prop := props[idx%len(props)]
	// only top-level properties (a non-map parent of a dotted path is not deliverable through the API)
	for i := 0; i < len(props) && containsDot(prop); i++ {
		prop = props[(idx+i)%len(props)]
	}
	if containsDot(prop) {
		return st, false
	}
	var bad any = "wrong-type"
	switch schema[prop].Type {
	case models.IndexTypeString, models.IndexTypeText, models.IndexTypeStringArray:
		bad = int64(7)
	}
	out.Points[idx].Doc[prop] = bad
	// an update of an id that is not stored is skipped before any index sees it
	if st.Kind == "update" {
		id := out.Points[idx].Id
		if _, ok := m.Docs[id]; !ok {
			return out, false
		}
		// a batch may name the id again: the indices see the net change, so the wrongly typed value
		// only counts if no later occurrence replaces or removes it
		for _, later := range out.Points[idx+1:] {
			if later.Id == id {
				if _, touches := later.Doc[prop]; touches {
					return out, false
				}
			}
		}
	}
	return out, true
}

func containsDot(s string) bool {
	for i := 0; i < len(s); i++ {
		if s[i] == '.' {
			return true
		}
	}
	return false
}

func poolOf(h gen.History) []uuid.UUID {
	set := map[uuid.UUID]bool{}
	for _, st := range h.Steps {
		for _, p := range st.Points {
			set[p.Id] = true
		}
		for _, id := range st.Ids {
			set[id] = true
		}
	}
	var pool []uuid.UUID
	for id := range set {
		pool = append(pool, id)
	}
	sort.Slice(pool, func(i, j int) bool { return pool[i].String() < pool[j].String() })
	return pool
}

// errDeadlock wraps the verdict of drive.Watch: the call never returned.
type errDeadlock struct{ error }

func applyToShard(s *drive.Shard, st gen.Step) (err error) {
	if werr := drive.Watch(fmt.Sprintf("the %s batch", st.Kind), func() { err = applyToShardRaw(s, st) }); werr != nil {
		return errDeadlock{werr}
	}
	return err
}

func applyToShardRaw(s *drive.Shard, st gen.Step) error {
	switch st.Kind {
	case "insert":
		return s.Insert(st.Points)
	case "update":
		_, err := s.Update(st.Points)
		return err
	case "delete":
		_, err := s.Delete(st.Ids)
		return err
	}
	return fmt.Errorf("not a write step")
}

func applyToModel(m *model.Collection, st gen.Step) (reason string) {
	switch st.Kind {
	case "insert":
		return m.Insert(st.Points)
	case "update":
		_, r := m.Update(st.Points)
		return r
	case "delete":
		m.Delete(st.Ids)
	}
	return ""
}

func execCase(c Case) (res vt.Result) {
	rec := vt.R()
	r, err := run.New(c.H)
	if err != nil {
		return vt.Result{Err: err}
	}
	// after a deadlock inside the shard its database cannot be closed any more (the stuck write
	// transaction never ends): the instance is left behind
	deadlocked := false
	defer func() {
		if !deadlocked {
			r.Close()
		}
	}()
	pool := poolOf(c.H)
	suite := oracle.Suite(c.H.Schema)
	full := oracle.ObserveOpts{RawBuckets: true, GraphLists: true}
	nIndexes := len(c.H.Schema)
	nontrivial := false
	baseGoroutines := runtime.NumGoroutine()
	fail := func(i int, f string, a ...any) vt.Result {
		res.Err = fmt.Errorf("step %d (%s, %d points, fault %+v): %s", i, c.H.Steps[i].Kind, len(c.H.Steps[i].Points)+len(c.H.Steps[i].Ids), c.Faults[i], fmt.Sprintf(f, a...))
		return res
	}
	// observeBoth: the running instance and a cold copy of its file must agree with want
	check := func(i int, what string, want oracle.Observation) error {
		got, err := oracle.Observe(r.S, pool, suite, full)
		if err != nil {
			return fmt.Errorf("%s: observing the running instance: %v", what, err)
		}
		if d := want.Diff(got); d != "" {
			return fmt.Errorf("%s: the running instance differs from the expected state: %s", what, d)
		}
		cold, err := r.Copy(cache.NewManager(-1))
		if err != nil {
			return fmt.Errorf("%s: cold copy: %v", what, err)
		}
		defer cold.Close()
		gotCold, err := oracle.Observe(cold, pool, suite, full)
		if err != nil {
			return fmt.Errorf("%s: observing a cold copy of the file: %v", what, err)
		}
		if d := want.Diff(gotCold); d != "" {
			return fmt.Errorf("%s: a cold reopen of the file differs from the expected state: %s", what, d)
		}
		return nil
	}
	var twin *drive.Shard
	closeTwinOuter := func() {
		if twin != nil {
			twin.Close()
			twin = nil
		}
	}
	defer closeTwinOuter()
	for i, st := range c.H.Steps {
		f := c.Faults[i]
		if st.Kind == "reopen" || st.Kind == "evict" {
			if _, err := r.Apply(st); err != nil {
				return fail(i, "%v", err)
			}
			continue
		}
		wrongType := false
		if f.WrongType > 0 && f.WrongType <= len(st.Points) {
			st, wrongType = corrupt(st, f.WrongType-1, c.H.Schema, r.M)
		}
		before, err := oracle.Observe(r.S, pool, suite, full)
		if err != nil {
			return fail(i, "observing before the batch: %v", err)
		}
		modelAfter := r.M.Clone()
		reason := applyToModel(modelAfter, st)
		if wrongType && reason == "" {
			reason = "wrongly typed indexed field"
		}
		// a twin of the state before the batch, for shards with a quantiser that is learned from the data:
		// a call that reports success although a storage operation it issued failed must have done what
		// the same call does without the failure, training included
		closeTwinOuter()
		if learned := learnedQuantisers(r.S); len(learned) > 0 && (f.Kind == "failop" || f.Kind == "enumerate") {
			if twin, err = r.Copy(cache.NewManager(-1)); err != nil {
				return fail(i, "twin copy: %v", err)
			}
		}
		closeTwin := closeTwinOuter
		swallowedComplete := func() error {
			if twin == nil {
				return nil
			}
			defer closeTwin()
			if err := applyToShard(twin, st); err != nil {
				return fmt.Errorf("the batch on a copy of the file without the fault: %v", err)
			}
			for _, prop := range learnedQuantisers(r.S) {
				a, _, err := r.S.VecInfo(prop)
				if err != nil {
					return err
				}
				b, _, err := twin.VecInfo(prop)
				if err != nil {
					return err
				}
				rec.Count("swallowed_faults_compared_with_a_fault_free_twin", 1)
				if (a.Threshold != nil) != (b.Threshold != nil) || (a.Centroids != nil) != (b.Centroids != nil) {
					return fmt.Errorf("the call reported success although a storage operation it issued failed, and it is not complete: the quantiser of %s is trained = %v after it, trained = %v after the same batch without the failure", prop, a.Threshold != nil || a.Centroids != nil, b.Threshold != nil || b.Centroids != nil)
				}
			}
			return nil
		}
		// ---- attempts with injected faults: each must fail and leave everything as before
		attempt := func(plan *drive.Plan, what string) (fired bool, err error) {
			if f.SnapshotAt > 0 && plan.SnapshotAt == 0 {
				plan.SnapshotAt = f.SnapshotAt
				plan.SnapshotPath = filepath.Join(r.Dir, fmt.Sprintf("crash-%d.bbolt", i))
			}
			r.S.Proxy.Arm(plan)
			callErr := applyToShard(r.S, st)
			r.S.Proxy.Arm(nil)
			if dl, ok := callErr.(errDeadlock); ok {
				deadlocked = true
				return plan.Fired(), fmt.Errorf("%s: %v", what, dl.error)
			}
			drive.Quiesce(baseGoroutines)
			if err := drive.StrayVerdict(r.S); err != nil {
				return plan.Fired(), err
			}
			if plan.SnapErr != nil {
				return plan.Fired(), fmt.Errorf("snapshot: %v", plan.SnapErr)
			}
			if !plan.Fired() {
				// the fault index lies beyond the batch: the call behaves as without fault
				if (callErr != nil) != (reason != "") {
					return false, fmt.Errorf("%s: call returned %v, model says %q", what, callErr, reason)
				}
				return false, nil
			}
			if callErr == nil {
				// the injected error was swallowed: then the call claims success and must be complete — judged below by the caller
				if err := swallowedComplete(); err != nil {
					return true, fmt.Errorf("%s (%s): %v", what, plan.FailedOp, err)
				}
				return true, errSwallowed
			}
			if !errors.Is(callErr, drive.ErrInjected) && reason == "" {
				// the batch failed for another reason although the model accepts it
				rec.Count("failed_with_other_error_after_fault", 1)
			}
			if err := check(i, what+" ("+plan.FailedOp+")", before); err != nil {
				return true, err
			}
			return true, nil
		}
		done := false // the batch was (successfully or finally) executed by a non-firing attempt
		switch f.Kind {
		case "failop", "failcommit":
			plan := &drive.Plan{FailAt: f.At, FailCommit: f.Kind == "failcommit"}
			fired, err := attempt(plan, "after the injected "+f.Kind)
			if err == errSwallowed {
				// the storage error did not fail the call: then the call claims success and must be complete (judged below)
				rec.Count("faults_not_failing_the_call", 1)
				if reason != "" {
					return fail(i, "the call reported success although the model rejects the batch (%s)", reason)
				}
				done, err = true, nil
			}
			if err != nil {
				return fail(i, "%v", err)
			}
			if fired && !done {
				rec.Count("fault_fired_"+f.Kind, 1)
				if plan.Ops() > 3 && len(st.Points)+len(st.Ids) >= 2 && nIndexes >= 2 {
					nontrivial = true
				}
			} else {
				done = true
			}
			if plan.SnapshotPath != "" && plan.Ops() >= plan.SnapshotAt {
				if err := checkSnapshot(r, plan.SnapshotPath, pool, suite, before); err != nil {
					return fail(i, "crash snapshot at operation %d: %v", plan.SnapshotAt, err)
				}
				rec.Count("crash_snapshots", 1)
			}
		case "enumerate":
			limit := int64(400)
			if !vt.Thorough() {
				limit = 60
			}
			var k int64
			for k = 1; k <= limit; k++ {
				plan := &drive.Plan{FailAt: k}
				fired, err := attempt(plan, fmt.Sprintf("after failing storage operation %d", k))
				if err == errSwallowed {
					rec.Count("faults_not_failing_the_call", 1)
					if reason != "" {
						return fail(i, "the call reported success although the model rejects the batch (%s)", reason)
					}
					done = true
					break
				}
				if err != nil {
					return fail(i, "%v", err)
				}
				if !fired {
					done = true
					break
				}
				rec.Count("enumerated_faults", 1)
				if k > 3 && len(st.Points)+len(st.Ids) >= 2 && nIndexes >= 2 {
					nontrivial = true
				}
			}
			if done && reason == "" {
				rec.Count("batches_enumerated_exhaustively", 1)
			}
		}
		// ---- the real execution (unless an attempt above already ran it without a fault)
		if !done {
			plan := &drive.Plan{}
			if f.SnapshotAt > 0 {
				plan.SnapshotAt = f.SnapshotAt
				plan.SnapshotPath = filepath.Join(r.Dir, fmt.Sprintf("crash-%d-b.bbolt", i))
			}
			r.S.Proxy.Arm(plan)
			callErr := applyToShard(r.S, st)
			r.S.Proxy.Arm(nil)
			if dl, ok := callErr.(errDeadlock); ok {
				deadlocked = true
				return fail(i, "%v", dl.error)
			}
			if err := drive.StrayVerdict(r.S); err != nil {
				return fail(i, "%v", err)
			}
			if (callErr != nil) != (reason != "") {
				return fail(i, "call returned %v, model says %q", callErr, reason)
			}
			if plan.SnapshotPath != "" && plan.Ops() >= plan.SnapshotAt && plan.SnapErr == nil {
				if err := checkSnapshot(r, plan.SnapshotPath, pool, suite, before); err != nil {
					return fail(i, "crash snapshot at operation %d of the batch: %v", plan.SnapshotAt, err)
				}
				rec.Count("crash_snapshots", 1)
			}
		}
		if reason != "" {
			rec.Count("validation_rejections", 1)
			if wrongType {
				rec.Count("wrong_type_rejections", 1)
			}
			if err := check(i, "after the rejected batch ("+reason+")", before); err != nil {
				return fail(i, "%v", err)
			}
			continue
		}
		// success: all effects visible, warm == cold, documents equal the model
		r.M = modelAfter
		after, err := oracle.Observe(r.S, pool, suite, full)
		if err != nil {
			return fail(i, "observing after the batch: %v", err)
		}
		if err := check(i, "after the successful batch", after); err != nil {
			return fail(i, "%v", err)
		}
		if err := oracle.CheckDocs(r.S, r.M, pool); err != nil {
			return fail(i, "after the successful batch: %v", err)
		}
		if err := oracle.CheckSuiteAgainstModel(r.S, r.M, suite); err != nil {
			return fail(i, "after the successful batch: %v", err)
		}
	}
	res.NonTrivial = nontrivial
	return res
}

var errSwallowed = errors.New("injected error swallowed")

// learnedQuantisers lists the vector properties whose quantiser is trained from the stored data.
func learnedQuantisers(s *drive.Shard) []string {
	var out []string
	for prop, sv := range s.Col.IndexSchema {
		var q *models.Quantizer
		switch sv.Type {
		case models.IndexTypeVectorFlat:
			q = sv.VectorFlat.Quantizer
		case models.IndexTypeVectorVamana:
			q = sv.VectorVamana.Quantizer
		}
		if q == nil {
			continue
		}
		if (q.Type == models.QuantizerBinary && q.Binary != nil && q.Binary.Threshold == nil) || q.Type == models.QuantizerProduct {
			out = append(out, prop)
		}
	}
	sort.Strings(out)
	return out
}

func checkSnapshot(r *run.Runner, path string, pool []uuid.UUID, suite []models.Query, want oracle.Observation) error {
	s, err := drive.OpenNamed(path, r.H.Schema, r.H.MaxPointSize, cache.NewManager(-1), r.H.Rename)
	if err != nil {
		return fmt.Errorf("cannot open the file as a killed process would have left it: %v", err)
	}
	defer s.Close()
	got, err := oracle.Observe(s, pool, suite, oracle.ObserveOpts{RawBuckets: true, GraphLists: true})
	if err != nil {
		return fmt.Errorf("observing it: %v", err)
	}
	if d := want.Diff(got); d != "" {
		return fmt.Errorf("the file left by a process killed before the batch reported success does not show the pre-batch state: %s", d)
	}
	return nil
}

func TestPropAtomic(t *testing.T)   { vt.Check(t, "atomic", genCase, execCase) }
func TestReplayAtomic(t *testing.T) { vt.Replay(t, "atomic", execCase) }
