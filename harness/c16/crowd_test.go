package c16

import (
	"encoding/json"
	"fmt"
	"net/http"
	"path/filepath"
	"strings"
	"sync"
	"testing"

	"github.com/semafind/semadb/models"
	"pgregory.net/rapid"
	"verif/drive"
	"verif/vt"
)

// "For any interleaving of their requests": several tenants use collections of the same name at the same
// moment. Every point carries its owner; whatever a tenant's search, read or listing returns while the
// others are searching and writing must be its own. Each tenant works on its own collection (concurrent
// searches on one shard are C09's subject), so every answer has a definite expectation: the exact set of
// the tenant's points that satisfy the query. The job's binary is built with the race detector, so state
// shared between the requests of different tenants without synchronisation is reported even when the
// answers happen to come out right.

type CrowdOp struct {
	Kind string `json:"kind"` // search | flat | byid | insert | update | get | list
	Arg  int    `json:"arg"`
}

type CrowdCase struct {
	Tenants int         `json:"tenants"`
	Points  int         `json:"points"` // points per tenant at the start
	Ops     [][]CrowdOp `json:"ops"`    // per tenant
	Rounds  int         `json:"rounds"` // each tenant plays its ops this many times
}

func genCrowd(t *rapid.T) CrowdCase {
	c := CrowdCase{Tenants: rapid.IntRange(2, 5).Draw(t, "tenants"), Points: rapid.IntRange(1, 9).Draw(t, "points"), Rounds: rapid.IntRange(1, 12).Draw(t, "rounds")}
	for w := 0; w < c.Tenants; w++ {
		n := rapid.IntRange(2, 8).Draw(t, fmt.Sprintf("n%d", w))
		var ops []CrowdOp
		for i := 0; i < n; i++ {
			ops = append(ops, CrowdOp{Kind: rapid.SampledFrom([]string{"search", "search", "flat", "flat", "byid", "insert", "update", "get", "list"}).Draw(t, fmt.Sprintf("k%d.%d", w, i)),
				Arg: rapid.IntRange(0, 8).Draw(t, fmt.Sprintf("a%d.%d", w, i))})
		}
		c.Ops = append(c.Ops, ops)
	}
	return c
}

func crowdId(tenant, k int) string { return fmt.Sprintf("00000000-0000-4000-8000-%04d%08d", tenant, k) }

type crowdTenant struct {
	user  string
	no    int
	have  map[int]int // point number -> its current "n"
	fails []string
}

func (ct *crowdTenant) rows(h http.Handler, q map[string]any) ([]map[string]any, string) {
	r := drive.Call(h, "POST", "/v2/collections/shared/points/search", drive.JSONHeaders(ct.user, planName), map[string]any{"query": q, "select": []string{"*"}, "limit": 75})
	if r.Status != 200 {
		return nil, fmt.Sprintf("search answered %d %.200s", r.Status, r.Body)
	}
	var body struct {
		Points []map[string]any `json:"points"`
	}
	if err := json.Unmarshal(r.Body, &body); err != nil {
		return nil, err.Error()
	}
	return body.Points, ""
}

func (ct *crowdTenant) judge(what string, rows []map[string]any, want map[int]bool) {
	seen := map[int]bool{}
	for _, row := range rows {
		if row["owner"] != ct.user {
			ct.fails = append(ct.fails, fmt.Sprintf("tenant %s: %s returned a point of %v: %v", ct.user, what, row["owner"], row))
			return
		}
		k := int(row["k"].(float64))
		if row["_id"] != crowdId(ct.no, k) || seen[k] {
			ct.fails = append(ct.fails, fmt.Sprintf("tenant %s: %s returned %v (twice: %v)", ct.user, what, row, seen[k]))
			return
		}
		seen[k] = true
		if n, ok := ct.have[k]; !ok || float64(n) != row["n"] {
			ct.fails = append(ct.fails, fmt.Sprintf("tenant %s: %s returned point %d with n=%v, the tenant stored n=%d (stored: %v)", ct.user, what, k, row["n"], n, ok))
			return
		}
	}
	for k := range want {
		if !seen[k] {
			ct.fails = append(ct.fails, fmt.Sprintf("tenant %s: %s lacks its point %d (%d rows)", ct.user, what, k, len(rows)))
			return
		}
	}
	for k := range seen {
		if !want[k] {
			ct.fails = append(ct.fails, fmt.Sprintf("tenant %s: %s returned point %d, which does not satisfy the query", ct.user, what, k))
			return
		}
	}
}

func (ct *crowdTenant) play(h http.Handler, ops []CrowdOp, rounds int) {
	hd := drive.JSONHeaders(ct.user, planName)
	for r := 0; r < rounds && len(ct.fails) == 0; r++ {
		for _, op := range ops {
			switch op.Kind {
			case "search": // n >= arg
				rows, e := ct.rows(h, map[string]any{"property": "n", "integer": map[string]any{"value": op.Arg, "operator": "greaterThanOrEquals"}})
				if e != "" {
					ct.fails = append(ct.fails, "tenant "+ct.user+": "+e)
					return
				}
				want := map[int]bool{}
				for k, n := range ct.have {
					if n >= op.Arg {
						want[k] = true
					}
				}
				ct.judge(fmt.Sprintf("search n >= %d", op.Arg), rows, want)
			case "flat": // every point, nearest first
				rows, e := ct.rows(h, map[string]any{"property": "v", "vectorFlat": map[string]any{"vector": []float32{float32(op.Arg), 0}, "operator": "near", "limit": 75}})
				if e != "" {
					ct.fails = append(ct.fails, "tenant "+ct.user+": "+e)
					return
				}
				want := map[int]bool{}
				for k := range ct.have {
					want[k] = true
				}
				ct.judge("flat search", rows, want)
			case "byid":
				rows, e := ct.rows(h, map[string]any{"property": "_id", "string": map[string]any{"value": crowdId(ct.no, op.Arg), "operator": "equals"}})
				if e != "" {
					ct.fails = append(ct.fails, "tenant "+ct.user+": "+e)
					return
				}
				want := map[int]bool{}
				if _, ok := ct.have[op.Arg]; ok {
					want[op.Arg] = true
				}
				ct.judge("read by id", rows, want)
			case "insert":
				k := len(ct.have)
				if k > 40 {
					continue
				}
				rr := drive.Call(h, "POST", "/v2/collections/shared/points", hd, map[string]any{"points": []map[string]any{{"_id": crowdId(ct.no, k), "owner": ct.user, "k": k, "n": op.Arg, "v": []float32{float32(k), 1}}}})
				if rr.Status != 200 || !strings.Contains(string(rr.Body), `"failedRanges":[]`) {
					ct.fails = append(ct.fails, fmt.Sprintf("tenant %s: insert answered %d %.200s", ct.user, rr.Status, rr.Body))
					return
				}
				ct.have[k] = op.Arg
			case "update":
				k := op.Arg % max(1, len(ct.have))
				if _, ok := ct.have[k]; !ok {
					continue
				}
				rr := drive.Call(h, "PUT", "/v2/collections/shared/points", hd, map[string]any{"points": []map[string]any{{"_id": crowdId(ct.no, k), "n": op.Arg + r}}})
				if rr.Status != 200 || !strings.Contains(string(rr.Body), `"failedPoints":[]`) {
					ct.fails = append(ct.fails, fmt.Sprintf("tenant %s: update answered %d %.200s", ct.user, rr.Status, rr.Body))
					return
				}
				ct.have[k] = op.Arg + r
			case "get":
				rr := drive.Call(h, "GET", "/v2/collections/shared", hd, nil)
				total := 0.0
				if shards, ok := rr.JSON["shards"].([]any); ok {
					for _, s := range shards {
						total += s.(map[string]any)["pointCount"].(float64)
					}
				}
				if rr.Status != 200 || int(total) != len(ct.have) {
					ct.fails = append(ct.fails, fmt.Sprintf("tenant %s: its collection reports %v points, it stored %d (%d %.200s)", ct.user, total, len(ct.have), rr.Status, rr.Body))
					return
				}
			case "list":
				rr := drive.Call(h, "GET", "/v2/collections", hd, nil)
				cols, _ := rr.JSON["collections"].([]any)
				if rr.Status != 200 || len(cols) != 1 {
					ct.fails = append(ct.fails, fmt.Sprintf("tenant %s: its listing is %d %.200s", ct.user, rr.Status, rr.Body))
					return
				}
			}
		}
	}
}

func execCrowd(c CrowdCase) (res vt.Result) {
	rec := vt.R()
	dir, cleanup := drive.CaseDir()
	defer cleanup()
	me := drive.NodeSpec{Host: "127.0.1.1", Port: 1}
	node, err := drive.NewClusterNode(filepath.Join(dir, "node"), me, []string{me.Name()}, drive.ClusterOpts{ShardTimeout: 60}, false)
	if err != nil {
		return vt.Result{Err: err}
	}
	defer func() {
		node.VerifShardManager().VerifUnloadAll()
		node.Close()
	}()
	plans := map[string]models.UserPlan{planName: drive.UserPlan(3, 1000, 1<<16)}
	h := drive.Router(node, plans)
	tenants := make([]*crowdTenant, c.Tenants)
	for w := range tenants {
		ct := &crowdTenant{user: fmt.Sprintf("crowd%d", w), no: w, have: map[int]int{}}
		tenants[w] = ct
		hd := drive.JSONHeaders(ct.user, planName)
		if r := drive.Call(h, "POST", "/v2/collections", hd, map[string]any{"id": "shared", "indexSchema": map[string]any{
			"n": map[string]any{"type": "integer"},
			"v": map[string]any{"type": "vectorFlat", "vectorFlat": map[string]any{"vectorSize": 2, "distanceMetric": "euclidean"}}}}); r.Status != 200 {
			return vt.Result{Err: fmt.Errorf("create: %d %s", r.Status, r.Body)}
		}
		var pts []map[string]any
		for k := 0; k < c.Points; k++ {
			pts = append(pts, map[string]any{"_id": crowdId(w, k), "owner": ct.user, "k": k, "n": (k*3 + w) % 9, "v": []float32{float32(k), 1}})
			ct.have[k] = (k*3 + w) % 9
		}
		if r := drive.Call(h, "POST", "/v2/collections/shared/points", hd, map[string]any{"points": pts}); r.Status != 200 || !strings.Contains(string(r.Body), `"failedRanges":[]`) {
			return vt.Result{Err: fmt.Errorf("populate: %d %s", r.Status, r.Body)}
		}
	}
	var wg sync.WaitGroup
	start := make(chan struct{})
	for w := range tenants {
		wg.Add(1)
		go func(w int) {
			defer wg.Done()
			<-start
			tenants[w].play(h, c.Ops[w], c.Rounds)
		}(w)
	}
	close(start)
	wg.Wait()
	nops := 0
	for w, ct := range tenants {
		nops += len(c.Ops[w]) * c.Rounds
		if len(ct.fails) > 0 {
			return vt.Result{NonTrivial: true, Err: fmt.Errorf("%s", strings.Join(ct.fails, "\n"))}
		}
	}
	rec.Count("crowd_requests_sent_side_by_side", int64(nops))
	return vt.Result{NonTrivial: c.Tenants >= 3 && nops >= 30}
}

func TestPropCrowd(t *testing.T)   { vt.Check(t, "crowd", genCrowd, execCrowd) }
func TestReplayCrowd(t *testing.T) { vt.Replay(t, "crowd", execCrowd) }
