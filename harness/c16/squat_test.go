package c16

import (
	"fmt"
	"os"
	"path/filepath"
	"sort"
	"strings"
	"testing"

	"github.com/semafind/semadb/cluster"
	"github.com/semafind/semadb/models"
	"pgregory.net/rapid"
	"verif/drive"
	"verif/vt"
)

// SquatCase: a second tenant whose user id is taken from what the first tenant's requests left on disk,
// or derived from the first tenant's id (cut to a length limit, a prefix, another case, surrounding
// white space removed). User ids are opaque strings without a length limit; whatever the server derives
// from them (directory names, database keys) must keep different ids apart. The squatter creates the
// same-named collection, writes into it, searches it and deletes it; the first tenant must keep seeing
// exactly what it saw before.
type SquatCase struct {
	Victim string `json:"victim"`
	Col    string `json:"col"`
	Points []int  `json:"points"`
	// Derived: which derived ids to try besides the names found on disk
	Derived []string `json:"derived"`
}

func genSquat(t *rapid.T) SquatCase {
	var victim string
	switch rapid.IntRange(0, 3).Draw(t, "vkind") {
	case 0:
		// long ids: file systems limit a name to 255 bytes, the API does not limit the id
		n := rapid.SampledFrom([]int{100, 254, 255, 256, 257, 300, 512, 1000, 4096}).Draw(t, "vlen")
		unit := rapid.StringMatching(`[a-z0-9]{1,5}`).Draw(t, "vunit")
		victim = strings.Repeat(unit, n/len(unit)+1)[:n]
	case 1:
		victim = rapid.SampledFrom([]string{"Alice", "alice ", " alice", "al.ice", "alice.", "alice%41", "alice+1", "ALICE", "älice", "alice ", "a", "alice~1", "alice-0123456789abcdef"}).Draw(t, "vodd")
	default:
		victim = rapid.StringMatching(`[a-zA-Z0-9_-]{1,40}`).Draw(t, "vplain")
	}
	c := SquatCase{Victim: victim, Col: rapid.SampledFrom(colNames).Draw(t, "col"), Points: []int{0, 1, 2}[:rapid.IntRange(1, 3).Draw(t, "npoints")]}
	c.Derived = rapid.SliceOfNDistinct(rapid.SampledFrom([]string{"cut255", "cut254", "cut64", "cut32", "half", "lower", "upper", "trim", "dropLast", "addSpace"}), 0, 4, rapid.ID[string]).Draw(t, "derived")
	return c
}

func deriveId(victim, how string) string {
	cut := func(n int) string {
		if len(victim) > n {
			return victim[:n]
		}
		return victim
	}
	switch how {
	case "cut255":
		return cut(255)
	case "cut254":
		return cut(254)
	case "cut64":
		return cut(64)
	case "cut32":
		return cut(32)
	case "half":
		return cut(len(victim) / 2)
	case "lower":
		return strings.ToLower(victim)
	case "upper":
		return strings.ToUpper(victim)
	case "trim":
		return strings.TrimSpace(victim)
	case "dropLast":
		return cut(len(victim) - 1)
	case "addSpace":
		return victim + " "
	}
	return victim
}

func execSquat(c SquatCase) (res vt.Result) {
	rec := vt.R()
	dir, cleanup := drive.CaseDir()
	defer cleanup()
	me := drive.NodeSpec{Host: "127.0.1.1", Port: 1}
	root := filepath.Join(dir, "node")
	node, err := drive.NewClusterNode(root, me, []string{me.Name()}, drive.ClusterOpts{ShardTimeout: 1}, false)
	if err != nil {
		return vt.Result{Err: err}
	}
	defer node.Close()
	plans := map[string]models.UserPlan{planName: drive.UserPlan(3, 8, 1<<16)}
	w := &world{h: drive.Router(node, plans), c: Case{Users: []string{c.Victim}, MaxCollections: 3, MaxPoints: 8}}
	w.users = []*userModel{{cols: map[string]*colModel{}}}
	// the first tenant's requests; what they achieved is read back, not assumed (a file system may refuse
	// the names a long id leads to: then the inserts fail, which is not judged here)
	if st := w.apply(Op{User: 0, Kind: "createV2", Col: c.Col}); st != 200 {
		return vt.Result{Err: fmt.Errorf("user %q: creating collection %q returned %d", c.Victim, c.Col, st)}
	}
	w.users[0].cols[c.Col] = &colModel{points: map[string]string{}}
	if st := w.apply(Op{User: 0, Kind: "insert", Col: c.Col, Points: c.Points, Tag: "red"}); st >= 500 && st != 503 {
		rec.Count("first_tenant_insert_5xx", 1)
	}
	hd := w.headers(0)
	var ids []string
	for i := 0; i < npool; i++ {
		ids = append(ids, poolId(0, i))
	}
	s := drive.Call(w.h, "POST", "/v2/collections/"+c.Col+"/points/search", hd, map[string]any{
		"query":  map[string]any{"property": "_id", "stringArray": map[string]any{"value": ids, "operator": "containsAny"}},
		"select": []string{"tag", "owner"}, "limit": 100})
	if s.Status == 200 {
		if l, ok := s.JSON["points"].([]any); ok {
			for _, e := range l {
				if m, ok := e.(map[string]any); ok {
					w.users[0].cols[c.Col].points[fmt.Sprint(m["_id"])] = "red"
				}
			}
		}
	}
	stored := len(w.users[0].cols[c.Col].points)
	if stored > 0 {
		rec.Count("first_tenant_has_points", 1)
	}
	if err := w.observe(0); err != nil {
		// what the first tenant sees must at least be consistent with itself
		if stored > 0 {
			return vt.Result{Err: fmt.Errorf("before any other tenant acted: %v", err)}
		}
		rec.Count("first_tenant_unreadable", 1)
		// (ids longer than a file name can be: the collection record exists, its shard cannot be created,
		// reads answer 503 'one or more shards are unavailable')
		return vt.Result{}
	}
	// candidate ids for the second tenant
	cands := map[string]string{}
	if ents, err := os.ReadDir(filepath.Join(root, cluster.USERCOLSDIR)); err == nil {
		for _, e := range ents {
			if e.Name() != c.Victim && !strings.Contains(e.Name(), "/") {
				cands[e.Name()] = "a name found in the shard directory"
			}
		}
	}
	if len(cands) > 0 {
		rec.Count("cases_with_a_directory_named_unlike_its_user", 1)
	}
	for _, how := range c.Derived {
		if id := deriveId(c.Victim, how); id != c.Victim && id != "" && !strings.ContainsAny(id, "\r\n\x00") {
			if _, ok := cands[id]; !ok {
				cands[id] = "derived: " + how
			}
		}
	}
	var order []string
	for id := range cands {
		order = append(order, id)
	}
	sort.Strings(order)
	for _, id := range order {
		w.c.Users = append(w.c.Users, id)
		w.users = append(w.users, &userModel{cols: map[string]*colModel{}})
		u := len(w.c.Users) - 1
		for _, op := range []Op{{User: u, Kind: "createV2", Col: c.Col}, {User: u, Kind: "insert", Col: c.Col, Points: []int{0, 3}, Tag: "blue"}, {User: u, Kind: "search", Col: c.Col},
			{User: u, Kind: "deletePoints", Col: c.Col, Points: []int{0}}, {User: u, Kind: "deleteCol", Col: c.Col}} {
			got := w.apply(op)
			if got >= 500 && got != 503 {
				rec.Count("second_tenant_5xx", 1)
			}
			err := w.observe(0)
			if err == nil && op.Kind == "deleteCol" {
				// what is left on disk shows once the shards are loaded afresh
				node.VerifShardManager().VerifUnloadAll()
				err = w.observe(0)
			}
			if err != nil {
				return vt.Result{Err: fmt.Errorf("after %s on %q by a second tenant with user id %.80q (%s; %d bytes; status %d): %v", op.Kind, c.Col, id, cands[id], len(id), got, err)}
			}
		}
		rec.Count("second_tenants", 1)
	}
	res.NonTrivial = stored > 0 && len(order) > 0
	return res
}

func TestPropSquat(t *testing.T)   { vt.Check(t, "squat", genSquat, execSquat) }
func TestReplaySquat(t *testing.T) { vt.Replay(t, "squat", execSquat) }
