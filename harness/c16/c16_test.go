package c16

import (
	"fmt"
	"net/http"
	"net/url"
	"path/filepath"
	"sort"
	"strings"
	"sync"
	"testing"

	"github.com/semafind/semadb/models"
	"pgregory.net/rapid"
	"verif/drive"
	"verif/vt"
)

func TestMain(m *testing.M) {
	vt.OnExit(drive.Cleanup)
	vt.Main(m, "C16")
}

// Op is one request of one user.
type Op struct {
	User   int    `json:"user"`
	Kind   string `json:"kind"` // createV2 | createV1 | deleteCol | insert | update | deletePoints
	Col    string `json:"col"`
	Points []int  `json:"points"`         // indexes into the id pool
	Tag    string `json:"tag"`            // value written into the documents
	With   *Op    `json:"with,omitempty"` // an operation of another user issued concurrently
	// Traverse > 0: the collection segment of the URL is a path that tries to leave the user's own
	// namespace towards the same-named collection of the next user (percent-encoded "../<user>/<col>" in
	// one of several spellings); such a request must be refused and change nothing
	Traverse int `json:"traverse,omitempty"`
}

func (w *world) colSegment(op Op) string {
	if op.Traverse == 0 {
		return op.Col
	}
	other := url.PathEscape(w.c.Users[(op.User+1)%len(w.c.Users)])
	switch op.Traverse {
	case 1:
		return "..%2F" + other + "%2F" + op.Col
	case 2:
		return "%2E%2E%2F" + other + "%2F" + op.Col
	case 3:
		return op.Col + "%2F..%2F..%2F" + other + "%2F" + op.Col
	default:
		return ".%2F..%2F" + other + "%2F" + op.Col
	}
}

type Case struct {
	Users          []string `json:"users"`
	MaxCollections int      `json:"maxCollections"`
	MaxPoints      int64    `json:"maxPoints"`
	Ops            []Op     `json:"ops"`
}

var colNames = []string{"abc", "abcd", "xyz", "abc1"}

// dotUser: "." and ".." are not names of a user's own directory (they name the directory of all users and
// its parent). A server may refuse such ids (400 on every request, they own nothing: found out by a first
// listing request) or serve them; served, they are tenants like any other.
func dotUser(id string) bool { return id == "." || id == ".." }

const npool = 6

func poolId(user, i int) string {
	// the same ids are used by every user on purpose
	return fmt.Sprintf("00000000-0000-4000-8000-%012d", i)
}

func genUsers(t *rapid.T) []string {
	base := rapid.SampledFrom([]string{"al", "u", "user1", "A", "tenant"}).Draw(t, "base")
	cands := []string{base, base + "i", base + "ice", base + "abc", base + "abcd", base + "-abc", base + "_", base + " ", strings.ToUpper(base), base + "1", base + "10", base + "é", base + "abcx", "abc", base + "abc" + "x",
		// ids that differ only in one punctuation character (any sanitising of ids must stay injective)
		base + "|1", base + "_1", base + ":1", base + "-1", base + ".1", base + "%1", base + "+1", base + "*1", base + "?1", base + "\\1", base + "<1", base + ">1", base + "\"1"}
	if rapid.IntRange(0, 3).Draw(t, "punct") == 0 {
		// prefer the punctuation family
		cands = cands[len(cands)-13:]
	}
	// ids cut at a separator some header or list syntax uses, and ids that are path elements of their own
	cands = append(cands, base+",eu", base+",", base+";q=1", base+"=1", base+"&x", ".", "..", "...", base+".", "."+base)
	if rapid.IntRange(0, 7).Draw(t, "dotFamily") == 0 {
		// an id that is a path element of its own next to a user who is named like a collection: what the
		// first addresses as <id>/<collection> is the second's own directory
		users := []string{rapid.SampledFrom([]string{".", ".", ".."}).Draw(t, "dotId"), rapid.SampledFrom(colNames).Draw(t, "colNamedUser")}
		if rapid.Bool().Draw(t, "dotThird") {
			users = append(users, base)
		}
		return users
	}
	n := rapid.IntRange(2, 3).Draw(t, "nusers")
	perm := rapid.Permutation(cands).Draw(t, "users")
	seen := map[string]bool{}
	var users []string
	for _, u := range perm {
		if !seen[u] && u != "" {
			seen[u] = true
			users = append(users, u)
		}
		if len(users) == n {
			break
		}
	}
	return users
}

func genOp(t *rapid.T, label string, nusers int, fixedUser int, ncols int) Op {
	op := Op{User: fixedUser}
	if fixedUser < 0 {
		op.User = rapid.IntRange(0, nusers-1).Draw(t, label+"-user")
	}
	op.Kind = rapid.SampledFrom([]string{"createV2", "createV2", "createV1", "deleteCol", "insert", "insert", "insert", "update", "deletePoints"}).Draw(t, label+"-kind")
	op.Col = rapid.SampledFrom(colNames[:ncols]).Draw(t, label+"-col")
	if op.Kind == "insert" || op.Kind == "update" || op.Kind == "deletePoints" {
		n := rapid.IntRange(1, 3).Draw(t, label+"-n")
		seen := map[int]bool{}
		for i := 0; i < n; i++ {
			p := rapid.IntRange(0, npool-1).Draw(t, fmt.Sprintf("%s-p%d", label, i))
			if !seen[p] {
				seen[p] = true
				op.Points = append(op.Points, p)
			}
		}
		op.Tag = rapid.SampledFrom([]string{"red", "green", "blue"}).Draw(t, label+"-tag")
	}
	if rapid.IntRange(0, 7).Draw(t, label+"-trav") == 0 {
		op.Kind = rapid.SampledFrom([]string{"get", "search", "deleteCol", "insert", "update", "deletePoints"}).Draw(t, label+"-travkind")
		op.Traverse = rapid.IntRange(1, 4).Draw(t, label+"-travhow")
		if len(op.Points) == 0 {
			op.Points, op.Tag = []int{0, 1}, "red"
		}
	}
	return op
}

func genCase(t *rapid.T) Case {
	c := Case{Users: genUsers(t), MaxCollections: rapid.IntRange(1, 3).Draw(t, "maxCols"), MaxPoints: int64(rapid.IntRange(2, 8).Draw(t, "maxPoints"))}
	ncols := rapid.SampledFrom([]int{1, 2, 4}).Draw(t, "ncols")
	n := rapid.IntRange(2, 16).Draw(t, "nops")
	if vt.Thorough() {
		n = rapid.IntRange(2, 40).Draw(t, "nopsT")
	}
	for i := 0; i < n; i++ {
		op := genOp(t, fmt.Sprintf("op%d", i), len(c.Users), -1, ncols)
		if rapid.IntRange(0, 4).Draw(t, fmt.Sprintf("conc%d", i)) == 0 {
			other := (op.User + 1 + rapid.IntRange(0, len(c.Users)-2).Draw(t, fmt.Sprintf("concu%d", i))) % len(c.Users)
			w := genOp(t, fmt.Sprintf("op%dw", i), len(c.Users), other, ncols)
			op.With = &w
		}
		c.Ops = append(c.Ops, op)
	}
	return c
}

// ---------------------------------------------------------------------------

type colModel struct {
	v1     bool
	points map[string]string // id -> tag
}

type userModel struct {
	cols map[string]*colModel
}

const planName = "P"

type world struct {
	h       http.Handler
	c       Case
	users   []*userModel
	refused map[string]bool // user ids the server refuses altogether
}

// probeRefused finds out which of the dot ids the server refuses.
func (w *world) probeRefused() {
	w.refused = map[string]bool{}
	for u, id := range w.c.Users {
		if dotUser(id) && drive.Call(w.h, "GET", "/v2/collections", w.headers(u), nil).Status == 400 {
			w.refused[id] = true
		}
	}
}

func v2Schema() map[string]any {
	return map[string]any{
		"vector": map[string]any{"type": "vectorVamana", "vectorVamana": map[string]any{"vectorSize": 2, "distanceMetric": "euclidean", "searchSize": 75, "degreeBound": 64, "alpha": 1.2}},
		"tag":    map[string]any{"type": "string", "string": map[string]any{"caseSensitive": true}},
	}
}

func (w *world) headers(u int) map[string]string { return drive.JSONHeaders(w.c.Users[u], planName) }

// apply performs the request and returns the status.
func (w *world) apply(op Op) int {
	hd := w.headers(op.User)
	switch op.Kind {
	case "createV2":
		return drive.Call(w.h, "POST", "/v2/collections", hd, map[string]any{"id": op.Col, "indexSchema": v2Schema()}).Status
	case "createV1":
		return drive.Call(w.h, "POST", "/v1/collections", hd, map[string]any{"id": op.Col, "vectorSize": 2, "distanceMetric": "euclidean"}).Status
	case "deleteCol":
		return drive.Call(w.h, "DELETE", "/v2/collections/"+w.colSegment(op), hd, nil).Status
	case "get":
		return drive.Call(w.h, "GET", "/v2/collections/"+w.colSegment(op), hd, nil).Status
	case "search":
		return drive.Call(w.h, "POST", "/v2/collections/"+w.colSegment(op)+"/points/search", hd, map[string]any{
			"query": map[string]any{"property": "tag", "string": map[string]any{"value": "red", "operator": "notEquals"}}, "select": []string{"*"}, "limit": 50}).Status
	case "insert", "update":
		var pts []map[string]any
		for _, p := range op.Points {
			pts = append(pts, map[string]any{"_id": poolId(op.User, p), "vector": []float32{float32(p), float32(op.User)}, "tag": op.Tag, "owner": w.c.Users[op.User]})
		}
		method := "POST"
		if op.Kind == "update" {
			method = "PUT"
		}
		return drive.Call(w.h, method, "/v2/collections/"+w.colSegment(op)+"/points", hd, map[string]any{"points": pts}).Status
	case "deletePoints":
		var ids []string
		for _, p := range op.Points {
			ids = append(ids, poolId(op.User, p))
		}
		return drive.Call(w.h, "DELETE", "/v2/collections/"+w.colSegment(op)+"/points", hd, map[string]any{"ids": ids}).Status
	}
	return 0
}

// expect updates the model of the acting user and returns the expected status class.
func (w *world) expect(op Op) (wantStatus []int) {
	um := w.users[op.User]
	col := um.cols[op.Col]
	if w.refused[w.c.Users[op.User]] {
		return []int{400}
	}
	if op.Traverse > 0 {
		// refused (or redirected to a cleaned path by the router), never served
		return []int{301, 307, 308, 400, 404, 405}
	}
	switch op.Kind {
	case "get", "search":
		if col == nil {
			return []int{404}
		}
		return []int{200}
	case "createV2", "createV1":
		if col != nil {
			return []int{409}
		}
		if len(um.cols) >= w.c.MaxCollections {
			return []int{403}
		}
		if op.Kind == "createV1" && len(op.Col) > 16 {
			return []int{400}
		}
		um.cols[op.Col] = &colModel{v1: op.Kind == "createV1", points: map[string]string{}}
		return []int{200}
	case "deleteCol":
		if col == nil {
			return []int{404}
		}
		delete(um.cols, op.Col)
		return []int{200, 202}
	case "insert":
		if col == nil {
			return []int{404}
		}
		if int64(len(col.points)+len(op.Points)) > w.c.MaxPoints {
			return []int{403}
		}
		// an insert containing a stored id fails as a whole (single shard): reported as a failed range with 200
		for _, p := range op.Points {
			if _, ok := col.points[poolId(op.User, p)]; ok {
				return []int{200}
			}
		}
		for _, p := range op.Points {
			col.points[poolId(op.User, p)] = op.Tag
		}
		return []int{200}
	case "update":
		if col == nil {
			return []int{404}
		}
		for _, p := range op.Points {
			if _, ok := col.points[poolId(op.User, p)]; ok {
				col.points[poolId(op.User, p)] = op.Tag
			}
		}
		return []int{200}
	case "deletePoints":
		if col == nil {
			return []int{404}
		}
		for _, p := range op.Points {
			delete(col.points, poolId(op.User, p))
		}
		return []int{200}
	}
	return nil
}

// observe reads everything user u can see and compares it with u's model.
func (w *world) observe(u int) error {
	um := w.users[u]
	hd := w.headers(u)
	name := w.c.Users[u]
	r := drive.Call(w.h, "GET", "/v2/collections", hd, nil)
	if w.refused[name] {
		if r.Status != 400 {
			return fmt.Errorf("user %q: list collections returned %d %s, such an id is refused", name, r.Status, r.Body)
		}
		return nil
	}
	if r.Status != 200 {
		return fmt.Errorf("user %q: list collections returned %d %s", name, r.Status, r.Body)
	}
	var got []string
	if l, ok := r.JSON["collections"].([]any); ok {
		for _, e := range l {
			if m, ok := e.(map[string]any); ok {
				got = append(got, fmt.Sprint(m["id"]))
			}
		}
	}
	sort.Strings(got)
	var want []string
	for c := range um.cols {
		want = append(want, c)
	}
	sort.Strings(want)
	if fmt.Sprint(got) != fmt.Sprint(want) {
		return fmt.Errorf("user %q lists collections %v, its own requests created %v", name, got, want)
	}
	for _, colName := range colNames {
		col := um.cols[colName]
		g := drive.Call(w.h, "GET", "/v2/collections/"+colName, hd, nil)
		if col == nil {
			if g.Status != 404 {
				return fmt.Errorf("user %q: GET of collection %q it does not own returned %d %s", name, colName, g.Status, g.Body)
			}
			continue
		}
		if g.Status != 200 {
			return fmt.Errorf("user %q: GET of its collection %q returned %d %s", name, colName, g.Status, g.Body)
		}
		total := 0
		if l, ok := g.JSON["shards"].([]any); ok {
			for _, e := range l {
				if m, ok := e.(map[string]any); ok {
					if f, ok := m["pointCount"].(float64); ok {
						total += int(f)
					}
				}
			}
		}
		if total != len(col.points) {
			return fmt.Errorf("user %q: collection %q reports %d points, its own requests stored %d", name, colName, total, len(col.points))
		}
		var ids []string
		for i := 0; i < npool; i++ {
			ids = append(ids, poolId(u, i))
		}
		s := drive.Call(w.h, "POST", "/v2/collections/"+colName+"/points/search", hd, map[string]any{
			"query":  map[string]any{"property": "_id", "stringArray": map[string]any{"value": ids, "operator": "containsAny"}},
			"select": []string{"tag", "owner"}, "limit": 100})
		if s.Status != 200 {
			return fmt.Errorf("user %q: search in %q returned %d %s", name, colName, s.Status, s.Body)
		}
		seen := map[string]bool{}
		if l, ok := s.JSON["points"].([]any); ok {
			for _, e := range l {
				m, _ := e.(map[string]any)
				id := fmt.Sprint(m["_id"])
				seen[id] = true
				wantTag, ok := col.points[id]
				if !ok {
					return fmt.Errorf("user %q finds point %s in %q which its own requests never stored (or deleted): %v", name, id, colName, m)
				}
				if fmt.Sprint(m["tag"]) != wantTag || fmt.Sprint(m["owner"]) != name {
					return fmt.Errorf("user %q: point %s in %q reads %v, expected tag %q owner %q", name, id, colName, m, wantTag, name)
				}
			}
		}
		for id := range col.points {
			if !seen[id] {
				return fmt.Errorf("user %q: its point %s in %q is gone", name, id, colName)
			}
		}
	}
	return nil
}

func contains(l []int, x int) bool {
	for _, v := range l {
		if v == x {
			return true
		}
	}
	return false
}

func execCase(c Case) (res vt.Result) {
	rec := vt.R()
	dir, cleanup := drive.CaseDir()
	defer cleanup()
	me := drive.NodeSpec{Host: "127.0.1.1", Port: 1}
	node, err := drive.NewClusterNode(filepath.Join(dir, "node"), me, []string{me.Name()}, drive.ClusterOpts{ShardTimeout: 1}, false)
	if err != nil {
		return vt.Result{Err: err}
	}
	defer node.Close()
	plans := map[string]models.UserPlan{planName: drive.UserPlan(c.MaxCollections, c.MaxPoints, 1<<16)}
	w := &world{h: drive.Router(node, plans), c: c}
	for range c.Users {
		w.users = append(w.users, &userModel{cols: map[string]*colModel{}})
	}
	w.probeRefused()
	if len(w.refused) > 0 {
		rec.Count("cases_with_a_refused_user_id", 1)
	}
	sameNames, quotaHit := false, false
	for i, op := range c.Ops {
		fail := func(f string, a ...any) vt.Result {
			res.Err = fmt.Errorf("op %d (%s by %q on %q, concurrent with %v): %s", i, op.Kind, c.Users[op.User], op.Col, op.With != nil, fmt.Sprintf(f, a...))
			return res
		}
		want := w.expect(op)
		var got, gotW int
		var wantW []int
		if op.With != nil {
			wantW = w.expect(*op.With)
			var wg sync.WaitGroup
			wg.Add(2)
			go func() { defer wg.Done(); got = w.apply(op) }()
			go func() { defer wg.Done(); gotW = w.apply(*op.With) }()
			wg.Wait()
			if !contains(wantW, gotW) {
				return fail("the concurrent request (%s by %q on %q) returned %d, expected %v", op.With.Kind, c.Users[op.With.User], op.With.Col, gotW, wantW)
			}
			rec.Count("concurrent_pairs", 1)
		} else {
			got = w.apply(op)
		}
		if !contains(want, got) {
			return fail("returned status %d, expected %v judging by this user's own earlier requests", got, want)
		}
		if got == 403 {
			quotaHit = true
		}
		for u := range c.Users {
			if err := w.observe(u); err != nil {
				return fail("afterwards: %v", err)
			}
		}
		if op.Kind == "deleteCol" || (op.With != nil && op.With.Kind == "deleteCol") || i == len(c.Ops)-1 {
			// a loaded shard keeps answering from its open file even when the file has been removed from
			// under it: what is really left on disk shows once the shards are loaded afresh
			node.VerifShardManager().VerifUnloadAll()
			for u := range c.Users {
				if err := w.observe(u); err != nil {
					return fail("afterwards, with every shard loaded afresh from disk: %v", err)
				}
			}
		}
		for u := range c.Users {
			for v := range c.Users {
				if u < v {
					for name := range w.users[u].cols {
						if w.users[v].cols[name] != nil {
							sameNames = true
						}
					}
				}
			}
		}
	}
	rec.Count("ops", int64(len(c.Ops)))
	res.NonTrivial = sameNames
	if quotaHit {
		rec.Count("quota_refusals", 1)
	}
	return res
}

func TestPropTenants(t *testing.T)   { vt.Check(t, "tenants", genCase, execCase) }
func TestReplayTenants(t *testing.T) { vt.Replay(t, "tenants", execCase) }
