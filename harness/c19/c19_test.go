package c19

import (
	"bytes"
	"cmp"
	"fmt"
	"math"
	"os"
	"path/filepath"
	"slices"
	"sort"
	"strings"
	"testing"

	"github.com/google/uuid"
	"github.com/semafind/semadb/conversion"
	"github.com/semafind/semadb/diskstore"
	"github.com/semafind/semadb/shard/index/inverted"
	"github.com/semafind/semadb/shard/index/text"
	"github.com/semafind/semadb/shard/pointstore"
	"pgregory.net/rapid"
	"verif/vt"
)

func TestMain(m *testing.M) { vt.Main(m, "C19") }

// ---------------------------------------------------------------------------
// generators of boundary-heavy scalars (bit patterns for floats)

var intPool = []int64{math.MinInt64, math.MinInt64 + 1, -1 << 32, -256, -255, -1, 0, 1, 255, 256, 1 << 32, math.MaxInt64 - 1, math.MaxInt64}

func genInt(t *rapid.T, label string) int64 {
	switch rapid.IntRange(0, 3).Draw(t, label+"-k") {
	case 0:
		return rapid.SampledFrom(intPool).Draw(t, label+"-pool")
	case 1:
		return int64(rapid.IntRange(-300, 300).Draw(t, label+"-small"))
	default:
		return rapid.Int64().Draw(t, label)
	}
}

var floatBitsPool = []uint64{
	0, 1 << 63, // +0 -0
	1, 1<<63 | 1, // smallest subnormals
	0x000fffffffffffff, 0x800fffffffffffff, // largest subnormals
	0x0010000000000000, 0x8010000000000000, // smallest normals
	0x3ff0000000000000, 0xbff0000000000000, // +-1
	0x7fefffffffffffff, 0xffefffffffffffff, // +-MaxFloat64
	0x7ff0000000000000, 0xfff0000000000000, // +-Inf
}

// non-NaN float64 bit pattern
func genFloatBits(t *rapid.T, label string) uint64 {
	var b uint64
	switch rapid.IntRange(0, 3).Draw(t, label+"-k") {
	case 0:
		b = rapid.SampledFrom(floatBitsPool).Draw(t, label+"-pool")
	case 1:
		b = math.Float64bits(float64(rapid.IntRange(-1000, 1000).Draw(t, label+"-small")) / 8)
	case 2:
		// neighbour of a pool value
		b = rapid.SampledFrom(floatBitsPool).Draw(t, label+"-pool")
		f := math.Float64frombits(b)
		b = math.Float64bits(math.Nextafter(f, rapid.SampledFrom([]float64{math.Inf(1), math.Inf(-1)}).Draw(t, label+"-dir")))
	default:
		b = rapid.Uint64().Draw(t, label)
	}
	if f := math.Float64frombits(b); f != f {
		// NaN is outside the property's domain: clear the exponent's top bit (construction, not rejection)
		b &^= 1 << 62
	}
	return b
}

func genString(t *rapid.T, label string) string {
	switch rapid.IntRange(0, 3).Draw(t, label+"-k") {
	case 0:
		return rapid.StringMatching(`[abAB]{0,4}`).Draw(t, label+"-short")
	case 1:
		return string(rapid.SliceOfN(rapid.Byte(), 0, 6).Draw(t, label+"-bytes"))
	default:
		return rapid.String().Draw(t, label)
	}
}

// ---------------------------------------------------------------------------

// SortableCase: a triple per type for round-trip, injectivity and order.
type SortableCase struct {
	Ints    []int64  `json:"ints"`
	Uints   []uint64 `json:"uints"`
	Floats  []uint64 `json:"floatBits"`
	Strings []string `json:"strings"`
}

func genSortable(t *rapid.T) SortableCase {
	var c SortableCase
	for i := 0; i < 3; i++ {
		c.Ints = append(c.Ints, genInt(t, fmt.Sprintf("i%d", i)))
		c.Uints = append(c.Uints, uint64(genInt(t, fmt.Sprintf("u%d", i))))
		c.Floats = append(c.Floats, genFloatBits(t, fmt.Sprintf("f%d", i)))
		c.Strings = append(c.Strings, genString(t, fmt.Sprintf("s%d", i)))
	}
	if rapid.IntRange(0, 7).Draw(t, "bothZeros") == 0 {
		c.Floats[0], c.Floats[1] = 0, 1<<63
	}
	if rapid.IntRange(0, 7).Draw(t, "longStrings") == 0 {
		n := rapid.SampledFrom([]int{63, 64, 65, 255, 256, 257, 1000}).Draw(t, "strPrefixLen")
		prefix := strings.Repeat(rapid.SampledFrom([]string{"a", "\x00", "\xff"}).Draw(t, "strPrefixChar"), n)
		c.Strings[0] = prefix
		c.Strings[1] = prefix + rapid.StringMatching(`[ab]{0,2}`).Draw(t, "strTail")
	}
	return c
}

func checkFamily[T inverted.Invertable](name string, vals []T, compare func(a, b T) int, same func(a, b T) bool) error {
	keys := make([][]byte, len(vals))
	for i, v := range vals {
		k, err := inverted.VerifToByteSortable(v)
		if err != nil {
			return fmt.Errorf("%s: encode %v: %v", name, v, err)
		}
		keys[i] = k
		var back T
		if err := inverted.VerifFromByteSortable(k, &back); err != nil {
			return fmt.Errorf("%s: decode key %x of %v: %v", name, k, v, err)
		}
		if !same(back, v) {
			return fmt.Errorf("%s: round trip of %v (key %x) gives %v", name, v, k, back)
		}
	}
	for i := range vals {
		for j := range vals {
			c := compare(vals[i], vals[j])
			kc := bytes.Compare(keys[i], keys[j])
			if c != 0 && kc == 0 {
				return fmt.Errorf("%s: different values %v and %v share key %x", name, vals[i], vals[j], keys[i])
			}
			if c == 0 && kc != 0 {
				// key order coincides with value order: equal values (the two float zeros) cannot be apart
				return fmt.Errorf("%s: equal values %v and %v have different keys %x and %x, so a scan bounded by one misses the other", name, vals[i], vals[j], keys[i], keys[j])
			}
			if c < 0 && kc >= 0 || c > 0 && kc <= 0 {
				return fmt.Errorf("%s: %v vs %v compare %d but keys %x vs %x compare %d", name, vals[i], vals[j], c, keys[i], keys[j], kc)
			}
		}
	}
	return nil
}

func execSortable(c SortableCase) vt.Result {
	if err := checkFamily("int64", c.Ints, func(a, b int64) int { return cmp.Compare(a, b) }, func(a, b int64) bool { return a == b }); err != nil {
		return vt.Result{Err: err}
	}
	if err := checkFamily("uint64", c.Uints, func(a, b uint64) int { return cmp.Compare(a, b) }, func(a, b uint64) bool { return a == b }); err != nil {
		return vt.Result{Err: err}
	}
	fl := make([]float64, len(c.Floats))
	zeros := 0
	for i, b := range c.Floats {
		fl[i] = math.Float64frombits(b)
		if fl[i] == 0 {
			zeros++
		}
	}
	// numeric comparison: +0 and -0 are the same value (they share a key and decode to either)
	numCmp := func(a, b float64) int {
		if a < b {
			return -1
		}
		if a > b {
			return 1
		}
		return 0
	}
	if err := checkFamily("float64", fl, numCmp, func(a, b float64) bool { return a == b }); err != nil {
		return vt.Result{Err: err}
	}
	if err := checkFamily("string", c.Strings, func(a, b string) int { return cmp.Compare(a, b) }, func(a, b string) bool { return a == b }); err != nil {
		return vt.Result{Err: err}
	}
	if zeros > 0 {
		vt.R().Count("sortable_with_zero", 1)
	}
	nt := c.Ints[0] != c.Ints[1] && (c.Ints[0] < 0) != (c.Ints[1] < 0) || (fl[0] < 0) != (fl[1] < 0)
	return vt.Result{NonTrivial: nt}
}

func TestPropSortable(t *testing.T)   { vt.Check(t, "sortable", genSortable, execSortable) }
func TestReplaySortable(t *testing.T) { vt.Replay(t, "sortable", execSortable) }

// ---------------------------------------------------------------------------
// conversion package, node / point / text keys

type ConvCase struct {
	U       uint64   `json:"u"`
	V       uint64   `json:"v"`
	Suffix  byte     `json:"suffix"`
	Suffix2 byte     `json:"suffix2"`
	Uuid    []byte   `json:"uuid"`
	Uuid2   []byte   `json:"uuid2"`
	F32     []uint32 `json:"f32bits"`
	VecLen  int      `json:"vecLen"`
	VecPool []uint32 `json:"vecPool"`
	Edges   []uint64 `json:"edges"`
	Term    string   `json:"term"`
	Term2   string   `json:"term2"`
	RandKey []byte   `json:"randKey"`
}

func genConv(t *rapid.T) ConvCase {
	c := ConvCase{
		U:       uint64(genInt(t, "u")),
		V:       uint64(genInt(t, "v")),
		Suffix:  rapid.SampledFrom([]byte{'i', 'd', 'e', 'v', 'q', 0, 255, 'n', 'p'}).Draw(t, "suffix"),
		Suffix2: rapid.Byte().Draw(t, "suffix2"),
		Uuid:    rapid.SliceOfN(rapid.Byte(), 16, 16).Draw(t, "uuid"),
		Uuid2:   rapid.SliceOfN(rapid.Byte(), 16, 16).Draw(t, "uuid2"),
		Term:    genString(t, "term"),
		Term2:   genString(t, "term2"),
		RandKey: rapid.SliceOfN(rapid.Byte(), 0, 20).Draw(t, "randKey"),
	}
	if rapid.IntRange(0, 4).Draw(t, "longTerms") == 0 {
		// long tokens with a long common prefix, around the lengths where a length byte / fixed buffer would overflow
		n := rapid.SampledFrom([]int{63, 64, 65, 127, 128, 254, 255, 256, 257, 511, 512, 1000, 4096, 32765, 32766, 32767, 32768, 32769, 65535, 65536, 70000}).Draw(t, "termPrefixLen") // (beyond the longest key the storage engine takes: the codec itself has no limit)
		prefix := strings.Repeat(rapid.SampledFrom([]string{"a", "s", "é", "\x00"}).Draw(t, "termPrefixChar"), n)
		c.Term = prefix[:n] + rapid.StringMatching(`[a-c]{0,2}`).Draw(t, "termTailA")
		c.Term2 = prefix[:n] + rapid.StringMatching(`[a-c]{0,3}`).Draw(t, "termTailB")
	}
	switch rapid.IntRange(0, 2).Draw(t, "vlk") {
	case 0:
		c.VecLen = rapid.IntRange(1, 40).Draw(t, "vecLenSmall")
	case 1:
		c.VecLen = rapid.SampledFrom([]int{1, 2, 3, 4, 7, 8, 9, 31, 32, 33, 1023, 1024, 4095, 4096}).Draw(t, "vecLenB")
	default:
		c.VecLen = rapid.IntRange(1, 4096).Draw(t, "vecLen")
	}
	special := []uint32{0, 1 << 31, 0x7f800000, 0xff800000, 0x7fc00000, 0x7f800001, 0xffffffff, 1, 0x00800000, 0x3f800000}
	np := rapid.IntRange(1, 8).Draw(t, "npool")
	for i := 0; i < np; i++ {
		if rapid.Bool().Draw(t, "sp") {
			c.VecPool = append(c.VecPool, rapid.SampledFrom(special).Draw(t, "vp-special"))
		} else {
			c.VecPool = append(c.VecPool, rapid.Uint32().Draw(t, "vp"))
		}
	}
	c.Edges = rapid.SliceOfN(rapid.Uint64(), 0, 70).Draw(t, "edges")
	return c
}

func execConv(c ConvCase) vt.Result {
	fail := func(f string, a ...any) vt.Result { return vt.Result{Err: fmt.Errorf(f, a...)} }
	// uint64
	if g := conversion.BytesToUint64(conversion.Uint64ToBytes(c.U)); g != c.U {
		return fail("uint64 round trip %d -> %d", c.U, g)
	}
	if c.U != c.V && bytes.Equal(conversion.Uint64ToBytes(c.U), conversion.Uint64ToBytes(c.V)) {
		return fail("uint64 %d and %d share an encoding", c.U, c.V)
	}
	// single float32 and vectors, bitwise
	vec := make([]float32, c.VecLen)
	for i := range vec {
		vec[i] = math.Float32frombits(c.VecPool[(i*7+i/3)%len(c.VecPool)])
	}
	sb := conversion.SingleFloat32ToBytes(vec[0])
	if math.Float32bits(conversion.BytesToSingleFloat32(sb)) != math.Float32bits(vec[0]) {
		return fail("single float32 round trip of bits %08x", math.Float32bits(vec[0]))
	}
	enc := conversion.Float32ToBytes(vec)
	if len(enc) != 4*len(vec) {
		return fail("vector of %d floats encoded in %d bytes", len(vec), len(enc))
	}
	// the stored form must survive independently of the source slice (bbolt copies on Put)
	stored := bytes.Clone(enc)
	dec := conversion.BytesToFloat32(stored)
	if len(dec) != len(vec) {
		return fail("vector length %d decoded as %d", len(vec), len(dec))
	}
	for i := range vec {
		if math.Float32bits(dec[i]) != math.Float32bits(vec[i]) {
			return fail("vector element %d of %d: bits %08x decoded as %08x", i, len(vec), math.Float32bits(vec[i]), math.Float32bits(dec[i]))
		}
	}
	// decoded vector must not alias the stored bytes (the bucket page goes away with the transaction)
	for i := range stored {
		stored[i] ^= 0xff
	}
	for i := range vec {
		if math.Float32bits(dec[i]) != math.Float32bits(vec[i]) {
			return fail("decoded vector aliases the byte slice it was decoded from (element %d)", i)
		}
	}
	// little-endian layout of each element is what other tools (dump, python bindings) rely on: check against the safe encoding
	for i := 0; i < len(vec); i += max(1, len(vec)/5) {
		if !bytes.Equal(enc[4*i:4*i+4], conversion.SingleFloat32ToBytes(vec[i])) {
			return fail("vector element %d encoded as %x, single-float encoding is %x", i, enc[4*i:4*i+4], conversion.SingleFloat32ToBytes(vec[i]))
		}
	}
	// edge lists
	eb := conversion.EdgeListToBytes(c.Edges)
	if back := conversion.BytesToEdgeList(eb); !slices.Equal(back, c.Edges) && !(len(back) == 0 && len(c.Edges) == 0) {
		return fail("edge list round trip %v -> %v", c.Edges, back)
	}
	// node keys
	nk := conversion.NodeKey(c.U, c.Suffix)
	if id, ok := conversion.NodeIdFromKey(nk, c.Suffix); !ok || id != c.U {
		return fail("NodeIdFromKey(NodeKey(%d,%q)) = %d,%v", c.U, c.Suffix, id, ok)
	}
	if c.Suffix2 != c.Suffix {
		if _, ok := conversion.NodeIdFromKey(nk, c.Suffix2); ok {
			return fail("node key with suffix %q accepted for suffix %q", c.Suffix, c.Suffix2)
		}
		if bytes.Equal(nk, conversion.NodeKey(c.U, c.Suffix2)) {
			return fail("node keys of suffix %q and %q collide", c.Suffix, c.Suffix2)
		}
	}
	if c.U != c.V && bytes.Equal(nk, conversion.NodeKey(c.V, c.Suffix)) {
		return fail("node keys of %d and %d collide", c.U, c.V)
	}
	if id, ok := conversion.NodeIdFromKey(c.RandKey, c.Suffix); ok {
		if !bytes.Equal(conversion.NodeKey(id, c.Suffix), c.RandKey) {
			return fail("NodeIdFromKey accepted %x which is not NodeKey(%d,%q)", c.RandKey, id, c.Suffix)
		}
	}
	// point keys
	u1, _ := uuid.FromBytes(c.Uuid)
	u2, _ := uuid.FromBytes(c.Uuid2)
	pk := pointstore.PointKey(u1, c.Suffix)
	if len(pk) != 18 || pk[0] != 'p' || !bytes.Equal(pk[1:17], c.Uuid) || pk[17] != c.Suffix {
		return fail("PointKey(%s,%q) = %x", u1, c.Suffix, pk)
	}
	if u1 != u2 && bytes.Equal(pk, pointstore.PointKey(u2, c.Suffix)) {
		return fail("point keys of %s and %s collide", u1, u2)
	}
	if bytes.Equal(pk, nk) {
		return fail("point key and node key collide: %x", pk)
	}
	// text keys: term / document / counter families
	tk := text.VerifTermKey(c.Term)
	if got, ok := text.VerifTermFromKey(tk); !ok || got != c.Term {
		return fail("term key of %q decodes to %q,%v", c.Term, got, ok)
	}
	if c.Term != c.Term2 && bytes.Equal(tk, text.VerifTermKey(c.Term2)) {
		return fail("terms %q and %q share key %x", c.Term, c.Term2, tk)
	}
	dk := text.VerifDocumentKey(c.U)
	if got, ok := text.VerifDocIdFromKey(dk); !ok || got != c.U {
		return fail("document key of %d decodes to %d,%v", c.U, got, ok)
	}
	if c.U != c.V && bytes.Equal(dk, text.VerifDocumentKey(c.V)) {
		return fail("document keys of %d and %d collide", c.U, c.V)
	}
	if _, ok := text.VerifDocIdFromKey(tk); ok && bytes.Equal(tk, dk) {
		return fail("term key %x is also a document key", tk)
	}
	if bytes.Equal(tk, dk) || bytes.Equal(tk, []byte("_numDocuments")) || bytes.Equal(dk, []byte("_numDocuments")) {
		return fail("text key families collide: %x %x", tk, dk)
	}
	if _, ok := text.VerifTermFromKey(dk); ok {
		return fail("document key %x is accepted as a term key", dk)
	}
	if _, ok := text.VerifTermFromKey([]byte("_numDocuments")); ok {
		return fail("counter key accepted as a term key")
	}
	vt.R().Count("conv", 1)
	vt.R().Max("max_vec_len", int64(c.VecLen))
	return vt.Result{NonTrivial: c.VecLen > 1 && len(c.Edges) > 0}
}

func TestPropConversion(t *testing.T)   { vt.Check(t, "conversion", genConv, execConv) }
func TestReplayConversion(t *testing.T) { vt.Replay(t, "conversion", execConv) }

// ---------------------------------------------------------------------------
// scans over buckets filled with encoded keys visit exactly the values in range

type ScanCase struct {
	Kind      string     `json:"kind"` // int64 | float64 | string
	Ints      []int64    `json:"ints,omitempty"`
	Floats    []uint64   `json:"floatBits,omitempty"`
	Strings   []string   `json:"strings,omitempty"`
	StartIdx  int        `json:"startIdx"` // index into the probe list, -1 = nil
	EndIdx    int        `json:"endIdx"`
	Inclusive bool       `json:"inclusive"`
	Probes    ScanProbes `json:"probes"`
}

type ScanProbes struct {
	Ints    []int64  `json:"ints,omitempty"`
	Floats  []uint64 `json:"floatBits,omitempty"`
	Strings []string `json:"strings,omitempty"`
}

func genScan(t *rapid.T) ScanCase {
	c := ScanCase{Kind: rapid.SampledFrom([]string{"int64", "float64", "string"}).Draw(t, "kind")}
	n := rapid.IntRange(0, 12).Draw(t, "n")
	np := rapid.IntRange(1, 4).Draw(t, "np")
	for i := 0; i < n+np; i++ {
		probe := i >= n
		switch c.Kind {
		case "int64":
			v := genInt(t, "v")
			if probe {
				c.Probes.Ints = append(c.Probes.Ints, v)
			} else {
				c.Ints = append(c.Ints, v)
			}
		case "float64":
			v := genFloatBits(t, "v")
			if probe {
				c.Probes.Floats = append(c.Probes.Floats, v)
			} else {
				c.Floats = append(c.Floats, v)
			}
		default:
			v := genString(t, "v")
			if v == "" {
				v = "a" // bbolt cannot store the empty key (catalogued as D7 under C18); excluded by construction
				vt.R().Count("excluded_empty_string_key", 1)
			}
			if probe {
				c.Probes.Strings = append(c.Probes.Strings, v)
			} else {
				c.Strings = append(c.Strings, v)
			}
		}
	}
	// probes also include stored values
	c.StartIdx = rapid.IntRange(-1, n+np-1).Draw(t, "start")
	c.EndIdx = rapid.IntRange(-1, n+np-1).Draw(t, "end")
	c.Inclusive = rapid.Bool().Draw(t, "inclusive")
	return c
}

type kv struct {
	key []byte
	num float64 // for floats: numeric value; ints: exact via i
	i   int64
	s   string
}

func scanValues(c ScanCase) (stored []kv, all []kv, err error) {
	enc := func(k kv) (kv, error) {
		var e error
		switch c.Kind {
		case "int64":
			k.key, e = inverted.VerifToByteSortable(k.i)
		case "float64":
			k.key, e = inverted.VerifToByteSortable(k.num)
		default:
			k.key, e = inverted.VerifToByteSortable(k.s)
		}
		return k, e
	}
	add := func(dst *[]kv, k kv) error {
		k, e := enc(k)
		if e != nil {
			return e
		}
		*dst = append(*dst, k)
		return nil
	}
	for _, v := range c.Ints {
		if err = add(&stored, kv{i: v}); err != nil {
			return
		}
	}
	for _, v := range c.Floats {
		if err = add(&stored, kv{num: math.Float64frombits(v)}); err != nil {
			return
		}
	}
	for _, v := range c.Strings {
		if err = add(&stored, kv{s: v}); err != nil {
			return
		}
	}
	all = append(all, stored...)
	for _, v := range c.Probes.Ints {
		if err = add(&all, kv{i: v}); err != nil {
			return
		}
	}
	for _, v := range c.Probes.Floats {
		if err = add(&all, kv{num: math.Float64frombits(v)}); err != nil {
			return
		}
	}
	for _, v := range c.Probes.Strings {
		if err = add(&all, kv{s: v}); err != nil {
			return
		}
	}
	return
}

func (c ScanCase) less(a, b kv) bool {
	switch c.Kind {
	case "int64":
		return a.i < b.i
	case "float64":
		return a.num < b.num
	default:
		return a.s < b.s
	}
}

func (c ScanCase) show(a kv) string {
	switch c.Kind {
	case "int64":
		return fmt.Sprint(a.i)
	case "float64":
		return fmt.Sprintf("%v(bits %016x)", a.num, math.Float64bits(a.num))
	default:
		return fmt.Sprintf("%q", a.s)
	}
}

var scanDir string

func execScan(c ScanCase) vt.Result {
	stored, all, err := scanValues(c)
	if err != nil {
		return vt.Result{Err: err}
	}
	var start, end *kv
	if c.StartIdx >= 0 && c.StartIdx < len(all) {
		start = &all[c.StartIdx]
	}
	if c.EndIdx >= 0 && c.EndIdx < len(all) {
		end = &all[c.EndIdx]
	}
	// expected: stored values v with start <(=) v <(=) end, by VALUE order
	inRange := func(v kv) bool {
		if start != nil {
			if c.less(v, *start) || (!c.Inclusive && !c.less(*start, v)) {
				return false
			}
		}
		if end != nil {
			if c.less(*end, v) || (!c.Inclusive && !c.less(v, *end)) {
				return false
			}
		}
		return true
	}
	// a stored zero against a bound that is the zero of the other sign: the statement does not say whether
	// -0.0 "equals" 0.0 for a scan, so neither inclusion nor exclusion is demanded for that key
	dontCare := map[string]bool{}
	oppositeZero := func(v kv, b *kv) bool {
		return c.Kind == "float64" && b != nil && v.num == 0 && b.num == 0 && math.Signbit(v.num) != math.Signbit(b.num)
	}
	want := map[string]bool{}
	for _, v := range stored {
		if oppositeZero(v, start) || oppositeZero(v, end) {
			dontCare[string(v.key)] = true
		}
	}
	for _, v := range stored {
		if inRange(v) && !dontCare[string(v.key)] {
			want[string(v.key)] = true
		}
	}
	if scanDir == "" {
		d, _ := vt.ScratchDir("c19")
		scanDir = d
	}
	path := filepath.Join(scanDir, "scan.bbolt")
	os.Remove(path)
	disk, err := diskstore.Open(path)
	if err != nil {
		return vt.Result{Err: err}
	}
	defer func() { disk.Close(); os.Remove(path) }()
	mem, _ := diskstore.Open("")
	for name, ds := range map[string]diskstore.DiskStore{"bbolt": disk, "memory": mem} {
		err := ds.Write(func(bm diskstore.BucketManager) error {
			b, err := bm.Get("b")
			if err != nil {
				return err
			}
			for _, v := range stored {
				if err := b.Put(v.key, []byte(c.show(v))); err != nil {
					return fmt.Errorf("put %s: %w", c.show(v), err)
				}
			}
			return nil
		})
		if err != nil {
			return vt.Result{Err: fmt.Errorf("%s: %v", name, err)}
		}
		err = ds.Read(func(bm diskstore.BucketManager) error {
			b, err := bm.Get("b")
			if err != nil {
				return err
			}
			var sk, ek []byte
			if start != nil {
				sk = start.key
			}
			if end != nil {
				ek = end.key
			}
			got := map[string]string{}
			var order [][]byte
			if err := b.RangeScan(sk, ek, c.Inclusive, func(k, v []byte) error {
				got[string(k)] = string(v)
				order = append(order, bytes.Clone(k))
				return nil
			}); err != nil {
				return err
			}
			desc := func() string {
				s, e := "nil", "nil"
				if start != nil {
					s = c.show(*start)
				}
				if end != nil {
					e = c.show(*end)
				}
				var st []string
				for _, v := range stored {
					st = append(st, c.show(v))
				}
				sort.Strings(st)
				return fmt.Sprintf("RangeScan(%s, %s, inclusive=%v) over %v on %s", s, e, c.Inclusive, st, name)
			}
			for k := range want {
				if _, ok := got[k]; !ok {
					return fmt.Errorf("%s missed key %x", desc(), k)
				}
			}
			for k, v := range got {
				if !want[k] && !dontCare[k] {
					return fmt.Errorf("%s visited %s which is out of range", desc(), v)
				}
			}
			if !slices.IsSortedFunc(order, bytes.Compare) {
				return fmt.Errorf("%s visited keys out of order", desc())
			}
			// prefix scan for strings: exactly the stored strings with that prefix
			if c.Kind == "string" && start != nil {
				gotP := map[string]bool{}
				if err := b.PrefixScan(start.key, func(k, v []byte) error { gotP[string(k)] = true; return nil }); err != nil {
					return err
				}
				for _, v := range stored {
					has := len(v.s) >= len(start.s) && v.s[:len(start.s)] == start.s
					if has != gotP[string(v.key)] {
						return fmt.Errorf("PrefixScan(%q) on %s: stored %q visited=%v, has prefix=%v", start.s, name, v.s, gotP[string(v.key)], has)
					}
				}
			}
			// ForEach visits everything exactly once
			n := 0
			if err := b.ForEach(func(k, v []byte) error { n++; return nil }); err != nil {
				return err
			}
			distinct := map[string]bool{}
			for _, v := range stored {
				distinct[string(v.key)] = true
			}
			if n != len(distinct) {
				return fmt.Errorf("ForEach on %s visited %d keys, %d stored", name, n, len(distinct))
			}
			return nil
		})
		if err != nil {
			return vt.Result{Err: err}
		}
	}
	vt.R().Count("scan_"+c.Kind, 1)
	return vt.Result{NonTrivial: len(want) > 0 && len(want) < len(stored) && (start != nil || end != nil)}
}

func TestPropScan(t *testing.T) {
	defer func() {
		if scanDir != "" {
			os.RemoveAll(scanDir)
		}
	}()
	vt.Check(t, "scan", genScan, execScan)
}
func TestReplayScan(t *testing.T) {
	defer func() {
		if scanDir != "" {
			os.RemoveAll(scanDir)
		}
	}()
	vt.Replay(t, "scan", execScan)
}
