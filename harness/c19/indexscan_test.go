package c19

import (
	"bytes"
	"context"
	"fmt"
	"math"
	"path/filepath"
	"testing"

	"github.com/semafind/semadb/diskstore"
	"github.com/semafind/semadb/models"
	"github.com/semafind/semadb/shard/index/inverted"
	"pgregory.net/rapid"
	"verif/drive"
	"verif/vt"
)

// IndexScanCase: the inverted index answers its operators with key scans (equals: one key, startsWith: a
// prefix scan, the comparisons and inRange: range scans, notEquals: a full scan). Values are stored through
// the index itself on a bbolt bucket (or the in-memory one), in one batch or in several with a fresh index
// object in between, and every operator is compared with the plain definition over the stored values.
// Strings are arbitrary byte strings (MessagePack bodies can carry them), including bytes 0x00 and 0xff
// right after a common prefix and values longer than a storage key may be.
type IndexScanCase struct {
	Kind    string    `json:"kind"` // int64 | float64 | string
	Ints    []int64   `json:"ints,omitempty"`
	Floats  []uint64  `json:"floatBits,omitempty"`
	Strings [][]byte  `json:"strings,omitempty"`
	Batches int       `json:"batches"` // values are written in this many batches
	Memory  bool      `json:"memory"`
	Probes  IndexScan `json:"probes"`
}

type IndexScan struct {
	Ints    []int64  `json:"ints,omitempty"`
	Floats  []uint64 `json:"floatBits,omitempty"`
	Strings [][]byte `json:"strings,omitempty"`
}

func genByteString(t *rapid.T, label string) []byte {
	switch rapid.IntRange(0, 5).Draw(t, label+"-k") {
	case 0:
		return []byte(genString(t, label))
	case 1:
		// a common prefix followed by boundary bytes
		p := rapid.SampledFrom([]string{"ab", "a", "\xff", "ab\xff"}).Draw(t, label+"-p")
		tail := rapid.SliceOfN(rapid.SampledFrom([]byte{0x00, 0x01, 'a', 'z', 0x7f, 0x80, 0xfe, 0xff}), 0, 3).Draw(t, label+"-t")
		return append([]byte(p), tail...)
	case 2:
		n := rapid.SampledFrom([]int{255, 256, 1000, 32766, 32767, 32768}).Draw(t, label+"-n")
		b := bytes.Repeat([]byte{rapid.SampledFrom([]byte{'a', 0xff, 0x00}).Draw(t, label+"-c")}, n)
		return append(b, rapid.SliceOfN(rapid.SampledFrom([]byte{'a', 'b'}), 0, 2).Draw(t, label+"-lt")...)
	default:
		return rapid.SliceOfN(rapid.SampledFrom([]byte{0x00, 'a', 'b', 0xff}), 1, 4).Draw(t, label+"-b")
	}
}

func genIndexScan(t *rapid.T) IndexScanCase {
	c := IndexScanCase{Kind: rapid.SampledFrom([]string{"int64", "float64", "string", "string"}).Draw(t, "kind"), Batches: rapid.IntRange(1, 3).Draw(t, "batches"), Memory: rapid.IntRange(0, 3).Draw(t, "memory") == 0}
	n := rapid.IntRange(1, 14).Draw(t, "n")
	np := rapid.IntRange(1, 5).Draw(t, "np")
	for i := 0; i < n+np; i++ {
		probe := i >= n
		switch c.Kind {
		case "int64":
			v := genInt(t, fmt.Sprintf("v%d", i))
			if probe {
				c.Probes.Ints = append(c.Probes.Ints, v)
			} else {
				c.Ints = append(c.Ints, v)
			}
		case "float64":
			v := genFloatBits(t, fmt.Sprintf("v%d", i))
			if probe {
				c.Probes.Floats = append(c.Probes.Floats, v)
			} else {
				c.Floats = append(c.Floats, v)
			}
		default:
			v := genByteString(t, fmt.Sprintf("v%d", i))
			if len(v) == 0 {
				v = []byte("a") // the storage engine has no empty key (catalogued as D7)
			}
			if probe && rapid.IntRange(0, 5).Draw(t, fmt.Sprintf("empty%d", i)) == 0 {
				// "" cannot be stored, but it is a string like any other as the bound of a query: below
				// every stored value
				v = []byte{}
			}
			if probe {
				c.Probes.Strings = append(c.Probes.Strings, v)
			} else {
				c.Strings = append(c.Strings, v)
			}
		}
	}
	return c
}

var scanOperators = []string{models.OperatorEquals, models.OperatorNotEquals, models.OperatorGreaterThan, models.OperatorGreaterOrEq, models.OperatorLessThan, models.OperatorLessOrEq, models.OperatorInRange}

func runIndexScan[T inverted.Invertable](c IndexScanCase, vals, probes []T, cmp func(a, b T) int, show func(T) string, hasPrefix func(v, p T) bool) error {
	var store diskstore.DiskStore
	var err error
	if c.Memory {
		store, err = diskstore.Open("")
	} else {
		dir, cleanup := drive.CaseDir()
		defer cleanup()
		store, err = diskstore.Open(filepath.Join(dir, "index.bbolt"))
	}
	if err != nil {
		return err
	}
	defer store.Close()
	// values written in c.Batches batches, each by a fresh index object (as the shard does per transaction)
	stored := map[uint64]T{}
	per := (len(vals) + c.Batches - 1) / c.Batches
	for b := 0; b*per < len(vals); b++ {
		lo, hi := b*per, min(len(vals), (b+1)*per)
		var werr error
		err := store.Write(func(bm diskstore.BucketManager) error {
			bucket, err := bm.Get("index")
			if err != nil {
				return err
			}
			idx := inverted.NewIndexInverted[T](bucket)
			ch := make(chan inverted.IndexChange[T], hi-lo)
			for i := lo; i < hi; i++ {
				v := vals[i]
				ch <- inverted.IndexChange[T]{Id: uint64(i + 1), CurrentData: &v}
			}
			close(ch)
			werr = <-idx.InsertUpdateDelete(context.Background(), ch)
			return werr
		})
		if err != nil {
			// a value that cannot be a storage key fails its whole batch: nothing of it is stored
			vt.R().Count("index_batches_rejected_by_storage", 1)
			continue
		}
		for i := lo; i < hi; i++ {
			stored[uint64(i+1)] = vals[i]
		}
	}
	all := append(append([]T{}, probes...), vals...)
	return store.Read(func(bm diskstore.BucketManager) error {
		bucket, err := bm.Get("index")
		if err != nil {
			return err
		}
		idx := inverted.NewIndexInverted[T](bucket)
		ops := scanOperators
		if hasPrefix != nil {
			ops = append(append([]string{}, ops...), models.OperatorStartsWith)
		}
		for pi, p := range all {
			for _, op := range ops {
				end := all[(pi*7+3)%len(all)]
				got, err := idx.Search(p, end, op)
				if err != nil {
					return fmt.Errorf("%s %s: %v", op, show(p), err)
				}
				for id, v := range stored {
					want := false
					switch op {
					case models.OperatorEquals:
						want = cmp(v, p) == 0
					case models.OperatorNotEquals:
						want = cmp(v, p) != 0
					case models.OperatorGreaterThan:
						want = cmp(v, p) > 0
					case models.OperatorGreaterOrEq:
						want = cmp(v, p) >= 0
					case models.OperatorLessThan:
						want = cmp(v, p) < 0
					case models.OperatorLessOrEq:
						want = cmp(v, p) <= 0
					case models.OperatorInRange:
						want = cmp(v, p) >= 0 && cmp(v, end) <= 0
					case models.OperatorStartsWith:
						want = hasPrefix(v, p)
					}
					if got.Contains(id) != want {
						return fmt.Errorf("%s %s (end %s): stored value %s of id %d is returned=%v, by the definition %v", op, show(p), show(end), show(v), id, got.Contains(id), want)
					}
				}
				if int(got.GetCardinality()) > len(stored) {
					return fmt.Errorf("%s %s: %d ids returned, %d stored", op, show(p), got.GetCardinality(), len(stored))
				}
			}
		}
		return nil
	})
}

func execIndexScan(c IndexScanCase) vt.Result {
	var err error
	switch c.Kind {
	case "int64":
		err = runIndexScan(c, c.Ints, c.Probes.Ints, func(a, b int64) int {
			switch {
			case a < b:
				return -1
			case a > b:
				return 1
			}
			return 0
		}, func(v int64) string { return fmt.Sprint(v) }, nil)
	case "float64":
		f := func(bits []uint64) []float64 {
			r := make([]float64, len(bits))
			for i, b := range bits {
				r[i] = math.Float64frombits(b)
			}
			return r
		}
		err = runIndexScan(c, f(c.Floats), f(c.Probes.Floats), func(a, b float64) int {
			switch {
			case a < b:
				return -1
			case a > b:
				return 1
			}
			return 0
		}, func(v float64) string { return fmt.Sprintf("%v(%016x)", v, math.Float64bits(v)) }, nil)
	default:
		s := func(bs [][]byte) []string {
			r := make([]string, len(bs))
			for i, b := range bs {
				r[i] = string(b)
			}
			return r
		}
		show := func(v string) string {
			if len(v) > 24 {
				return fmt.Sprintf("%q…(%d bytes)", v[:24], len(v))
			}
			return fmt.Sprintf("%q", v)
		}
		err = runIndexScan(c, s(c.Strings), s(c.Probes.Strings), func(a, b string) int { return bytes.Compare([]byte(a), []byte(b)) }, show,
			func(v, p string) bool { return bytes.HasPrefix([]byte(v), []byte(p)) })
	}
	if err != nil {
		return vt.Result{Err: err}
	}
	return vt.Result{NonTrivial: len(c.Ints)+len(c.Floats)+len(c.Strings) >= 3}
}

func TestPropIndexScan(t *testing.T)   { vt.Check(t, "indexscan", genIndexScan, execIndexScan) }
func TestReplayIndexScan(t *testing.T) { vt.Replay(t, "indexscan", execIndexScan) }
