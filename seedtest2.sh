#!/bin/bash
# usage: seedtest2.sh <patch.diff> <check ids...> : like seedtest.sh, but applies the seeded change to a scratch copy of
# /repo (VERIF_REPO development aid of ./check), so it can run while other checks use /repo itself.
patch="$1"; shift
alt=$(mktemp -d /tmp/alt-repo-XXXXXX)
rsync -a --exclude .git /repo/ "$alt/"
(cd "$alt" && patch -s -p1 < "$patch") || { echo "patch does not apply"; rm -rf "$alt"; exit 2; }
cd /verif
for c in "$@"; do
  echo "--- $c against $patch"
  VERIF_REPO="$alt" timeout 1800 ./check $c --tier quick --no-evidence 2>&1 | grep -aE "^VIOLATION|^KNOWN|^INCONCLUSIVE|tier=|^    " | head -8 | cut -c1-400
done
rm -rf "$alt"
