#!/bin/bash
# usage: seedverify.sh <worktree> <i> <name> : confirms a seeded change (tests pass with it, demo fails with it and passes without) and stores it under /verif/seeded/<name>/
wt="$1"; i="$2"; name="$3"
export GOFLAGS=-mod=mod GOPROXY=off
cd "$wt" || exit 2
git checkout -q -- . ; 
demo="_seed/demo${i}_test.go.txt"
dest=$(head -1 "$demo" | sed -E 's#^// *copy to *##' | awk '{print $1}')
pkgdir=$(dirname "$dest")
git apply "_seed/patch$i.diff" || { echo "APPLY FAILED"; exit 1; }
go build ./shard/... ./cluster/... ./utils/... ./models/... ./diskstore/... ./conversion/... ./distance/... ./httpapi/... . || { echo BUILD FAILED; git checkout -q -- .; exit 1; }
suite=$(go test -vet=off -count=1 ./shard/... ./cluster/... ./utils/... ./models/... ./diskstore/... ./conversion/... ./distance/... ./httpapi/... 2>&1 | grep -c "^FAIL\|^--- FAIL")
cp "$demo" "$dest"
with=$(go test -vet=off -count=1 -run 'Seed|seed|Demo|demo' "./$pkgdir/" 2>&1 | tail -1)
rm -f "$dest"; git checkout -q -- .
cp "$demo" "$dest"
without=$(go test -vet=off -count=1 -run 'Seed|seed|Demo|demo' "./$pkgdir/" 2>&1 | tail -1)
rm -f "$dest"
echo "$name: suite_failures_with_patch=$suite demo_with_patch=[$with] demo_without=[$without]"
mkdir -p /verif/seeded/$name
cp "_seed/patch$i.diff" /verif/seeded/$name/patch.diff
cp "$demo" /verif/seeded/$name/demo_test.go.txt
python3 - "$name" "_seed/meta$i.json" "$suite" "$with" "$without" <<'PY'
import json,sys
name,meta,suite,w,wo=sys.argv[1:6]
m=json.load(open(meta))
m['confirmed']={"existing_suite_failures_with_patch":int(suite),"demo_with_patch":w,"demo_without_patch":wo}
json.dump(m,open('/verif/seeded/%s/meta.json'%name,'w'),indent=1)
PY
