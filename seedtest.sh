#!/bin/bash
# usage: seedtest.sh <patch.diff> <check ids...> : applies a seeded change to /repo, runs the quick checks, reverts.
patch="$1"; shift
cd /repo || exit 2
if ! git diff --quiet; then echo "repo not clean"; exit 2; fi
git apply "$patch" || { echo "patch does not apply"; exit 2; }
cd /verif
for c in "$@"; do
  echo "--- $c against $(basename $(dirname $(dirname $patch)))/$(basename $patch)"
  timeout 1200 ./check $c --tier quick --no-evidence 2>&1 | grep -aE "^VIOLATION|^KNOWN|^INCONCLUSIVE|tier=|^    " | head -8
done
git -C /repo checkout -- . 
git -C /repo status --short | head
